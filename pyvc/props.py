"""Per-property plan: which level is claimed, which bounded stand-ins run, which canaries apply."""

PLAN = {
    "C06": {
        "level": "proof",
        "explanation": "crop: getIntervalsInInterval, IntervalTier.crop, PointTier.crop, Textgrid.crop and the two tier "
                       "constructors are symbolically executed from /repo's AST and proved equal, path by path, to spec "
                       "functions written from the property text; wf/span/name postconditions proved on the real outcome.",
        "bounded": [],
        "quick_canaries": 3,
        "claim": "For all well-formed tiers, windows, modes and rebase flags (no bound on tier size), every path of the real "
                 "crop code is proved to return exactly what the property prescribes (kept set, truncation, shift, span, "
                 "ArgumentError iff a >= b, no other exception), via per-function contracts discharged by z3.",
        "note": "REAL arithmetic (floats as reals); builtin/list models and the loop-shape reading are trusted (A1, A2); "
                "Textgrid.crop is covered through C12's contract when built",
        "technique": "contract-based deductive verification (symbolic execution of the real AST to VCs, z3)",
    },
}

NOT_CLAIMED = {}

U = "praatio/utilities/utils.py"
IT = "praatio/data_classes/interval_tier.py"
PT = "praatio/data_classes/point_tier.py"
GI = "praatio.utilities.utils.getIntervalsInInterval"
ITC = "praatio.data_classes.interval_tier.IntervalTier"
PTC = "praatio.data_classes.point_tier.PointTier"

CANARIES = [
    {"name": "gii-exclusion-strict", "props": ["C06", "C07", "C10", "C11"], "file": U, "target": GI,
     "old": "interval.end <= start or", "new": "interval.end < start or"},
    {"name": "gii-containment", "props": ["C06"], "file": U, "target": GI,
     "old": "if interval.start >= start and interval.end <= end:", "new": "if interval.start > start and interval.end <= end:"},
    {"name": "gii-truncate-right", "props": ["C06"], "file": U, "target": GI,
     "old": "matchedEntry = Interval(interval.start, end, interval.label)",
     "new": "matchedEntry = Interval(interval.start, interval.end, interval.label)"},
    {"name": "crop-rebase-amount", "props": ["C06"], "file": IT, "target": ITC + ".crop",
     "old": "Interval(start - timeDiff, end - timeDiff, label)", "new": "Interval(start - cropStart, end - timeDiff, label)",
     "config": ["mode=lax,rebaseToZero=True"]},
    {"name": "crop-span-from-source", "props": ["C06"], "file": IT, "target": ITC + ".crop",
     "old": "            maxT = cropEnd\n", "new": "            maxT = self.maxTimestamp\n",
     "config": ["mode=strict,rebaseToZero=False"]},
    {"name": "pointcrop-inclusive", "props": ["C06"], "file": PT, "target": PTC + ".crop",
     "old": "timestamp >= cropStart and timestamp <= cropEnd", "new": "timestamp >= cropStart and timestamp < cropEnd",
     "config": ["mode=lax,rebaseToZero=False"]},
    {"name": "ctor-no-sort", "props": ["C05"], "file": IT, "target": ITC + ".__init__",
     "old": "    processedEntries.sort()\n    return processedEntries", "new": "    return processedEntries"},
]
