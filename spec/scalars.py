"""Spec functions for scalar helpers (C15, C16, C18, C01 numeric kernel): written from the property text."""
from praatio.utilities import errors


def sign(x):
    if x > 0:
        return 1
    if x < 0:
        return -1
    return 0


def getInterval(startTime, duration, max, reverse):
    """an interval of the given duration before/after startTime, clamped to [0, max]"""
    if reverse is True:
        lo = startTime - duration
        hi = startTime
    else:
        lo = startTime
        hi = startTime + duration
    if lo < 0:
        lo = 0
    if hi > max:
        hi = max
    return (lo, hi)


def chooseClosestTime(targetTime, candidateA, candidateB):
    if candidateA is None and candidateB is None:
        raise errors.ArgumentError("")
    if candidateA is None:
        return candidateB
    if candidateB is None:
        return candidateA
    if abs(candidateA - targetTime) <= abs(candidateB - targetTime):
        return candidateA
    return candidateB


def overlap_length(a0, a1, b0, b1):
    return max(0, min(a1, b1) - max(a0, b0))


def trunc(x):
    return int(x)


def near_int(x):
    """within 1e-14 (relative) of an integer (the exemption allowed by C01)"""
    return abs(x - int(x)) <= 1e-14 * max(abs(x), abs(int(x)))
