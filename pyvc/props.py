"""Per-property plan: which level is claimed, which bounded stand-ins run, which canaries apply."""

PLAN = {
    "C06": {
        "level": "proof",
        "explanation": "crop: getIntervalsInInterval, IntervalTier.crop, PointTier.crop, Textgrid.crop and the two tier "
                       "constructors are symbolically executed from /repo's AST and proved equal, path by path, to spec "
                       "functions written from the property text; wf/span/name postconditions proved on the real outcome.",
        "bounded": [],
        "quick_canaries": 3,
        "claim": "For all well-formed tiers, windows, modes and rebase flags (no bound on tier size), every path of the real "
                 "crop code is proved to return exactly what the property prescribes (kept set, truncation, shift, span, "
                 "ArgumentError iff a >= b, no other exception), via per-function contracts discharged by z3.",
        "note": "REAL arithmetic (floats as reals); builtin/list models and the loop-shape reading are trusted (A1, A2); "
                "Textgrid.crop is covered through C12's contract when built",
        "technique": "contract-based deductive verification (symbolic execution of the real AST to VCs, z3)",
    },
}

TECH = "contract-based deductive verification (symbolic execution of the real AST to VCs, z3)"
NOTE = ("REAL arithmetic (floats as reals); builtin/list models and the loop-shape reading are trusted (A1, A2); "
        "spec functions in /verif/spec are the reference semantics")

PLAN["C08"] = {
    "level": "proof",
    "explanation": "insertSpace (both tier classes) proved equal, path by path, to the per-entry spec taken from the "
                   "property; span/wf postconditions proved on the real outcome; constructors under contract.",
    "bounded": [], "quick_canaries": 3,
    "claim": "For all well-formed tiers, insertion points, durations > 0 and collision modes, the real insertSpace "
             "returns exactly the entries the property prescribes (unchanged / shifted by d / stretched / split / "
             "rejected), span lengthened by d, result well-formed.",
    "note": NOTE + "; the rounding clause (RND/FP64) and the eraseRegion inverse law are separate obligations listed in "
                   "the evidence when built", "technique": TECH,
}
PLAN["C09"] = {
    "level": "proof",
    "explanation": "editTimestamps (both tier classes) and appendTier proved equal to the property-derived specs "
                   "(shift, drop, clip, OutOfBounds iff error mode and out of the old span, hull span); wf postconditions.",
    "bounded": [], "quick_canaries": 3,
    "claim": "For all well-formed tiers, offsets and reporting modes the real code moves every entry by exactly the "
             "offset, drops/clips at 0 as stated, reports as the mode says, never shrinks the span; appendTier yields "
             "A's entries followed by B's shifted by A's end with span [A.min, A.max+B.max].",
    "note": NOTE, "technique": TECH,
}

PLAN["C11"] = {
    "level": "proof",
    "explanation": "IntervalTier.insertEntry (3 collision modes x 2 reporting modes) and deleteEntry proved equal to the "
                   "list-model spec from the property text; wf of the mutated tier proved; the delete loops are "
                   "discharged by the R-ERASE rule under the stated distinguishability precondition.",
    "bounded": [], "quick_canaries": 3,
    "claim": "For all well-formed interval tiers with pairwise distinguishable entries and all new entries, insertEntry "
             "adds / replaces / merges exactly as the collision policy says, the tier stays sorted, disjoint and "
             "inside a span grown just enough; deleteEntry removes the first entry equal to the argument or raises.",
    "note": NOTE + "; precondition: no two entries equal under Interval.__eq__'s 1e-9 tolerance (the sliver region "
                   "is exercised by the bounded check c10_setops and recorded as a known finding); "
                   "collisionReportingMode='error' is outside the documented Literal and excluded; "
                   "PointTier.insertEntry is covered by the bounded layer only",
    "technique": TECH,
}

NOT_CLAIMED = {}

U = "praatio/utilities/utils.py"
IT = "praatio/data_classes/interval_tier.py"
PT = "praatio/data_classes/point_tier.py"
GI = "praatio.utilities.utils.getIntervalsInInterval"
ITC = "praatio.data_classes.interval_tier.IntervalTier"
PTC = "praatio.data_classes.point_tier.PointTier"

CANARIES = [
    {"name": "gii-exclusion-strict", "props": ["C06", "C07", "C10", "C11"], "file": U, "target": GI,
     "old": "interval.end <= start or", "new": "interval.end < start or"},
    {"name": "gii-containment", "props": ["C06"], "file": U, "target": GI,
     "old": "if interval.start >= start and interval.end <= end:", "new": "if interval.start > start and interval.end <= end:"},
    {"name": "gii-truncate-right", "props": ["C06"], "file": U, "target": GI,
     "old": "matchedEntry = Interval(interval.start, end, interval.label)",
     "new": "matchedEntry = Interval(interval.start, interval.end, interval.label)"},
    {"name": "crop-rebase-amount", "props": ["C06"], "file": IT, "target": ITC + ".crop",
     "old": "Interval(start - timeDiff, end - timeDiff, label)", "new": "Interval(start - cropStart, end - timeDiff, label)",
     "config": ["mode=lax,rebaseToZero=True"]},
    {"name": "crop-span-from-source", "props": ["C06"], "file": IT, "target": ITC + ".crop",
     "old": "            maxT = cropEnd\n", "new": "            maxT = self.maxTimestamp\n",
     "config": ["mode=strict,rebaseToZero=False"]},
    {"name": "pointcrop-inclusive", "props": ["C06"], "file": PT, "target": PTC + ".crop",
     "old": "timestamp >= cropStart and timestamp <= cropEnd", "new": "timestamp >= cropStart and timestamp < cropEnd",
     "config": ["mode=lax,rebaseToZero=False"]},
    {"name": "edit-drop-boundary", "props": ["C09"], "file": IT, "target": ITC + ".editTimestamps",
     "old": "if newEnd <= 0:", "new": "if newEnd < 0:", "config": ["reportingMode=silence"]},
    {"name": "edit-clip", "props": ["C09"], "file": IT, "target": ITC + ".editTimestamps",
     "old": "            if newStart < 0:\n                newStart = 0\n", "new": "", "config": ["reportingMode=silence"]},
    {"name": "pedit-drop", "props": ["C09"], "file": PT, "target": PTC + ".editTimestamps",
     "old": "if newTimestamp < 0:", "new": "if newTimestamp <= 0:", "config": ["reportingMode=silence"]},
    {"name": "append-shift", "props": ["C09"], "file": "praatio/data_classes/textgrid_tier.py",
     "target": "praatio.data_classes.textgrid_tier.TextgridTier.appendTier",
     "old": "        appendTier = tier.editTimestamps(\n            self.maxTimestamp,", "new": "        appendTier = tier.editTimestamps(\n            self.maxTimestamp - self.minTimestamp,"},
    {"name": "space-boundary", "props": ["C08"], "file": IT, "target": ITC + ".insertSpace",
     "old": "            if interval.end <= start:\n                newEntryList.append(interval)\n            # Entry exists after",
     "new": "            if interval.end < start:\n                newEntryList.append(interval)\n            # Entry exists after",
     "config": ["collisionMode=stretch"]},
    {"name": "space-split-right", "props": ["C08"], "file": IT, "target": ITC + ".insertSpace",
     "old": "start + duration + (interval.end - start),", "new": "start + duration + (interval.end - interval.start),",
     "config": ["collisionMode=split"]},
    {"name": "pspace-boundary", "props": ["C08"], "file": PT, "target": PTC + ".insertSpace",
     "old": "if point.time <= start:", "new": "if point.time < start:"},
    {"name": "insert-span-elif", "props": ["C11", "C05"], "file": IT, "target": ITC + ".insertEntry",
     "old": "        if self._entries[-1][1] > self.maxTimestamp:", "new": "        elif self._entries[-1][1] > self.maxTimestamp:",
     "config": ["collisionMode=replace,collisionReportingMode=silence"]},
    {"name": "insert-merge-extent", "props": ["C11", "C10"], "file": IT, "target": ITC + ".insertEntry",
     "old": "max([tmpInterval.end for tmpInterval in matchList]),", "new": "matchList[-1].end,",
     "config": ["collisionMode=merge,collisionReportingMode=silence"]},
    {"name": "insert-no-sort", "props": ["C11", "C05"], "file": IT, "target": ITC + ".insertEntry",
     "old": "        self.sort()\n\n        if self._entries[0][0]", "new": "        if self._entries[0][0]",
     "config": ["collisionMode=error,collisionReportingMode=silence"]},
    {"name": "ctor-no-sort", "props": ["C05"], "file": IT, "target": ITC + ".__init__",
     "old": "    processedEntries.sort()\n    return processedEntries", "new": "    return processedEntries"},
]
