"""Replay of a solver counterexample against the real code (DESIGN 2.9).

The model of a failed obligation is turned into concrete Python inputs through the same
`inputs` builder the contract uses (with a native Sym), the real function and the spec
function are both run natively, and the same comparison / ensures text is evaluated.
"""
import fractions
import importlib
import json
import os
import sys
import traceback

ROOT = os.path.dirname(os.path.dirname(os.path.abspath(__file__)))
REPO = os.environ.get("PRAATIO_REPO", "/repo")


def _native_paths():
    for p in (REPO, ROOT):
        if p not in sys.path:
            sys.path.insert(0, p)


def resolve(qualname):
    _native_paths()
    parts = qualname.split(".")
    for cut in range(len(parts), 0, -1):
        try:
            obj = importlib.import_module(".".join(parts[:cut]))
        except ImportError:
            continue
        for p in parts[cut:]:
            obj = getattr(obj, p)
        return obj
    raise ImportError(qualname)


def num(v):
    if isinstance(v, dict):
        if "q" in v:
            return float(fractions.Fraction(int(v["q"][0]), int(v["q"][1])))
        if "approx" in v:
            return float(v["approx"].rstrip("?"))
        raise ValueError("unreplayable value %r" % (v,))
    return v


class NativeI:
    def get_function(self, q):
        return resolve(q)


class NativeSym:
    def __init__(self, model):
        self.model = model
        self.I = NativeI()
        self.exact = True

    def _get(self, name, default):
        return self.model.get(name, default)

    def real(self, name):
        return float(num(self._get(name, 0)))

    def int(self, name):
        return int(num(self._get(name, 0)))

    def bool(self, name):
        return bool(self._get(name, False))

    def str(self, name):
        return str(self._get(name, ""))

    def func(self, name, arity=1):
        return lambda *a: 2.0 * a[0] + 1.0

    def list(self, name, kind, all=None, pair=None, adj=None, env=None, is_tuple=False):
        from praatio.utilities.constants import Interval, Point
        m = self._get(name, {"len": 0, "at": {}})
        items = []
        for k in sorted(m["at"], key=lambda s: int(s)):
            parts = [num(p) for p in m["at"][k]]
            if kind == "Interval":
                items.append(Interval(float(parts[0]), float(parts[1]), parts[2]))
            elif kind == "Point":
                items.append(Point(float(parts[0]), parts[1]))
            elif kind in ("tuple3", "tuple2", "pair"):
                items.append(tuple(float(p) if not isinstance(p, str) else p for p in parts))
            elif kind == "real":
                items.append(float(parts[0]))
            elif kind == "int":
                items.append(int(parts[0]))
            else:
                items.append(parts[0])
        return tuple(items) if is_tuple else items

    def obj(self, clsqual, **attrs):
        cls = resolve(clsqual)
        o = cls.__new__(cls)
        o.__dict__.update(attrs)
        return o

    def assume(self, text, variables):
        pass

    def attr(self, obj, name):
        return getattr(obj, name)

    def mark_distinct(self, lst):
        pass

    def nt(self, clsqual, values):
        return resolve(clsqual)(*values)

    def pylist(self, items):
        return list(items)

    def odict(self, pairs):
        import collections
        return collections.OrderedDict(pairs)


def native_outcome(thunk):
    import contextlib
    import io
    try:
        with contextlib.redirect_stdout(io.StringIO()):
            return ("return", thunk())
    except BaseException as e:  # noqa
        return ("raise", e)


def same(a, b):
    """exact structural equality (no tolerance); lazy filter/map objects are compared by their contents, callables
    are not compared"""
    if isinstance(a, (filter, map)):
        a = list(a)
    if isinstance(b, (filter, map)):
        b = list(b)
    if callable(a) and callable(b) and not isinstance(a, type):
        return True
    if type(a) is not type(b) and not (isinstance(a, (int, float)) and isinstance(b, (int, float))):
        if not (isinstance(a, tuple) and isinstance(b, tuple) and type(a).__name__ == type(b).__name__):
            return False
    if isinstance(a, (list, tuple)):
        return len(a) == len(b) and all(same(x, y) for x, y in zip(tuple(a), tuple(b)))
    if isinstance(a, dict):
        return list(a.keys()) == list(b.keys()) and all(same(a[k], b[k]) for k in a)
    if hasattr(a, "__dict__") and not callable(a):
        return same(a.__dict__, b.__dict__)
    if isinstance(a, float) or isinstance(b, float):
        return float(a) == float(b) and (isinstance(a, bool) == isinstance(b, bool))
    return a == b


def describe(out):
    kind, v = out
    if kind == "raise":
        return "raises %s(%s)" % (type(v).__name__, str(v)[:100])
    return "returns %s" % show(v)


def show(v, depth=0):
    if isinstance(v, (tuple, list, dict, str, int, float)) or v is None:
        r = repr(v)
        return r if len(r) < 300 else r[:300] + "..."
    if hasattr(v, "__dict__") and not callable(v) and depth < 3:
        return "%s(%s)" % (type(v).__name__, ", ".join("%s=%s" % (k, show(x, depth + 1)) for k, x in v.__dict__.items()
                                                           if not callable(x)))
    r = repr(v)
    return r if len(r) < 300 else r[:300] + "..."


def run_native(ob):
    """returns dict(reproduced, real, spec, note)"""
    _native_paths()
    sys.path.insert(0, ROOT)
    from pyvc import check
    pc = check.load_contracts()
    c = pc.REGISTRY.contracts[ob["function"]]
    cfg = ob["config"]
    model = ob.get("model") or {}
    if not model:
        return {"reproduced": False, "note": "the solver produced no model"}
    cands = [model] + [dict(model, **ov) for ov in c.opts.get("replay_candidates", [])]
    last = None
    for mdl in cands:
        last = run_native_one(ob, c, cfg, mdl)
        if last.get("reproduced"):
            if mdl is not model:
                last["note"] = "reproduced with a candidate input from the contract's replay pool (the solver model " \
                               "itself did not reproduce: REAL-mode abstraction of repr())"
            return last
    return last


def run_native_one(ob, c, cfg, model, symf=None):
    try:
        symf = symf or (lambda: NativeSym(model))
        S1 = symf()
        args1 = c.inputs(S1, cfg)
        fn = resolve(c.target)
        shown = {k: show(v) for k, v in args1.items()}
        real = native_outcome(lambda: fn(**args1))
        res = {"real": describe(real), "inputs": shown}
        if ob.get("kind") == "frame":
            S0 = symf()
            args0 = c.inputs(S0, cfg)
            res["reproduced"] = any(not same(args1[a], args0[a]) for a in (c.frame or []))
            return res
        if ob.get("kind") == "raises-only":
            res["reproduced"] = real[0] == "raise" and type(real[1]).__name__ not in (c.may_raise or [])
            return res
        if ob.get("kind") == "raises":
            ns = dict(resolve(c.spec_module).__dict__)
            ns.update(args1)
            ns["old"] = c.inputs(symf(), cfg)
            if real[0] == "raise":
                en = type(real[1]).__name__
                if en not in (c.raises or {}):
                    res["reproduced"] = True
                else:
                    res["reproduced"] = not bool(eval(c.raises[en], ns))
            else:
                res["reproduced"] = any(bool(eval(t, ns)) for t in (c.raises or {}).values())
            return res
        if ob.get("kind") == "ensures":
            text = ob["detail"].split(" | ")[0]
            ns = dict(resolve(c.spec_module).__dict__)
            ns.update(args1)
            ns["old"] = c.inputs(symf(), cfg)
            if real[0] != "return":
                res["reproduced"] = False
                res["note"] = "real function raised"
                return res
            ns["result"] = real[1]
            val = eval(text, ns)
            res["ensures_value"] = bool(val)
            res["reproduced"] = not bool(val)
            return res
        S2 = symf()
        args2 = c.inputs(S2, cfg)
        sf = resolve(c.spec)
        sp = native_outcome(lambda: sf(**args2))
        res["spec"] = describe(sp)
        if real[0] != sp[0]:
            res["reproduced"] = True
        else:
            if real[0] == "raise":
                diff = type(real[1]).__name__ != type(sp[1]).__name__
            else:
                diff = not same(real[1], sp[1])
            if not diff and c.compare_state:
                for k in args1:
                    if hasattr(args1[k], "__dict__") or isinstance(args1[k], (list, dict)):
                        if not same(args1[k], args2[k]):
                            diff = True
                            res["state_differs"] = k
            res["reproduced"] = diff
        return res
    except Exception:
        return {"reproduced": False, "note": "replay harness error: " + traceback.format_exc()[-600:]}


def make_replay(prop, ob, path):
    rep = {"property": prop, "obligation": ob["name"], "function": ob["function"], "config": ob["config"],
           "kind": ob.get("kind"), "detail": ob["detail"], "model": ob.get("model"),
           "solver": "z3: sat (counterexample to the verification condition)" if ob.get("model") else
           "z3: no model"}
    nat = run_native(ob)
    rep["native"] = nat
    rep["reproduced"] = bool(nat.get("reproduced"))
    rep["ob"] = ob
    json.dump(rep, open(path, "w"), indent=1, default=str)
    return rep


def main(argv):
    rep = json.load(open(argv[0]))
    if rep.get("kind") == "bounded":
        from pyvc import bounded
        return bounded.replay(rep)
    if rep.get("kind") == "fuzz":
        from pyvc import fuzz
        nat = fuzz.replay_fuzz(rep)
        print(json.dumps(nat, indent=1, default=str))
        if nat.get("reproduced"):
            print("VIOLATION property=%s replay=%s" % (rep["property"], argv[0]))
            return 1
        print("not reproduced on the current tree")
        return 0
    nat = run_native(rep["ob"])
    print(json.dumps(nat, indent=1, default=str))
    if nat.get("reproduced"):
        print("VIOLATION property=%s replay=%s" % (rep["property"], argv[0]))
        return 1
    print("not reproduced on the current tree")
    return 0


if __name__ == "__main__":
    sys.exit(main(sys.argv[1:]))
