"""Bounded stand-in for C19: KlattGrid and point-object files round-trip every number exactly.

Oracles (never praatIO's code):
  * the property text (open/save/open reproduces hierarchy, spans, times, values; modifyValues /
    modifySubtiers apply f exactly once to every value of the addressed tiers, frame otherwise;
    point objects: same class, span, point list; long and short encodings open to equal objects);
  * the independent readers/writers of the Praat text formats in /verif/spec/klatt.py and
    /verif/spec/pointobj.py (used to say what a file contains, and to attribute a round-trip failure
    to the writer or to the reader).
"""
import copy
import itertools
import json
import multiprocessing
import os
import random
import shutil
import time

import praatio
from praatio import klattgrid as P_klatt
from praatio import data_points as P_points
from praatio.data_classes import klattgrid as P_kclasses
from praatio.data_classes import data_point as P_pclasses

from spec import klatt as SK
from spec import pointobj as SP

ROOT = os.path.dirname(os.path.dirname(os.path.abspath(__file__)))
TMP_BASE = os.path.join(ROOT, "out", "tmp")
REPO = os.path.dirname(os.path.dirname(os.path.abspath(praatio.__file__)))
MAX_PER_CATEGORY = 5


def _reference_path():
    for rel in ("examples/files/bobby.KlattGrid", "tests/files/bobby.KlattGrid"):
        p = os.path.join(REPO, rel)
        if os.path.exists(p):
            return p
    for rel in ("examples/files/bobby.KlattGrid", "tests/files/bobby.KlattGrid"):
        p = os.path.join("/repo", rel)
        if os.path.exists(p):
            return p
    raise IOError("reference KlattGrid (bobby.KlattGrid) not found")


# =========================================================================================
#  common helpers
# =========================================================================================


def _isnum(x):
    return isinstance(x, (int, float)) and not isinstance(x, bool)


def _numeq(a, b):
    """same number (digit for digit == same double); int 5 and float 5.0 are the same number"""
    return _isnum(a) and _isnum(b) and a == b


def _short(x, n=300):
    s = x if isinstance(x, str) else repr(x)
    return s if len(s) <= n else s[: n - 3] + "..."


def _mkworkdir(tag):
    d = os.path.join(TMP_BASE, "b_klatt_points_%s_%d" % (tag, os.getpid()))
    os.makedirs(d, exist_ok=True)
    return d


def _write(path, text):
    # overwrite in place and cut to length: re-creating / truncating-to-zero small files tens of
    # thousands of times is an order of magnitude slower on the scratch file system
    data = text.encode("utf-8")
    fd = os.open(path, os.O_WRONLY | os.O_CREAT, 0o644)
    try:
        os.write(fd, data)
        os.ftruncate(fd, len(data))
    finally:
        os.close(fd)


def _fresh(path):
    """make sure the library's own writer creates a new file"""
    try:
        os.unlink(path)
    except OSError:
        pass
    return path


def _read(path):
    with open(path, "r", encoding="utf-8") as fd:
        return fd.read()


def _merge(acc, viols):
    """keep the MAX_PER_CATEGORY smallest cases per category, at most 2 per symptom ("_sub") so that
    the few reported cases of one cause show its different faces"""
    for v in viols:
        acc.setdefault(v["what"], []).append(v)
    for k in acc:
        L = sorted(acc[k], key=lambda v: (v["_size"], json.dumps(v["case"], sort_keys=True)))
        keep, per = [], {}
        for v in L:
            sub = v.get("_sub", "")
            if per.get(sub, 0) < 2:
                per[sub] = per.get(sub, 0) + 1
                keep.append(v)
        # a symptom never disappears by merging: keep 2 per symptom, cut only the list as a whole
        acc[k] = keep
    return acc


def _cut(acc):
    for k in acc:
        L = acc[k]
        first = [v for i, v in enumerate(L) if not any(w.get("_sub", "") == v.get("_sub", "") for w in L[:i])]
        rest = [v for v in L if v not in first]
        acc[k] = sorted((first + rest)[:MAX_PER_CATEGORY],
                        key=lambda v: (v["_size"], json.dumps(v["case"], sort_keys=True)))
    return acc


def _finish(acc):
    out = []
    _cut(acc)
    for k in sorted(acc):
        for v in acc[k]:
            v = dict(v)
            v.pop("_size", None)
            v.pop("_sub", None)
            out.append(v)
    return out


def _run_chunks(worker, chunks, jobs, tag):
    """-> (ncases, acc of violations); deterministic whatever the scheduling"""
    base = _mkworkdir(tag)
    acc, n = {}, 0
    try:
        args = [(base, i, c) for i, c in enumerate(chunks)]
        if jobs and jobs > 1 and len(args) > 1:
            with multiprocessing.Pool(min(jobs, len(args))) as pool:
                for cnt, viols in pool.imap_unordered(worker, args):
                    n += cnt
                    _merge(acc, viols)
        else:
            for a in args:
                cnt, viols = worker(a)
                n += cnt
                _merge(acc, viols)
    finally:
        shutil.rmtree(base, ignore_errors=True)
    return n, acc


# =========================================================================================
#  KlattGrid
# =========================================================================================

# modification functions of the C19 quantifier
FUNCS = {
    "x*1.1": lambda x: x * 1.1,
    "x/3": lambda x: x / 3,
    "x*0.7": lambda x: x * 0.7,
    "const 5": lambda x: 5,
    "const 0": lambda x: 0,
    "const 0.0": lambda x: 0.0,
    "const 100": lambda x: 100,
    "const 2.5": lambda x: 2.5,
    "const -7": lambda x: -7,
    "-x": lambda x: -x,
    "x*1e-12": lambda x: x * 1e-12,
    "x*1e12": lambda x: x * 1e12,
    "const 1e-12": lambda x: 1e-12,
    "const 1e12": lambda x: 1e12,
    "const 10**12": lambda x: 10 ** 12,
}
FUNC_NAMES = list(FUNCS)

K_DROP = ("KlattGrid reader drops the last character of the last sub-tier of a formant/bandwidth/"
          "amplitude group (its final value loses the last digit, or ValueError when nothing is left)")
K_OPEN_RAISE = "KlattGrid reader: raises on a well-formed file"
K_READ = "KlattGrid reader: %s differs from the file"
K_SAVE_RAISE = "KlattGrid writer: save raises"
K_WRITE = "KlattGrid writer: %s in the saved file differs from the object"
K_WRITE_MALFORMED = "KlattGrid writer: saved file is not a well-formed KlattGrid text and cannot be re-read"
K_MOD_RAISE = "modifyValues/modifySubtiers: raises"
K_MOD_ONCE = "modifyValues/modifySubtiers: function not applied exactly once to every value of the addressed tiers"
K_MOD_TIME = "modifyValues/modifySubtiers: times, point count or span of an addressed tier changed"
K_MOD_FRAME = "modifyValues/modifySubtiers: a tier that was not addressed changed"

SYN_TIMES = ["0", "1e-05", "0.03231250000000002", "0.1", "0.30000000000000004", "0.3333333333333333",
             "0.5", "0.7071067811865476", "1", "1.194625"]
SYN_VALUES = ["0", "5", "7", "100", "60.5", "98.61948118117667", "0.30000000000000004",
              "0.3333333333333333", "1e-05", "1e-12", "1e+15", "2519.3075148880134", "-3.5",
              "123456789012345.6", "1.5e-10", "2.5e+20", "150.25", "123456789.25"]
SYN_SPANS = [("0", "1.194625"), ("0", "2"), ("0", "1.5"), ("0", "1.2000000000000002")]

_REF_CACHE = {}


def _ref_text():
    if "text" not in _REF_CACHE:
        with open(_reference_path(), "r", encoding="utf-8") as fd:
            _REF_CACHE["text"] = fd.read().replace("\r\n", "\n")
        _REF_CACHE["raw"] = SK.parse_klatt(_REF_CACHE["text"], raw=True)
    return _REF_CACHE["text"]


def _ref_raw():
    _ref_text()
    return _REF_CACHE["raw"]


def _coll_size(section, coll, p):
    if coll == "oral_formants_amplitudes":
        return p["oral"]
    if coll == "frication_formants_amplitudes":
        return p["fric"]
    if coll.endswith("_amplitudes"):
        return p["other"]
    if section == "oral_formants":
        return p["oral"]
    if section == "frication_formants":
        return p["fric"]
    return p["other"]


def synth_raw(p):
    """synthetic KlattGrid (raw model, literals as text) = the reference file's section / collection
    skeleton with other formant counts and other points.
    p = {"oral","other","fric": formant counts >= 1, "maxpts": 0.., "span": index, "gseed": int,
         "fill": "all" | "one" | "one-last"}"""
    rng = random.Random(p["gseed"])
    xmin, xmax = SYN_SPANS[p["span"] % len(SYN_SPANS)]

    def pts():
        if p.get("fill", "all") != "all":
            return []
        k = rng.randint(0, p["maxpts"])
        idx = sorted(rng.sample(range(len(SYN_TIMES)), k))
        return [(SYN_TIMES[i], rng.choice(SYN_VALUES)) for i in idx]

    grid = {"xmin": xmin, "xmax": xmax, "sections": []}
    for s in _ref_raw()["sections"]:
        sec = {"name": s["name"], "xmin": xmin, "xmax": xmax, "points": None, "collections": []}
        if s["points"] is not None:
            sec["points"] = pts()
        for c in s["collections"]:
            n = _coll_size(s["name"], c["name"], p)
            sec["collections"].append({"name": c["name"], "items": [
                {"xmin": xmin, "xmax": xmax, "points": pts()} for _ in range(n)]})
        grid["sections"].append(sec)
    if p.get("fill") in ("one", "one-last"):
        # exactly one point: in the last formant (a group followed by another group), resp. in the
        # last bandwidth (the last sub-tier of the section) of the oral formants
        ci = 0 if p["fill"] == "one" else -1
        for s in grid["sections"]:
            if s["name"] == "oral_formants":
                s["collections"][ci]["items"][-1]["points"] = [
                    ("0.5", SYN_VALUES[p["gseed"] % len(SYN_VALUES)])]
    return grid


def _source(case):
    """-> (text of the input file, raw model of it)"""
    src = case["src"]
    if src == "reference":
        raw = _ref_raw()
        if case.get("eol") is None:
            return _ref_text(), raw
    else:
        raw = synth_raw(src["synthetic"])
    return SK.render_klatt(raw, eol=case.get("eol") if case.get("eol") is not None else " "), raw


def tree_from_model(m):
    """what the file says, in the library's three-level vocabulary: a section followed by
    collections is a container of groups of sub-tiers, any other section is a point tier"""
    tiers = []
    for s in m["sections"]:
        if s["collections"]:
            groups = []
            for c in s["collections"]:
                subs = [{"name": "%s [%d]" % (c["name"], k + 1), "xmin": it["xmin"], "xmax": it["xmax"],
                         "points": list(it["points"])} for k, it in enumerate(c["items"])]
                groups.append({"name": c["name"], "xmin": min(x["xmin"] for x in subs),
                               "xmax": max(x["xmax"] for x in subs), "subs": subs})
            tiers.append({"name": s["name"], "kind": "container", "xmin": s["xmin"], "xmax": s["xmax"],
                          "groups": groups})
        else:
            tiers.append({"name": s["name"], "kind": "point", "xmin": s["xmin"], "xmax": s["xmax"],
                          "points": list(s["points"] or [])})
    return {"xmin": m["xmin"], "xmax": m["xmax"], "tiers": tiers}


def tree_from_kg(kg):
    tiers = []
    for name in kg.tierNames:
        t = kg.getTier(name)
        if isinstance(t, P_kclasses.KlattContainerTier):
            groups = []
            for gname in t.tierNameList:
                g = t.tierDict[gname]
                subs = []
                for sname in g.tierNameList:
                    st = g.tierDict[sname]
                    subs.append({"name": st.name, "xmin": st.minTimestamp, "xmax": st.maxTimestamp,
                                 "points": [tuple(e) for e in st.entries],
                                 "cls": type(st).__name__})
                groups.append({"name": g.name, "xmin": g.minTimestamp, "xmax": g.maxTimestamp,
                               "subs": subs, "cls": type(g).__name__})
            tiers.append({"name": t.name, "kind": "container", "xmin": t.minTimestamp,
                          "xmax": t.maxTimestamp, "groups": groups})
        elif isinstance(t, P_kclasses.KlattPointTier) and not isinstance(t, P_kclasses.KlattSubPointTier):
            tiers.append({"name": t.name, "kind": "point", "xmin": t.minTimestamp, "xmax": t.maxTimestamp,
                          "points": [tuple(e) for e in t.entries]})
        else:
            tiers.append({"name": getattr(t, "name", name), "kind": type(t).__name__})
    return {"xmin": kg.minTimestamp, "xmax": kg.maxTimestamp, "tiers": tiers}


def diff_trees(exp, obs):
    """-> list of (path, field, index, expected, observed); field in hierarchy/span/point count/point time/point value"""
    out = []

    def span(path, e, o):
        for k in ("xmin", "xmax"):
            if not _numeq(e[k], o.get(k)):
                out.append((path, "span", k, e[k], o.get(k)))

    def points(path, e, o):
        if len(e) != len(o):
            out.append((path, "point count", None, len(e), len(o)))
            return
        for i, (pe, po) in enumerate(zip(e, o)):
            if len(po) != 2:
                out.append((path, "point value", i, pe, po))
                continue
            if not _numeq(pe[0], po[0]):
                out.append((path, "point time", i, pe[0], po[0]))
            if not _numeq(pe[1], po[1]):
                out.append((path, "point value", i, pe[1], po[1]))

    span((), exp, obs)
    en = [(t["name"], t["kind"]) for t in exp["tiers"]]
    on = [(t["name"], t["kind"]) for t in obs["tiers"]]
    if en != on:
        out.append(((), "tier hierarchy", None, en, on))
        return out
    for te, to in zip(exp["tiers"], obs["tiers"]):
        path = (te["name"],)
        span(path, te, to)
        if te["kind"] == "point":
            points(path, te["points"], to["points"])
            continue
        en = [g["name"] for g in te["groups"]]
        on = [g["name"] for g in to["groups"]]
        if en != on:
            out.append((path, "tier hierarchy", None, en, on))
            continue
        for ge, go in zip(te["groups"], to["groups"]):
            gpath = path + (ge["name"],)
            if go.get("cls", "KlattIntermediateTier") != "KlattIntermediateTier":
                out.append((gpath, "tier hierarchy", None, "KlattIntermediateTier", go.get("cls")))
            span(gpath, ge, go)
            en = [s["name"] for s in ge["subs"]]
            on = [s["name"] for s in go["subs"]]
            if en != on:
                out.append((gpath, "tier hierarchy", None, en, on))
                continue
            for se, so in zip(ge["subs"], go["subs"]):
                spath = gpath + (se["name"],)
                if so.get("cls", "KlattSubPointTier") != "KlattSubPointTier":
                    out.append((spath, "tier hierarchy", None, "KlattSubPointTier", so.get("cls")))
                span(spath, se, so)
                points(spath, se["points"], so["points"])
    return out


def _leaves(tree):
    """path -> leaf dict (mutable)"""
    out = {}
    for t in tree["tiers"]:
        if t["kind"] == "point":
            out[(t["name"],)] = t
        else:
            for g in t["groups"]:
                for s in g["subs"]:
                    out[(t["name"], g["name"], s["name"])] = s
    return out


def _group_final_literals(raw):
    """path of the last sub-tier of every group -> (literal of its last value or None when it has no
    point, True when the group is the last one of its section)"""
    out = {}
    for s in raw["sections"]:
        for ci, c in enumerate(s["collections"]):
            if c["items"]:
                it = c["items"][-1]
                out[(s["name"], c["name"], "%s [%d]" % (c["name"], len(c["items"])))] = (
                    it["points"][-1][1] if it["points"] else None, ci == len(s["collections"]) - 1)
    return out


def _exposed(lit, last_in_section, lines):
    """the character that precedes the slicing offset is the literal's last character: always at the
    end of a section (the section text is stripped first), elsewhere only when no blank follows the
    literal in the file"""
    return last_in_section or any(ln.endswith("value = " + lit) for ln in lines)


def _drop_explains_diffs(diffs, text, raw, exp_tree):
    """every difference is: last value of the last sub-tier of a group == the written literal minus
    its last character"""
    if raw is None or not diffs:
        return False
    lits = _group_final_literals(raw)
    leaves = _leaves(exp_tree)
    lines = text.split("\n")
    for path, field, idx, e, o in diffs:
        if field != "point value" or path not in lits or lits[path][0] is None:
            return False
        if idx != len(leaves[path]["points"]) - 1:
            return False
        lit, last = lits[path]
        if not _exposed(lit, last, lines):
            return False
        try:
            cut = float(lit[:-1])
        except ValueError:
            return False
        if not _numeq(cut, o):
            return False
    return True


def _drop_explains_error(exc, text, raw):
    if raw is None or not isinstance(exc, ValueError):
        return False
    lines = text.split("\n")
    for path, (lit, last) in _group_final_literals(raw).items():
        if lit is None or not _exposed(lit, last, lines):
            continue
        try:
            float(lit[:-1])
        except ValueError:
            return True
    return False


def _fmt_diff(d):
    path, field, idx, e, o = d
    where = "/".join(path) if path else "<grid>"
    if idx is not None:
        where += " [%s]" % (idx + 1 if isinstance(idx, int) else idx)
    return where, field, e, o


def _viol(what, case, size, expected, observed, sub=""):
    return {"what": what, "case": case, "expected": _short(expected), "observed": _short(observed),
            "_size": size, "_sub": sub or case.get("cls", "")}


def _check_reader(text, exp_tree, raw, path, case, size, stage):
    """open `path` (whose content is `text`, which the spec reads as raw / exp_tree).
    -> (kg or None, violations)"""
    try:
        kg = P_klatt.openKlattgrid(path)
    except Exception as exc:  # noqa
        if _drop_explains_error(exc, text, raw):
            lits = [l for l, _ in _group_final_literals(raw).values() if l is not None]
            return None, [_viol(K_DROP, case, size,
                                "%s: file opens; group-final value literals %s" % (stage, _short(lits, 80)),
                                "%s: %s" % (type(exc).__name__, exc), sub=stage + " raises")]
        return None, [_viol(K_OPEN_RAISE, case, size, "%s: file opens" % stage,
                            "%s: %s" % (type(exc).__name__, exc))]
    obs = tree_from_kg(kg)
    diffs = diff_trees(exp_tree, obs)
    if not diffs:
        return kg, []
    where, field, e, o = _fmt_diff(diffs[0])
    if _drop_explains_diffs(diffs, text, raw, exp_tree):
        what = K_DROP
    else:
        what = K_READ % field
    return kg, [_viol(what, case, size, "%s: %s %s = %r" % (stage, where, field, e),
                      "%r (%d difference(s))" % (o, len(diffs)), sub=stage + " differs")]


def _units_of(raw):
    """addressable units, grouped so that one pick per slot is always disjoint"""
    slots = []
    for s in raw["sections"]:
        if s["collections"]:
            for c in s["collections"]:
                opts = [["group", s["name"], c["name"]]]
                for k in range(len(c["items"])):
                    opts.append(["sub", s["name"], c["name"], "%s [%d]" % (c["name"], k + 1)])
                slots.append(opts)
        elif s["points"] is not None:
            slots.append([["tier", s["name"]]])
    return slots


def _addressed_paths(unit, tree):
    leaves = _leaves(tree)
    if unit[0] == "tier":
        return [(unit[1],)]
    if unit[0] == "group":
        return [p for p in leaves if len(p) == 3 and p[0] == unit[1] and p[1] == unit[2]]
    return [(unit[1], unit[2], unit[3])]


def _tree_numbers_ok(tree):
    """the object tree has the expected shape (so that it can serve as the baseline of the next step)"""
    try:
        for leaf in _leaves(tree).values():
            for p in leaf["points"]:
                if len(p) != 2 or not _isnum(p[0]) or not _isnum(p[1]):
                    return False
        return True
    except Exception:  # noqa
        return False


def run_klatt_case(case, workdir):
    viols = _run_klatt_case(case, workdir)
    seen, out = set(), []
    for v in viols:  # one report per category and case
        if v["what"] not in seen:
            seen.add(v["what"])
            out.append(v)
    return out


def _run_klatt_case(case, workdir):
    text, raw = _source(case)
    size = (len(text), len(case.get("mods", [])))
    exp = tree_from_model(SK.to_values(raw))
    fin = os.path.join(workdir, "in.KlattGrid")
    fout = os.path.join(workdir, "out.KlattGrid")
    _write(fin, text)

    # 1. open: the object is what the file says
    kg, viols = _check_reader(text, exp, raw, fin, case, size, "open")
    if kg is None:
        return viols
    if viols:
        # the later clauses are relative to the object as opened: go on from what was read, provided
        # the hierarchy is intact
        base = tree_from_kg(kg)
        if any(d[1] in ("tier hierarchy", "point count") for d in diff_trees(exp, base)) or not _tree_numbers_ok(base):
            return viols
        for t in base["tiers"]:
            for g in t.get("groups", []):
                g.pop("cls", None)
                for st in g["subs"]:
                    st.pop("cls", None)
        exp = base

    # 2. modifications: exactly once on the addressed tiers, frame elsewhere
    mods = case.get("mods", [])
    exp_after = copy.deepcopy(exp)
    leaves_after = _leaves(exp_after)
    addressed = set()
    for mod in mods:
        f = FUNCS[mod["f"]]
        rec = []

        def g(x, f=f, rec=rec):
            rec.append(x)
            return f(x)

        unit = mod["unit"]
        paths = _addressed_paths(unit, exp)
        want_args = []
        for p in paths:
            addressed.add(p)
            leaf = leaves_after[p]
            want_args += [float(v) for _, v in leaf["points"]]
            leaf["points"] = [(t, f(float(v))) for t, v in leaf["points"]]
        try:
            if unit[0] == "tier":
                kg.getTier(unit[1]).modifyValues(g)
            elif unit[0] == "group":
                kg.getTier(unit[1]).modifySubtiers(unit[2], g)
            else:
                kg.getTier(unit[1]).tierDict[unit[2]].tierDict[unit[3]].modifyValues(g)
        except Exception as exc:  # noqa
            return viols + [_viol(K_MOD_RAISE, case, size, "modification %s applies" % json.dumps(mod),
                                  "%s: %s" % (type(exc).__name__, exc))]
        ok = all(_isnum(a) for a in rec) and sorted(rec) == sorted(want_args)
        if not ok:
            return viols + [_viol(K_MOD_ONCE, case, size,
                                  "%s called once per value of %s: %d calls with the tier values"
                                  % (mod["f"], "/".join(unit[1:]), len(want_args)),
                                  "%d calls, args %s" % (len(rec), _short(rec, 120)))]
    if mods:
        diffs = diff_trees(exp_after, tree_from_kg(kg))
        if diffs:
            path = diffs[0][0]
            where, field, e, o = _fmt_diff(diffs[0])
            if path not in addressed:
                what = K_MOD_FRAME
            elif field == "point value":
                what = K_MOD_ONCE
            else:
                what = K_MOD_TIME
            return viols + [_viol(what, case, size, "after modification: %s %s = %r" % (where, field, e),
                                  "%r (%d difference(s))" % (o, len(diffs)))]

    # 3. save, then look at the file with the independent reader (to attribute blame)
    try:
        kg.save(_fresh(fout))
        text2 = _read(fout)
    except Exception as exc:  # noqa
        return viols + [_viol(K_SAVE_RAISE, case, size, "save succeeds", "%s: %s" % (type(exc).__name__, exc))]
    raw2, wdiffs, werr = None, None, None
    try:
        raw2 = SK.parse_klatt(text2, raw=True)
        wdiffs = diff_trees(exp_after, tree_from_model(SK.to_values(raw2)))
    except Exception as exc:  # noqa
        werr = "%s: %s" % (type(exc).__name__, exc)

    # 4. re-open: every number is reproduced
    if raw2 is not None and not wdiffs:
        _, v2 = _check_reader(text2, exp_after, raw2, fout, case, size, "open after save")
        return viols + v2
    # the saved text is not what the format says the object is: the property fails only if
    # the library's own reader does not get the object back
    wdesc = werr or _short(_fmt_diff(wdiffs[0]), 160)
    what = K_WRITE_MALFORMED if raw2 is None else K_WRITE % _fmt_diff(wdiffs[0])[1]
    try:
        kg2 = P_klatt.openKlattgrid(fout)
        rdiffs = diff_trees(exp_after, tree_from_kg(kg2))
    except Exception as exc:  # noqa
        return viols + [_viol(what, case, size, "saved file re-opens to the same object",
                              "re-open raises %s: %s; independent reader of the saved file: %s"
                              % (type(exc).__name__, exc, wdesc))]
    if not rdiffs:
        return viols
    where, field, e, o = _fmt_diff(rdiffs[0])
    return viols + [_viol(what, case, size, "after save and open: %s %s = %r" % (where, field, e),
                          "%r; independent reader of the saved file: %s" % (o, wdesc))]


def _pick_mods(rng, raw, nmax, funcs=None):
    slots = _units_of(raw)
    k = rng.randint(1, min(nmax, len(slots)))
    mods = []
    for i in sorted(rng.sample(range(len(slots)), k)):
        mods.append({"unit": rng.choice(slots[i]), "f": rng.choice(funcs or FUNC_NAMES)})
    return mods


def _klatt_cases(tier, seed):
    rng = random.Random(seed)
    cases = []
    # --- reference file
    ref = _ref_raw()
    cases.append({"kind": "klatt", "src": "reference", "eol": None, "mods": []})
    cases.append({"kind": "klatt", "src": "reference", "eol": "", "mods": []})
    slots = _units_of(ref)
    whole = [s[0] for s in slots]  # every top-level tier and every whole group
    nrand = 2 if tier == "quick" else 20
    for fname in FUNC_NAMES:
        cases.append({"kind": "klatt", "src": "reference", "eol": None,
                      "mods": [{"unit": u, "f": fname} for u in whole]})
        cases.append({"kind": "klatt", "src": "reference", "eol": None,
                      "mods": [{"unit": ["group", "oral_formants", "formants"], "f": fname}]})
        cases.append({"kind": "klatt", "src": "reference", "eol": None,
                      "mods": [{"unit": ["tier", "pitch"], "f": fname}]})
        for _ in range(nrand):
            cases.append({"kind": "klatt", "src": "reference", "eol": None,
                          "mods": _pick_mods(rng, ref, 6, [fname])})
    for _ in range(6 if tier == "quick" else 40):
        cases.append({"kind": "klatt", "src": "reference", "eol": None, "mods": _pick_mods(rng, ref, 8)})
    # --- synthetic grids
    for g in range(len(SYN_VALUES)):  # minimal: a single point
        for fill in ("one", "one-last"):
            p = {"oral": 1, "other": 1, "fric": 1, "maxpts": 0, "span": 0, "gseed": g, "fill": fill}
            cases.append({"kind": "klatt", "src": {"synthetic": p}, "eol": " ", "mods": []})
            cases.append({"kind": "klatt", "src": {"synthetic": p}, "eol": "", "mods": []})
    for fname in FUNC_NAMES:
        p = {"oral": 1, "other": 1, "fric": 1, "maxpts": 0, "span": 0, "gseed": 3, "fill": "one"}
        cases.append({"kind": "klatt", "src": {"synthetic": p}, "eol": " ",
                      "mods": [{"unit": ["group", "oral_formants", "formants"], "f": fname}]})
    nsyn = 150 if tier == "quick" else 8000
    orals = [1, 2, 3, 4, 5, 6, 7, 10, 12]
    for i in range(nsyn):
        p = {"oral": orals[i % len(orals)], "other": rng.choice([1, 1, 2, 3]), "fric": rng.choice([1, 2, 5, 6, 11]),
             "maxpts": rng.choice([0, 1, 2, 3, 4, 6]), "span": rng.randrange(len(SYN_SPANS)),
             "gseed": rng.randrange(10 ** 6), "fill": "all"}
        raw = synth_raw(p)
        src = {"synthetic": p}
        cases.append({"kind": "klatt", "src": src, "eol": " ", "mods": []})
        cases.append({"kind": "klatt", "src": src, "eol": "", "mods": []})
        for _ in range(2 if tier == "quick" else 4):
            cases.append({"kind": "klatt", "src": src, "eol": " ", "mods": _pick_mods(rng, raw, 8)})
    return cases


def _klatt_worker(arg):
    base, idx, chunk = arg
    wd = os.path.join(base, "w%d" % os.getpid())
    os.makedirs(wd, exist_ok=True)
    acc = {}
    for case in chunk:
        _merge(acc, run_klatt_case(case, wd))
    return len(chunk), [v for L in acc.values() for v in L]


def _spec_selfcheck_klatt():
    """the independent reader/writer must be each other's inverse on the reference file"""
    text = _ref_text()
    if SK.render_klatt(_ref_raw()) != text:
        raise AssertionError("spec/klatt.py: render(parse(reference)) != reference text")
    p = {"oral": 12, "other": 2, "fric": 3, "maxpts": 4, "span": 1, "gseed": 7, "fill": "all"}
    raw = synth_raw(p)
    for eol in (" ", ""):
        if SK.parse_klatt(SK.render_klatt(raw, eol), raw=True) != raw:
            raise AssertionError("spec/klatt.py: parse(render(m)) != m")


def c19_klatt_roundtrip(tier, seed, jobs):
    t0 = time.time()
    _spec_selfcheck_klatt()
    cases = _klatt_cases(tier, seed)
    # interleave heavy (reference) and light cases over the chunks
    nchunks = max(1, min(len(cases), (jobs or 1) * 4))
    chunks = [cases[i::nchunks] for i in range(nchunks)]
    n, acc = _run_chunks(_klatt_worker, chunks, jobs, "klatt")
    nref = sum(1 for c in cases if c["src"] == "reference")
    distinct = len({json.dumps(c, sort_keys=True) for c in cases})
    report = {
        "what": "C19 KlattGrid clause: open == file content (independent reader spec/klatt.py); modifyValues/"
                "modifySubtiers apply f exactly once per value of the addressed tiers, times and all other tiers "
                "untouched; save then open reproduces hierarchy, spans, times and values as identical doubles",
        "bound": "reference %s (as is and without trailing blanks) x %d modification functions (%s) x "
                 "{all tiers and groups, oral formants group, pitch tier, %s seeded subsets of tiers/groups/single "
                 "sub-tiers}; %d synthetic grids (reference skeleton, oral formants in 1..12, frication 1..11, others "
                 "1..3, 0..6 points per tier, times from %d literals, values from %d literals incl. integers, "
                 "17-digit decimals, exponent forms; 4 spans) x {Praat layout, no trailing blanks, seeded "
                 "modification subsets}; seed %d"
                 % (os.path.relpath(_reference_path(), REPO), len(FUNC_NAMES), ", ".join(FUNC_NAMES),
                    "2" if tier == "quick" else "20", sum(1 for c in cases if c["src"] != "reference"),
                    len(SYN_TIMES), len(SYN_VALUES), seed),
        "cases": n, "distinct": distinct, "exhaustive": False,
        "wall_s": round(time.time() - t0, 2),
        "samples": [cases[0], cases[3], cases[nref + 1]],
    }
    return {"report": report, "violations": _finish(acc)}


# =========================================================================================
#  Point objects
# =========================================================================================

# times (as written in the file), increasing
PT_TIMES = ["0", "1e-05", "0.30000000000000004", "0.3333333333333333", "1", "2.5", "1000000", "1e+15"]
PT_VALUES_QUICK = ["0", "100", "0.30000000000000004", "1e-05"]
PT_VALUES_THOROUGH = ["0", "100", "0.30000000000000004", "1e-05", "-3.5", "1e+15", "0.3333333333333333",
                      "1.5e-10", "104.93004632536243"]
# spans; only the times inside the span are used with it
PT_SPANS = [("0", "1e+15"), ("0", "2.5"), ("0.30000000000000004", "1000000.5"), ("0", "1"),
            ("1e-05", "0.3333333333333333")]
PT_MAXLEN = 4

P_EMPTY_LONG = "point-object reader (long form): a PitchTier/DurationTier file with 0 points cannot be opened"
P_OPEN_RAISE = "point-object reader (%s form): raises on a well-formed file"
P_READ = "point-object reader (%s form): %s differs from the file"
P_EQ = "point objects: long and short encodings of the same data do not open to equal objects"
P_CONSTRUCT = "point-object constructor: raises on valid data"
P_SAVE_RAISE = "point-object writer: save raises"
P_WRITE = "point-object writer: %s in the saved file differs from the object"
P_WRITE_MALFORMED = "point-object writer: saved file is not a well-formed Praat text file and cannot be re-read"


def _pnum(lit):
    """python number for a literal: integer literals as int, the others as float"""
    try:
        return int(lit)
    except ValueError:
        return float(lit)


def _cmp_pointobj(obj, exp):
    """-> None or (field, expected, observed)"""
    dim = 1 if exp["class"] in SP.CLASSES_1D else 2
    want_type = P_pclasses.PointObject1D if dim == 1 else P_pclasses.PointObject2D
    if type(obj) is not want_type:
        return ("class", want_type.__name__, type(obj).__name__)
    if obj.objectClass != exp["class"]:
        return ("class", exp["class"], obj.objectClass)
    if not _numeq(obj.minTime, exp["xmin"]) or not _numeq(obj.maxTime, exp["xmax"]):
        return ("span", (exp["xmin"], exp["xmax"]), (obj.minTime, obj.maxTime))
    pl = list(obj.pointList)
    if len(pl) != len(exp["points"]):
        return ("point count", len(exp["points"]), len(pl))
    for i, (pe, po) in enumerate(zip(exp["points"], pl)):
        if not isinstance(po, tuple) or len(po) != dim:
            return ("point list", pe, po)
        if not _numeq(pe[0], po[0]):
            return ("point time", "point %d: %r" % (i + 1, pe[0]), repr(po[0]))
        if dim == 2 and not _numeq(pe[1], po[1]):
            return ("point value", "point %d: %r" % (i + 1, pe[1]), repr(po[1]))
    return None


def _open_point(path, cls):
    if cls in SP.CLASSES_1D:
        return P_points.open1DPointObject(path)
    return P_points.open2DPointObject(path)


def run_points_case(case, workdir):
    seen, out = set(), []
    for v in _run_points_case(case, workdir):  # one report per category and case
        if v["what"] not in seen:
            seen.add(v["what"])
            out.append(v)
    return out


def _run_points_case(case, workdir):
    cls = case["cls"]
    dim = 1 if cls in SP.CLASSES_1D else 2
    model = {"class": cls, "xmin": case["xmin"], "xmax": case["xmax"],
             "points": [tuple(p) for p in case["points"]]}
    exp = {"class": cls, "xmin": float(case["xmin"]), "xmax": float(case["xmax"]),
           "points": [tuple(float(x) for x in p) for p in case["points"]]}
    size = (len(case["points"]), sum(len(x) for p in case["points"] for x in p)
            + len(case["xmin"]) + len(case["xmax"]))
    viols = []
    path = os.path.join(workdir, "p." + cls)

    # 1. files written by the independent writer open to what they say
    opened = {}
    for form, eol in (("long", " "), ("long", ""), ("short", " ")):
        text = SP.render(model, form, eol)
        _write(path, text)
        try:
            obj = _open_point(path, cls)
        except Exception as exc:  # noqa
            if form == "long" and dim == 2 and not case["points"]:
                what = P_EMPTY_LONG
            else:
                what = P_OPEN_RAISE % form
            viols.append(_viol(what, case, size, "%s-form file opens" % form,
                               "%s: %s" % (type(exc).__name__, exc)))
            continue
        d = _cmp_pointobj(obj, exp)
        if d:
            viols.append(_viol(P_READ % (form, d[0]), case, size, "%s form: %s = %s" % (form, d[0], d[1]), d[2]))
        opened[(form, eol)] = obj
    # 2. long and short encodings open to equal objects
    if ("long", " ") in opened and ("short", " ") in opened and not viols:
        a, b = opened[("long", " ")], opened[("short", " ")]
        if not (a == b) or not (b == a) or not (opened[("long", "")] == b):
            viols.append(_viol(P_EQ, case, size, "open(long) == open(short)", "== is False"))
    if any(v["what"].startswith("point-object reader (short") for v in viols):
        return viols

    # 3. construct, save (the API writes the short form only), re-open
    pts = [tuple(_pnum(x) for x in p) for p in case["points"]]
    try:
        if dim == 1:
            obj = P_pclasses.PointObject1D(pts, cls, _pnum(case["xmin"]), _pnum(case["xmax"]))
        else:
            obj = P_pclasses.PointObject2D(pts, cls, _pnum(case["xmin"]), _pnum(case["xmax"]))
    except Exception as exc:  # noqa
        viols.append(_viol(P_CONSTRUCT, case, size, "object is built", "%s: %s" % (type(exc).__name__, exc)))
        return viols
    d = _cmp_pointobj(obj, exp)
    if d:
        viols.append(_viol("point-object constructor: %s differs from the arguments" % d[0], case, size, d[1], d[2]))
        return viols
    try:
        path = _fresh(os.path.join(workdir, "s." + cls))
        obj.save(path)
        text2 = _read(path)
    except Exception as exc:  # noqa
        viols.append(_viol(P_SAVE_RAISE, case, size, "save succeeds", "%s: %s" % (type(exc).__name__, exc)))
        return viols
    wd, werr = None, None
    try:
        m2, _form = SP.parse(text2)
        wd = _cmp_model(m2, exp)
    except Exception as exc:  # noqa
        werr = "%s: %s" % (type(exc).__name__, exc)
    try:
        obj2 = _open_point(path, cls)
        rd = _cmp_pointobj(obj2, exp)
        rerr = None
    except Exception as exc:  # noqa
        rd, rerr = None, "%s: %s" % (type(exc).__name__, exc)
    if rerr is None and rd is None:
        if not (obj2 == obj):
            viols.append(_viol("point objects: saved and re-opened object is not == the original", case, size,
                               "open(save(o)) == o", "== is False"))
        return viols
    if werr is None and wd is None:  # the file is right: the reader is to blame
        if rerr is not None:
            viols.append(_viol(P_OPEN_RAISE % "short", case, size, "saved file opens", rerr))
        else:
            viols.append(_viol(P_READ % ("short", rd[0]), case, size, "after save: %s = %s" % (rd[0], rd[1]), rd[2]))
    else:
        what = P_WRITE_MALFORMED if werr is not None else P_WRITE % wd[0]
        viols.append(_viol(what, case, size, "saved file re-opens to the same object",
                           "re-open: %s; independent reader of the saved file: %s"
                           % (rerr or _short(rd, 120), werr or _short(wd, 120))))
    return viols


def _cmp_model(m, exp):
    if m["class"] != exp["class"]:
        return ("class", exp["class"], m["class"])
    if m["xmin"] != exp["xmin"] or m["xmax"] != exp["xmax"]:
        return ("span", (exp["xmin"], exp["xmax"]), (m["xmin"], m["xmax"]))
    if len(m["points"]) != len(exp["points"]):
        return ("point count", len(exp["points"]), len(m["points"]))
    for i, (pe, po) in enumerate(zip(exp["points"], m["points"])):
        if pe[0] != po[0]:
            return ("point time", "point %d: %r" % (i + 1, pe[0]), repr(po[0]))
        if len(pe) == 2 and pe[1] != po[1]:
            return ("point value", "point %d: %r" % (i + 1, pe[1]), repr(po[1]))
    return None


def _points_chunks(tier):
    """chunk = (class, span, tuple of times, value set)"""
    values = PT_VALUES_QUICK if tier == "quick" else PT_VALUES_THOROUGH
    chunks = []
    for cls in ("PointProcess", "PitchTier", "DurationTier"):
        for xmin, xmax in PT_SPANS:
            inside = [t for t in PT_TIMES if float(xmin) <= float(t) <= float(xmax)]
            for k in range(0, PT_MAXLEN + 1):
                for times in itertools.combinations(inside, k):
                    chunks.append((cls, xmin, xmax, times, values))
    return chunks


def _expand_chunk(chunk):
    cls, xmin, xmax, times, values = chunk
    if cls in SP.CLASSES_1D:
        yield {"kind": "points", "cls": cls, "xmin": xmin, "xmax": xmax, "points": [[t] for t in times]}
        return
    for vs in itertools.product(values, repeat=len(times)):
        yield {"kind": "points", "cls": cls, "xmin": xmin, "xmax": xmax,
               "points": [[t, v] for t, v in zip(times, vs)]}


def _points_worker(arg):
    base, idx, chunklist = arg
    wd = os.path.join(base, "w%d" % os.getpid())
    os.makedirs(wd, exist_ok=True)
    acc, n = {}, 0
    for chunk in chunklist:
        for case in _expand_chunk(chunk):
            n += 1
            v = run_points_case(case, wd)
            if v:
                _merge(acc, v)
    return n, [v for L in acc.values() for v in L]


def _spec_selfcheck_points():
    for cls in ("PointProcess", "PitchTier", "DurationTier"):
        dim = 1 if cls in SP.CLASSES_1D else 2
        for pts in ([], [("0.1", "5")[:dim]], [("0.1", "5")[:dim], ("1e-05", "1e+15")[:dim]]):
            m = {"class": cls, "xmin": "0", "xmax": "2.5", "points": pts}
            want = {"class": cls, "xmin": 0.0, "xmax": 2.5, "points": [tuple(float(x) for x in p) for p in pts]}
            for form, eol in (("long", " "), ("long", ""), ("short", " ")):
                got, f = SP.parse(SP.render(m, form, eol))
                if got != want or f != form:
                    raise AssertionError("spec/pointobj.py: parse(render(m)) != m for %s %s" % (cls, form))
    # the example files shipped with praatIO (written by Praat) are read alike in both forms
    pairs = [("mary.PitchTier", "mary_longfile.PitchTier"), ("bobby.PointProcess", "bobby_longfile.PointProcess")]
    for a, b in pairs:
        pa, pb = (os.path.join(REPO, "examples", "files", x) for x in (a, b))
        if os.path.exists(pa) and os.path.exists(pb):
            ma, fa = SP.parse(_read(pa))
            mb, fb = SP.parse(_read(pb))
            if (fa, fb) != ("short", "long") or ma != mb:
                raise AssertionError("spec/pointobj.py disagrees on the example files %s / %s" % (a, b))


def c19_points_roundtrip(tier, seed, jobs):
    t0 = time.time()
    _spec_selfcheck_points()
    chunks = _points_chunks(tier)
    # heavy chunks (4 points) first, spread round-robin
    chunks.sort(key=lambda c: -len(c[3]))
    nlists = max(1, min(len(chunks), (jobs or 1) * 8))
    lists = [chunks[i::nlists] for i in range(nlists)]
    n, acc = _run_chunks(_points_worker, lists, jobs, "points")
    values = PT_VALUES_QUICK if tier == "quick" else PT_VALUES_THOROUGH
    samples = [next(_expand_chunk(("PointProcess", "0", "2.5", ("0", "1e-05", "1"), values))),
               next(_expand_chunk(("PitchTier", "0", "1e+15", ("0.30000000000000004", "1e+15"), values))),
               next(_expand_chunk(("DurationTier", "0", "1", (), values)))]
    report = {
        "what": "C19 point-object clause: files written by the independent writer (spec/pointobj.py, Praat long and "
                "short text forms) open to the class, span and point list they state; long and short encodings open "
                "to == objects; constructing, saving (the API writes the short form) and opening reproduces class, "
                "span and every number as an identical double",
        "bound": "classes PointProcess, PitchTier, DurationTier x spans %s x all strictly increasing time lists of "
                 "length 0..%d over the times %s lying inside the span x (2D classes) all value assignments over %s; "
                 "each case in long form with and without trailing blanks, short form, and through save()"
                 % (PT_SPANS, PT_MAXLEN, PT_TIMES, values),
        "cases": n, "distinct": n, "exhaustive": True,
        "wall_s": round(time.time() - t0, 2),
        "samples": samples,
    }
    return {"report": report, "violations": _finish(acc)}


# =========================================================================================

CHECKS = {
    "c19_klatt_roundtrip": c19_klatt_roundtrip,
    "c19_points_roundtrip": c19_points_roundtrip,
}


def replay(case):
    wd = _mkworkdir("replay")
    try:
        if case.get("kind") == "klatt":
            viols = run_klatt_case(case, wd)
        elif case.get("kind") == "points":
            viols = run_points_case(case, wd)
        else:
            return {"reproduced": False, "observed": "unknown case kind %r" % case.get("kind")}
    finally:
        shutil.rmtree(wd, ignore_errors=True)
    if not viols:
        return {"reproduced": False, "observed": "no violation"}
    return {"reproduced": True,
            "observed": "; ".join("%s -- expected %s, observed %s" % (v["what"], v["expected"], v["observed"])
                                  for v in viols)}


if __name__ == "__main__":
    import sys
    tier = sys.argv[1] if len(sys.argv) > 1 else "quick"
    for name, fn in CHECKS.items():
        r = fn(tier, 0, 16)
        rep = r["report"]
        print(name, "cases", rep["cases"], "wall", rep["wall_s"], "exhaustive", rep["exhaustive"])
        cats = {}
        for v in r["violations"]:
            cats.setdefault(v["what"], []).append(v)
        for k, L in cats.items():
            print("  [%d] %s" % (len(L), k))
            print("       case:", json.dumps(L[0]["case"]))
            print("       expected:", L[0]["expected"])
            print("       observed:", L[0]["observed"])
