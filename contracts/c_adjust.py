"""Sidecar contracts for the boundary adjusters of C14: dejitter.

The reference tier is represented by an object with just a `timestamps` attribute (spec.harness.Ref): dejitter uses
nothing else of it.  That `TextgridTier.timestamps` is the strictly sorted set of a tier's boundary times is proved
separately (contracts/c_queries.py), which is exactly what `ref()` assumes of the list."""
from pyvc.contracts import contract
from contracts.c_tiers import wf_interval_tier, wf_point_tier, wf_interval_clauses, IT, PT


def ref(S):
    ts = S.list("ref.timestamps", "real", pair="a < b")
    return S.obj("spec.harness.Ref", timestamps=ts)


# min(referenceTimestamps, key=...) inside the loop body: iteration skolem W(j) (pyvc/core.py sk_install)
contract(PT + ".dejitter", serves=["C14", "C05", "C13"], spec_module="spec.adjust",
         inputs=lambda S, cfg: dict(self=wf_point_tier(S, "self"), referenceTier=ref(S),
                                    maxDifference=S.real("maxDifference")),
         requires=["0 < maxDifference", "maxDifference <= 1e15"],
         spec="spec.adjust.PointTier_dejitter", frame=["self"],
         ensures=[("count", "len(result.entries) == len(self.entries)"),
                  # the adjusted times are still in time order: the constructor's sort can at most re-order points
                  # that now coincide
                  ("order", "is_sorted([snap(referenceTier.timestamps, p.time, maxDifference) for p in self.entries])")])


# ---- IntervalTier.dejitter and morph: the refinement against the property's spec was out of reach (two per-iteration
# choices per entry / a running sum), but the clause "an adjustment that would collapse or cross intervals raises
# instead of returning an ill-formed tier" does not depend on what the loop computes: the collected entries are
# summarised as an arbitrary list of the same length (R-HAVOC) and handed to the validating constructor.

contract(IT + ".dejitter", serves=["C14", "C05", "C13"], spec_module="spec.tiers",
         inputs=lambda S, cfg: dict(self=wf_interval_tier(S, "self"), referenceTier=ref(S),
                                    maxDifference=S.real("maxDifference")),
         requires=["0 < maxDifference", "maxDifference <= 1e15"],
         loops={"loop#1": {"havoc": {"newEntries": "tuple3"}}},
         frame=["self"], may_raise=["TextgridStateError", "ArgumentError"],
         ensures=[("well-formed", "well_formed(result)"), ("count", "len(result.entries) == len(self.entries)"),
                  ("reference-not-empty", "len(referenceTier.timestamps) > 0")])

contract(IT + ".morph", serves=["C14", "C05", "C13"], spec_module="spec.tiers",
         inputs=lambda S, cfg: dict(self=wf_interval_tier(S, "self"), targetTier=wf_interval_tier(S, "targetTier"),
                                    filterFunc=None),
         loops={"loop#1": {"havoc": {"newEntryList": "Interval"}, "havoc_scalars": {"cumulativeAdjustAmount": "real"}}},
         frame=["self", "targetTier"], may_raise=["TextgridStateError", "SafeZipException"],
         ensures=[("well-formed", "well_formed(result)"), ("count", "len(result.entries) == len(self.entries)")])
