"""Sidecar contracts for scalar helpers: utils.sign/getInterval/chooseClosestTime/intervalOverlapCheck/getValuesInInterval,
audio.Wav._getIndexAtTime."""
from pyvc.contracts import contract

U = "praatio.utilities.utils."
OPT = [None, "sym"]

contract(U + "sign", serves=["C18"], spec_module="spec.scalars",
         inputs=lambda S, cfg: dict(x=S.real("x")), spec="spec.scalars.sign")

contract(U + "getInterval", serves=["C18"], spec_module="spec.scalars",
         configs={"reverse": [True, False]},
         inputs=lambda S, cfg: dict(startTime=S.real("startTime"), duration=S.real("duration"), max=S.real("max"),
                                    reverse=cfg["reverse"]),
         # call sites: 0 <= startTime <= duration of the recording, step > 0
         requires=["0 <= startTime", "startTime <= max", "0 < duration", "max <= 1e15"],
         spec="spec.scalars.getInterval",
         ensures=[("within", "0 <= result[0] and result[0] <= result[1] and result[1] <= max")])

contract(U + "chooseClosestTime", serves=["C18"], spec_module="spec.scalars",
         configs={"a": OPT, "b": OPT},
         inputs=lambda S, cfg: dict(targetTime=S.real("targetTime"),
                                    candidateA=None if cfg["a"] is None else S.real("candidateA"),
                                    candidateB=None if cfg["b"] is None else S.real("candidateB")),
         spec="spec.scalars.chooseClosestTime")

contract(U + "getValuesInInterval", serves=["C15"],
         inputs=lambda S, cfg: dict(dataTupleList=S.list("dataTupleList", "pair"), start=S.real("start"), end=S.real("end")),
         spec="spec.tiers.getValuesInInterval")

contract(U + "intervalOverlapCheck", serves=["C15"], spec_module="spec.scalars",
         configs={"boundaryInclusive": [False, True], "thresholds": ["none", "time"]},
         inputs=lambda S, cfg: dict(interval=(S.real("a0"), S.real("a1"), S.str("al")),
                                    cmprInterval=(S.real("b0"), S.real("b1"), S.str("bl")),
                                    percentThreshold=0,
                                    timeThreshold=(0 if cfg["thresholds"] == "none" else S.real("tt")),
                                    boundaryInclusive=cfg["boundaryInclusive"]),
         requires=["interval[0] < interval[1]", "cmprInterval[0] < cmprInterval[1]", "timeThreshold >= 0"],
         ensures=[("overlap-test",
                   "result == ((overlap_length(interval[0], interval[1], cmprInterval[0], cmprInterval[1]) > 0"
                   " and overlap_length(interval[0], interval[1], cmprInterval[0], cmprInterval[1]) >= timeThreshold)"
                   " or (boundaryInclusive and (interval[0] == cmprInterval[1] or interval[1] == cmprInterval[0])))")])

WAV = "praatio.audio.Wav"
RATES = [8, 8000, 16000, 44100]
WIDTHS = [1, 2, 4]


def wav_obj(S, cfg, frames=None):
    attrs = dict(frameRate=cfg["rate"], sampleWidth=cfg["width"], nchannels=1)
    if frames is not None:
        attrs["frames"] = frames
    return S.obj(WAV, **attrs)


contract(WAV + "._getIndexAtTime", serves=["C16", "C17", "C18"], spec_module="spec.scalars",
         configs={"rate": RATES, "width": WIDTHS},
         inputs=lambda S, cfg: dict(self=wav_obj(S, cfg), startTime=S.real("startTime")),
         requires=["0 <= startTime", "startTime <= 1e9"],
         ensures=[("sample-aligned", "result % self.sampleWidth == 0"),
                  ("nearest-sample", "result == self.sampleWidth * round(startTime * self.frameRate)")])

contract("spec.harness.num_roundtrip", serves=["C01", "C02", "C03"], spec_module="spec.scalars", modular=False,
         inputs=lambda S, cfg: dict(x=S.real("x")),
         requires=["0 <= x", "x <= 1e15"],
         raises={},
         ensures=[("bit-identical-or-near-int", "result == x or (near_int(x) and result == trunc(x))")],
         replay_candidates=[{"x": v} for v in (5e-05, 1e-17, 1e-05, 0.5, 2.0, 2.9999999999999996, 0.30000000000000004)])

contract("spec.harness.num_text_fixed_point", serves=["C01", "C02"], spec_module="spec.scalars", modular=False,
         inputs=lambda S, cfg: dict(x=S.real("x")),
         requires=["0 <= x", "x <= 1e15"],
         raises={},
         ensures=[("fixed-point", "result[0] == result[1]")],
         replay_candidates=[{"x": v} for v in (5e-05, 1e-17, 0.5, 2.0, 2.9999999999999996, 0.30000000000000004)])

contract("praatio.utilities.my_math.medianFilter", serves=["C20"], spec_module="spec.scalars",
         configs={"window": [0, 1, 2, 3, 4, 5, 6, 7, 8], "useEdgePadding": [True, False]},
         inputs=lambda S, cfg: dict(dist=S.list("dist", "real"), window=cfg["window"],
                                    useEdgePadding=cfg["useEdgePadding"]),
         spec="spec.scalars.medianFilter",
         ensures=[("same-length", "len(result) == len(dist)")])

KPT = "praatio.data_classes.klattgrid.KlattPointTier"

contract(KPT + ".modifyValues", serves=["C19"], spec_module="spec.scalars",
         inputs=lambda S, cfg: dict(self=S.obj(KPT, name=S.str("self.name"), _entries=S.list("self.entries", "pair"),
                                              minTimestamp=S.real("self.min"), maxTimestamp=S.real("self.max")),
                                    modFunc=S.func("F")),
         spec="spec.scalars.KlattPointTier_modifyValues")

contract("praatio.data_classes.klattgrid.toIntOrFloat", serves=["C19"], spec_module="spec.scalars",
         inputs=lambda S, cfg: dict(val=S.real("val")),
         requires=["-1e15 <= val", "val <= 1e15"],
         spec="spec.scalars.toIntOrFloat",
         ensures=[("same-number", "result == val")])

IO = "praatio.utilities.textgrid_io."

contract(IO + "_removeBlanks", serves=["C03", "C01"], spec_module="spec.scalars",
         configs={"kind": ["tuple3", "tuple2"]},
         inputs=lambda S, cfg: dict(tier={"class": "IntervalTier" if cfg["kind"] == "tuple3" else "TextTier",
                                          "name": S.str("name"), "xmin": S.real("xmin"), "xmax": S.real("xmax"),
                                          "entries": S.list("entries", cfg["kind"])}),
         spec="spec.scalars.removeBlanks")

MM = "praatio.utilities.my_math."
contract(MM + "isclose", serves=["C14", "C01"], spec_module="spec.scalars",
         inputs=lambda S, cfg: dict(a=S.real("a"), b=S.real("b")), spec="spec.scalars.isclose")

contract(MM + "lessThanOrEqual", serves=["C14"], spec_module="spec.scalars",
         inputs=lambda S, cfg: dict(a=S.real("a"), b=S.real("b")),
         requires=["0 <= a", "0 < b", "b <= 1e15"],
         ensures=[("moves-if-within", "(not (a <= b)) or result"),
                  ("untouched-beyond", "(not (a > b * (1 + 2e-14))) or (not result)")])


def tier_dict(S, name="tier"):
    lo, hi = S.real(name + ".xmin"), S.real(name + ".xmax")
    # entries as _sortEntries leaves them: sorted, valid, pairwise disjoint (a well-formed tier's entries)
    ents = S.list(name + ".entries", "Interval", all="e.start < e.end", pair="a.end <= b.start")
    return {"class": "IntervalTier", "name": S.str(name + ".name"), "xmin": lo, "xmax": hi, "entries": ents}


LO = "(tier['xmin'] if minTime is None else minTime)"
HI = "(tier['xmax'] if maxTime is None else maxTime)"
OLDE = "old['tier']['entries']"

contract(IO + "_fillInBlanks", serves=["C04", "C02"], spec_module="spec.scalars",
         configs={"minTime": [None, "sym"], "maxTime": [None, "sym"]},
         inputs=lambda S, cfg: dict(tier=tier_dict(S), blankLabel="",
                                    minTime=None if cfg["minTime"] is None else S.real("minTime"),
                                    maxTime=None if cfg["maxTime"] is None else S.real("maxTime")),
         requires=["0 <= %s" % LO, "%s < %s" % (LO, HI), "%s <= 1e15" % HI],
         # no refinement spec: the postconditions below are the clauses of C02 / C04 themselves
         # (the closed form speaks about the parameter, not about the local alias `entries`, and the carried name is re-bound
         # if the local is renamed: pyvc/folds.py)
         loops={"loop#1": {"carried": {"prevEnd": "float(tier['entries'][j][1])"}}},
         engine_opts={"successor": True, "touch": True, "pair_forward": True, "sorted_forward": True},
         raises={"ParsingError": "len(%s) > 0 and (%s[0][0] < %s or %s[-1][1] > %s)" % (OLDE, OLDE, LO, OLDE, HI)},
         ensures=[("gap-free", "adjacent(tier['entries'], lambda a, b: a[1] == b[0])"),
                  ("positive-length", "forall(tier['entries'], lambda e: e[0] < e[1])"),
                  ("starts-at-min", "tier['entries'][0][0] == %s" % LO),
                  ("ends-at-max", "tier['entries'][-1][1] == %s" % HI),
                  # "the original entries are among the written ones / only blanks are added" is not proved here
                  # (inclusion through the index-carried loop was not derivable); c04_save_sweep checks it bounded
                  ("sorted", "is_sorted(tier['entries'])")])

# ---- C18: zero crossings inside one block of samples (utils.find is executed from its source at the call sites)
A = "praatio.audio."
contract(A + "_getNearestZero", serves=["C18"], spec_module="spec.scalars",
         configs={"reverse": [False, True]},
         inputs=lambda S, cfg: dict(samples=S.list("samples", "int", is_tuple=True), reverse=cfg["reverse"]),
         spec="spec.scalars.nearest_zero")
contract(A + "_getZeroThresholdCrossing", serves=["C18"], spec_module="spec.scalars",
         configs={"reverse": [False, True]},
         inputs=lambda S, cfg: dict(samples=S.list("samples", "int", is_tuple=True), reverse=cfg["reverse"]),
         spec="spec.scalars.threshold_crossing", engine_opts={"touch": True},
         ensures=[("genuine", "result is None or (0 <= result and result < len(samples) and "
                              "((result + 1 < len(samples) and sgn(samples[result]) != sgn(samples[result + 1])) or "
                              "(result >= 1 and sgn(samples[result - 1]) != sgn(samples[result]))))")])
contract(A + "_findNextZeroCrossing", serves=["C18"], spec_module="spec.scalars",
         configs={"reverse": [False, True], "rate": [8, 8000, 44100]},
         inputs=lambda S, cfg: dict(startTime=S.real("startTime"), samples=S.list("samples", "int", is_tuple=True),
                                    frameRate=cfg["rate"], reverse=cfg["reverse"]),
         spec="spec.scalars.next_zero_crossing", engine_opts={"touch": True},
         ensures=[("within-block", "result is None or (startTime <= result and "
                                   "result <= startTime + (len(samples) - 1) / frameRate)"),
                  ("none-iff-no-crossing", "(result is None) == (not exists(samples, lambda x: x == 0) and "
                                           "not exists(sign_changes(samples), lambda c: c))")])

# ---- C20: pitch measures and the jump detector (statistics by definition: sum / len, population variance)
contract("praatio.pitch_and_intensity.getPitchMeasures", serves=["C20"], spec_module="spec.scalars",
         configs={"filterZeroFlag": [False, True], "window": [None, 3, 4]},
         inputs=lambda S, cfg: dict(f0Values=S.list("f0Values", "real"), name=None, label=None,
                                    medianFilterWindowSize=cfg["window"], filterZeroFlag=cfg["filterZeroFlag"]),
         spec="spec.scalars.getPitchMeasures", frame=["f0Values"])

# voiced tracks (every pitch > 0; a zero pitch divides by zero: known finding KF14), thresholds in (0, 1]
contract("praatio.pitch_and_intensity.detectPitchErrors", serves=["C20"], spec_module="spec.scalars",
         inputs=lambda S, cfg: dict(pitchList=S.list("pitchList", "pair", all="e[1] > 0"),
                                    maxJumpThreshold=S.real("maxJumpThreshold"), tgToMark=None),
         requires=["maxJumpThreshold != 0"],
         spec="spec.scalars.detectPitchErrors", frame=["pitchList"])

# ---- C19: modifySubtiers addresses one intermediate tier of a container (hierarchy of known shape: 0..3 point tiers
# in the addressed tier, 0 or 2 in another one; every entry list, time and value symbolic, modFunc arbitrary)
KG = "praatio.data_classes.klattgrid."
KPT2 = KG + "KlattPointTier"


def kpt(S, name):
    return S.obj(KPT2, name=name, _entries=S.list(name + ".entries", "pair"),
                 minTimestamp=S.real(name + ".min"), maxTimestamp=S.real(name + ".max"))


def kit(S, name, n):
    names = ["%s_%d" % (name, i) for i in range(n)]
    return S.obj(KG + "KlattIntermediateTier", name=name, tierNameList=S.pylist(names),
                 tierDict={nm: kpt(S, nm) for nm in names}, minTimestamp=S.real(name + ".min"),
                 maxTimestamp=S.real(name + ".max"))


def container(S, cfg):
    kits = [("oral", cfg["n_addressed"]), ("nasal", cfg["n_other"])]
    return S.obj(KG + "KlattContainerTier", name="formants", tierNameList=S.pylist([k for k, _ in kits]),
                 tierDict={k: kit(S, k, n) for k, n in kits}, minTimestamp=S.real("c.min"), maxTimestamp=S.real("c.max"))


contract(KG + "KlattContainerTier.modifySubtiers", serves=["C19"], spec_module="spec.scalars",
         configs={"n_addressed": [0, 1, 2, 3], "n_other": [0, 2], "tierName": ["oral", "missing"]},
         inputs=lambda S, cfg: dict(self=container(S, cfg), tierName=cfg["tierName"], modFunc=S.func("F")),
         spec="spec.scalars.KlattContainerTier_modifySubtiers")
