"""R-FOLD, closed-form variant: a loop that carries scalars whose value at the start of iteration j is a
known expression of j and of the lists being traversed (e.g. `prevEnd == float(entries[j][1])`).

The sidecar contract names, per loop ordinal, `carried = {name: expression text over j}`.  Obligations:
  initiation   - the value before the loop equals the expression at j = 0;
  preservation - on every path of the body, the value at the end of iteration j equals the expression at j+1
                 (proved for a generic j inside the body exploration);
after which the body is a flatMap over the index space with the carried names bound to their expressions
(R-MAP), and after the loop each carried name has the expression's value at j = number of iterations.
An annotation that does not bind (initiation / preservation not provable) makes the obligation *unsupported*,
never a violation."""
import ast

import z3

from . import core
from .core import Unsupported, AList, Conc, is_z3, to_z3
from .values import *  # noqa
from . import loops


def _eval_expr(I, text, env, jval):
    node = ast.parse(text.strip(), mode="eval").body
    e = type(env)(env.module, parent=env, func=env.func)
    e.vars = {"j": jval}
    return I.eval(node, e)


def exec_inv_for(I, st, env, it, spec):
    """R-INV: a loop that carries one heap object (`retTier`) whose class invariant every iteration re-establishes.

    Sidecar: {"invariant": {"var": name, "builder": f(S, tag) -> fresh object assumed to satisfy the invariant,
                             "clauses": [(label, text over the function's variables)]}}
    Obligations (each *unsupported* - never a violation - if it cannot be proved):
      initiation   - the clauses hold for the object before the loop, and nothing else in the frame reaches it;
      preservation - for a generic iteration started from an arbitrary object satisfying the invariant (the builder's
                     fresh object), every path of the body ends normally with the clauses holding for the object
                     then bound to `var`;
    after which the loop is summarised by: `var` is bound to a fresh object satisfying the invariant, every other
    variable the body assigns is unknown.  Everything else about the loop's result is forgotten: the rule carries the
    class invariant through the loop and nothing more."""
    from .contracts import Sym, reachable
    inv = spec["invariant"]
    var, builder0, clauses = inv["var"], inv["builder"], inv["clauses"]
    ctx = I.ctx
    src = loops.classify_iterable(I, it)
    body = st.body
    spec_module = inv.get("spec_module", "spec.tiers")
    S = Sym(I, spec_module)

    def holds(cenv_vars, what):
        for label, text in clauses:
            try:
                g = I.pure(S.expr_fn(text, [], dict(cenv_vars)))
            except Unsupported as u:
                raise Unsupported("loop invariant (%s) cannot be evaluated %s: %s" % (label, what, u))
            if not I.ctx.entails(g, patient=True):
                notes = ";".join(I.ctx.notes[-6:])
                raise Unsupported("loop invariant (%s) not provable %s [%s]" % (label, what, notes))

    def assume_clauses(vars_):
        """the arbitrary object the builder returns satisfies every invariant clause (clauses may relate it to other
        variables of the function, e.g. `retTier.name == self.name`, which the builder alone cannot say)"""
        for label, text in clauses:
            I.ctx.assume(I.pure(S.expr_fn(text, [], vars_)))

    cur = env.lookup(var)
    if callable(clauses):
        clauses = clauses(cur)  # e.g. by the class of the carried object

    def builder(S_, tag):
        return builder0(S_, tag, cur)
    frame_vars = dict(env.vars)
    holds(frame_vars, "before the loop")
    others = [v for n, v in frame_vars.items() if n != var]
    mine = set(id(o) for o in reachable(cur))
    for o in others:
        if any(id(x) in mine for x in reachable(o)):
            raise Unsupported("loop invariant: the carried object is shared with another variable")
    assigned = loops.assigned_names(body) | loops.assigned_names([ast.Assign(targets=[st.target], value=ast.Constant(0))])
    counter = [0]

    def run_body(cenv, value, recs):
        counter[0] += 1
        fresh = builder(Sym(I, spec_module), "inv%d" % counter[0])
        for o in reachable(fresh):
            o.owner = id(I.ctx)  # the iteration owns (may mutate) the object it starts from
        cenv.vars[var] = fresh
        assume_clauses(dict(cenv.vars))
        I.assign(st.target, value, cenv)
        try:
            I.exec_block(body, cenv)
        except ContinueEx:
            pass
        holds(dict(cenv.vars), "after an iteration")

    poisoned = [n for n in assigned if n != var]
    j, sterm, results, binds = loops.explore_body(I, src, run_body, [], poisoned, env, want_updates=(), check_escape=False)
    for bp in results:
        if bp.kind != "normal":
            raise Unsupported("loop invariant rule: an iteration may %s" % bp.kind)
    for n in assigned:
        env.vars[n] = Poison("assigned in a loop summarised by its invariant")
    out = builder(Sym(I, spec_module), "inv-exit")
    for o in reachable(out):
        o.owner = id(I.ctx)
    env.vars[var] = out
    assume_clauses(dict(env.vars))


def exec_havoc_for(I, st, env, it, spec):
    """R-HAVOC: a loop that only appends to / extends list accumulators and whose iterations all end normally is
    summarised by "each accumulator is now its old content followed by an ARBITRARY list of the declared element
    kind".  Nothing about what was appended is kept - the rule exists for functions that hand the accumulated list
    to a constructor which validates it (`intersection`, `mergeLabels`): what can then be proved is exactly what
    holds for every list (the class invariant of the constructed tier, the exception classes)."""
    from .contracts import Sym
    kinds = spec["havoc"]
    src = loops.classify_iterable(I, it)
    body = st.body
    assigned = loops.assigned_names(body) | loops.assigned_names([ast.Assign(targets=[st.target], value=ast.Constant(0))])
    target_names = loops.assigned_names([ast.Assign(targets=[st.target], value=ast.Constant(0))])

    def lookup(n):
        try:
            return env.lookup(n)
        except KeyError:
            return None
    accs = loops.accumulator_names(body, lookup)
    if sorted(accs) != sorted(kinds):
        raise Unsupported("havoc annotation names %s but the loop's append-only accumulators are %s" % (sorted(kinds), sorted(accs)))
    scalars = spec.get("havoc_scalars", {})  # carried scalars (running sums ...): arbitrary at every iteration start
    poisoned = [n for n in assigned if n not in target_names and n not in scalars]
    S0 = Sym(I, spec.get("spec_module", "spec.tiers"))
    counts = {n: set() for n in kinds}

    def fresh_scalar(name, kind, tag):
        I.havoc_counter = getattr(I, "havoc_counter", 0) + 1
        nm = "havoc%d.%s.%s" % (I.havoc_counter, name, tag)
        return S0.real(nm) if kind == "real" else S0.int(nm)

    def run_body(cenv, value, recs):
        for r in recs.values():
            r.tolerate_abstract = True
        for n, kind in scalars.items():
            cenv.vars[n] = fresh_scalar(n, kind, "it")
        I.assign(st.target, value, cenv)
        try:
            I.exec_block(body, cenv)
        except ContinueEx:
            pass
    j, sterm, results, binds = loops.explore_body(I, src, run_body, accs, poisoned, env, want_updates=(),
                                                 check_escape=False)
    raising = []
    for bp in results:
        if bp.kind == "raise":
            # allowed when the raising condition does not depend on anything the iteration itself introduced
            # (`min()` of an empty reference list): the loop then raises iff some iteration does (R-FORALL)
            marker = "~"
            local = [nm for nm in loops.free_names([bp.guard]) if marker in nm and nm != j.decl().name()
                     and nm not in set(c.decl().name() for c, _ in binds)]
            if local:
                raise Unsupported("havoc rule: an iteration may raise under a condition of its own (%s)" % local[0])
            raising.append(bp)
            continue
        if bp.kind != "normal":
            raise Unsupported("havoc rule: an iteration may %s" % bp.kind)
        for n in kinds:
            outs = bp.outs.get(n, [])
            counts[n].add(None if any(isinstance(o, AList) for o in outs) else len(outs))
    if raising:
        quiet = [loops.BodyPath("normal", bp.guard, {}, None, {}) for bp in results if bp.kind == "normal"]
        loops.apply_paths(I, src, sterm, j, raising + quiet, {}, env, set(), note="@L%d" % st.lineno, binds=binds)
    S = Sym(I, spec.get("spec_module", "spec.tiers"))
    I.havoc_counter = getattr(I, "havoc_counter", 0) + 1
    for n, kind in kinds.items():
        box = env.lookup(n)
        I.check_mutable(box)
        extra = S.list("havoc%d.%s" % (I.havoc_counter, n), kind)
        extra.owner = id(I.ctx)
        old = box.term
        if len(counts[n]) == 1 and None not in counts[n]:
            # every iteration appends the same number of elements: the length of what was collected is known
            (m,) = counts[n]
            I.ctx.assume(extra.term.length() == m * src.length(I))
        box.term = extra.term if (isinstance(old, Conc) and not old.items) else core.mk_concat(I, [old, extra.term], extra.term.etype)
    for n in assigned:
        if n in scalars:
            env.vars[n] = fresh_scalar(n, scalars[n], "exit")
        elif n not in kinds:
            env.vars[n] = Poison("assigned in a loop summarised by havoc")


def exec_fold_for(I, st, env, it, spec):
    if "invariant" in spec:
        return exec_inv_for(I, st, env, it, spec)
    if "havoc" in spec:
        return exec_havoc_for(I, st, env, it, spec)
    carried = spec.get("carried", {})
    if not carried:
        raise Unsupported("fold rule without carried expressions")
    if loops.is_erase_loop(st) is not None:
        raise Unsupported("fold annotation on an erase loop")
    src = loops.classify_iterable(I, it)
    ctx = I.ctx
    body = st.body
    # the annotation names a local; a renamed local must not break the proof: a carried name that is not assigned in
    # the body any more is re-bound to the only other loop-carried candidate (assigned in the body to something that
    # is not a constant, defined before the loop, neither loop target nor append-only accumulator)
    assigned0 = loops.assigned_names(body)
    targets0 = loops.assigned_names([ast.Assign(targets=[st.target], value=ast.Constant(0))])
    missing = [n for n in carried if n not in assigned0]
    if missing:
        def only_constants(name):
            for n in ast.walk(ast.Module(body=body, type_ignores=[])):
                if isinstance(n, ast.Assign) and any(isinstance(t, ast.Name) and t.id == name for t in n.targets):
                    if not isinstance(n.value, ast.Constant):
                        return False
                elif isinstance(n, (ast.AugAssign, ast.AnnAssign)) and isinstance(n.target, ast.Name) and n.target.id == name:
                    return False
            return True

        def defined_before(name):
            try:
                env.lookup(name)
                return True
            except KeyError:
                return False
        acc0 = set(loops.accumulator_names(body, lambda n: env.lookup(n) if defined_before(n) else None))
        cands = [n for n in sorted(assigned0 - targets0) if n not in carried and n not in acc0
                 and defined_before(n) and not only_constants(n)]
        if len(missing) == 1 and len(cands) == 1:
            carried = {(cands[0] if k == missing[0] else k): v for k, v in carried.items()}
        else:
            raise Unsupported("fold annotation does not bind: no variable %s in the loop body" % missing)
    # initiation
    for name, text in carried.items():
        cur = env.lookup(name)
        want = _eval_expr(I, text, env, 0)
        ok, why = I.same_value(cur, want, "fold-init(%s)" % name)
        if not ok:
            raise Unsupported("fold annotation does not bind: '%s' is not %s before the loop" % (name, text))
    assigned = loops.assigned_names(body) | loops.assigned_names([ast.Assign(targets=[st.target], value=ast.Constant(0))])
    target_names = loops.assigned_names([ast.Assign(targets=[st.target], value=ast.Constant(0))])

    def lookup(n):
        try:
            return env.lookup(n)
        except KeyError:
            return None

    accs = loops.accumulator_names(body, lookup)
    poisoned = [n for n in assigned if n not in target_names and n not in carried]
    bad = []

    def run_body(cenv, value, recs):
        child = I.ctx
        j = child._loop_j
        for name, text in carried.items():
            cenv.vars[name] = _eval_expr(I, text, cenv, j)
        I.assign(st.target, value, cenv)
        try:
            I.exec_block(body, cenv)
        except ContinueEx:
            pass
        # preservation
        for name, text in carried.items():
            nxt = _eval_expr(I, text, cenv, j + 1)
            ok, why = I.same_value(cenv.vars[name], nxt, "fold-step(%s)" % name)
            if not ok:
                bad.append(name)

    j, sterm, results, binds = loops.explore_body(I, src, run_body, accs, poisoned, env, want_updates=assigned,
                                                 pass_index=True)
    if bad:
        raise Unsupported("fold annotation does not bind: %s not preserved by the loop body" % sorted(set(bad)))
    boxes = {n: env.lookup(n) for n in accs}
    if any(bp.kind == "break" for bp in results):
        raise Unsupported("fold loop with break")
    loops.apply_paths(I, src, sterm, j, results, boxes, env, assigned, note="@L%d" % st.lineno, binds=binds)
    n = src.length(I)
    for name, text in carried.items():
        env.vars[name] = _eval_expr(I, text, env, z3.simplify(to_z3(n)))


def exec_fold_while(I, st, env, spec):
    raise Unsupported("while loops with invariants are not supported")
