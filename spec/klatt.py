"""Independent reader / writer for the text form of a Praat KlattGrid (property C19).

Written from the Praat "ooTextFile" long text format as it appears in files written by Praat
(one `key = value` or `name [i]:` / `name: size = N` / `name? <exists>` item per line, white space
around items and at line ends insignificant, numbers are ordinary decimal / exponent literals),
NOT from praatIO's klattgrid code.  Specification, not verified code: its own inverse law
(render(parse(reference file)) == reference file, parse(render(m)) == m) is checked by the
bounded module.

Flat model (the file is a flat sequence of `<exists>` sections; which formant-amplitude
collections follow which section is kept exactly as in the file):

    grid    = {"xmin": num, "xmax": num, "sections": [section, ...]}
    section = {"name": str, "xmin": num, "xmax": num,
               "points": None | [(num, num), ...],          # None: no `points: size` line at all
               "collections": [collection, ...]}            # e.g. formants / bandwidths / ..._amplitudes
    collection = {"name": str, "items": [item, ...]}        # item i is labelled "<name> [i]"
    item    = {"xmin": num, "xmax": num, "points": [(num, num), ...]}

`num` is the literal text when parsed with raw=True, else float(literal).
"""
import re

_RE_EXISTS = re.compile(r"^(\w+)\? <exists>$")
_RE_KV = re.compile(r"^(\w+) = (\S+)$")
_RE_SIZE = re.compile(r"^(\w+): size ?= ?(\d+)$")
_RE_ITEM = re.compile(r"^(\w+) \[(\d+)\]:$")


class KlattFormatError(Exception):
    pass


class _Lines:
    def __init__(self, text):
        self.rows = [r.strip() for r in text.replace("\r\n", "\n").split("\n")]
        while self.rows and self.rows[-1] == "":
            self.rows.pop()
        self.i = 0

    def peek(self):
        return self.rows[self.i] if self.i < len(self.rows) else None

    def next(self):
        r = self.peek()
        if r is None:
            raise KlattFormatError("unexpected end of file")
        self.i += 1
        return r


def _num(lit, raw):
    float(lit)  # must be a number literal
    return lit if raw else float(lit)


def _kv(L, key, raw):
    r = L.next()
    m = _RE_KV.match(r)
    if not m or m.group(1) != key:
        raise KlattFormatError("expected '%s = <number>' got %r (line %d)" % (key, r, L.i))
    try:
        return _num(m.group(2), raw)
    except ValueError:
        raise KlattFormatError("bad number %r (line %d)" % (m.group(2), L.i))


def _points(L, raw):
    """`points: size = N` followed by N x (`points [i]:`, `number = t`, `value = v`)"""
    r = L.next()
    m = _RE_SIZE.match(r)
    if not m or m.group(1) != "points":
        raise KlattFormatError("expected 'points: size = N' got %r (line %d)" % (r, L.i))
    n = int(m.group(2))
    out = []
    for k in range(1, n + 1):
        r = L.next()
        m = _RE_ITEM.match(r)
        if not m or m.group(1) != "points" or int(m.group(2)) != k:
            raise KlattFormatError("expected 'points [%d]:' got %r (line %d)" % (k, r, L.i))
        t = _kv(L, "number", raw)
        v = _kv(L, "value", raw)
        out.append((t, v))
    return out


def parse_klatt(text, raw=False):
    L = _Lines(text)
    if L.next() != 'File type = "ooTextFile"':
        raise KlattFormatError("bad first line")
    if L.next() != 'Object class = "KlattGrid"':
        raise KlattFormatError("bad object class line")
    if L.next() != "":
        raise KlattFormatError("blank line expected after the header")
    grid = {"xmin": _kv(L, "xmin", raw), "xmax": _kv(L, "xmax", raw), "sections": []}
    while L.peek() is not None:
        r = L.next()
        m = _RE_EXISTS.match(r)
        if not m:
            raise KlattFormatError("expected '<name>? <exists>' got %r (line %d)" % (r, L.i))
        sec = {"name": m.group(1), "xmin": _kv(L, "xmin", raw), "xmax": _kv(L, "xmax", raw),
               "points": None, "collections": []}
        nxt = L.peek()
        if nxt is not None and _RE_SIZE.match(nxt) and _RE_SIZE.match(nxt).group(1) == "points":
            sec["points"] = _points(L, raw)
        else:
            while L.peek() is not None and _RE_SIZE.match(L.peek()):
                m = _RE_SIZE.match(L.next())
                coll = {"name": m.group(1), "items": []}
                for k in range(1, int(m.group(2)) + 1):
                    r = L.next()
                    mi = _RE_ITEM.match(r)
                    if not mi or mi.group(1) != coll["name"] or int(mi.group(2)) != k:
                        raise KlattFormatError("expected '%s [%d]:' got %r (line %d)"
                                               % (coll["name"], k, r, L.i))
                    coll["items"].append({"xmin": _kv(L, "xmin", raw), "xmax": _kv(L, "xmax", raw),
                                          "points": _points(L, raw)})
                sec["collections"].append(coll)
        grid["sections"].append(sec)
    return grid


def lit(x):
    """number -> literal text: strings are taken verbatim, ints as digits, floats by shortest
    round-trip repr (17 significant digits at most)"""
    if isinstance(x, str):
        return x
    if isinstance(x, int):
        return str(x)
    return repr(float(x))


def render_klatt(grid, eol=" "):
    """Praat layout.  eol=" " reproduces Praat's own files (every line except `name [i]:` ends in a
    blank); eol="" is the same file without the insignificant trailing blanks."""
    o = ['File type = "ooTextFile"', 'Object class = "KlattGrid"', ""]
    o.append("xmin = %s%s" % (lit(grid["xmin"]), eol))
    o.append("xmax = %s%s" % (lit(grid["xmax"]), eol))

    def pts(points, ind):
        o.append("%spoints: size = %d%s" % (ind, len(points), eol))
        for k, (t, v) in enumerate(points):
            o.append("%spoints [%d]:" % (ind, k + 1))
            o.append("%s    number = %s%s" % (ind, lit(t), eol))
            o.append("%s    value = %s%s" % (ind, lit(v), eol))

    for sec in grid["sections"]:
        o.append("%s? <exists>%s" % (sec["name"], eol))
        o.append("xmin = %s%s" % (lit(sec["xmin"]), eol))
        o.append("xmax = %s%s" % (lit(sec["xmax"]), eol))
        if sec["points"] is not None:
            pts(sec["points"], "")
        for coll in sec["collections"]:
            o.append("%s: size = %d%s" % (coll["name"], len(coll["items"]), eol))
            for k, it in enumerate(coll["items"]):
                o.append("%s [%d]:" % (coll["name"], k + 1))
                o.append("    xmin = %s%s" % (lit(it["xmin"]), eol))
                o.append("    xmax = %s%s" % (lit(it["xmax"]), eol))
                pts(it["points"], "    ")
    return "\n".join(o) + "\n"


def to_values(grid):
    """raw model -> model of floats"""
    f = float

    def P(p):
        return None if p is None else [(f(t), f(v)) for t, v in p]

    return {"xmin": f(grid["xmin"]), "xmax": f(grid["xmax"]), "sections": [
        {"name": s["name"], "xmin": f(s["xmin"]), "xmax": f(s["xmax"]), "points": P(s["points"]),
         "collections": [{"name": c["name"], "items": [
             {"xmin": f(i["xmin"]), "xmax": f(i["xmax"]), "points": P(i["points"])}
             for i in c["items"]]} for c in s["collections"]]} for s in grid["sections"]]}


def flat_tiers(grid):
    """ordered list of (path, xmin, xmax, points); path = (section,) or (section, collection, 'collection [i]')"""
    out = []
    for s in grid["sections"]:
        if not s["collections"]:
            out.append(((s["name"],), s["xmin"], s["xmax"], s["points"] or []))
        for c in s["collections"]:
            for k, it in enumerate(c["items"]):
                out.append(((s["name"], c["name"], "%s [%d]" % (c["name"], k + 1)),
                            it["xmin"], it["xmax"], it["points"]))
    return out
