#!/usr/bin/env python3
"""Render out/seeded_results.json + seeded/*/meta.json as the markdown table of DESIGN.md section 9.8."""
import json, os, glob, re
ROOT = os.path.dirname(os.path.dirname(os.path.abspath(__file__)))
res = json.load(open(os.path.join(ROOT, "out", "seeded_results.json")))
rows = []
for d in sorted(glob.glob(os.path.join(ROOT, "seeded", "*"))):
    name = os.path.basename(d)
    meta = json.load(open(os.path.join(d, "meta.json")))
    r = res.get(name, {})
    summ = re.sub(r"\s+", " ", str(meta.get("summary", "")))[:110]
    if not r:
        how = "not run"
    elif r.get("rc") == 1:
        l = (r.get("lines") or [""])[0]
        if "obligation=" in l:
            how = "caught: failed obligation `%s`%s" % (l.split("obligation=")[1][:70], " (replayed)" if "no-failing-input-found" not in l else " (no-failing-input-found)")
        elif "bounded=" in l:
            how = "caught: bounded `%s`" % l.split("bounded=")[1][:80]
        else:
            how = "caught"
    elif r.get("rc") == 0:
        how = "**missed**"
    else:
        how = "rc=%s %s" % (r.get("rc"), (r.get("lines") or [""])[0][:60])
    rows.append("| %s | %s | %s |" % (name, summ.replace("|", "/"), how.replace("|", "/")))
print("| seeded change | what it changes | result of `./check %s` |" % "<property>")
print("|---|---|---|")
print("\n".join(rows))
