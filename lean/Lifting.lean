/-
  Lifting.lean — list lemmas that justify the list rules of the verification engine.

  Checked with Lean 4.33.0 + Mathlib v4.33.0:
      cd /opt/veriftools/mathlib4 && lake env lean /verif/lean/Lifting.lean

  Adjustments w.r.t. the informal statements (this Mathlib version):
  * `List.Chain'` has been replaced by `List.IsChain`; lemma 4 uses `List.IsChain`.
  * `List.Sorted` no longer exists.  "Strictly sorted" is `List.Pairwise (· < ·)` (equivalently
    `List.SortedLT`, see `List.sortedLT_iff_pairwise`), "sorted" is `List.Pairwise (· ≤ ·)`
    (equivalently `List.SortedLE`).  Lemmas 9 and 10 are stated in the `Pairwise` form and also in
    the `SortedLT` / `SortedLE` form (primed names).
  * Predicates of `List.filter` are `α → Bool`; hypotheses are stated as `p x = true/false`.
  * Lemma 10 is about `List.mergeSort` (the stable sort of core/Std), with the comparator
    `fun a b => decide (a ≤ b)`; a variant for `List.insertionSort` is given as well.
-/
import Mathlib

namespace Lifting

variable {α β : Type*}

/-- [R-MAP, ∀-lift] a property of all elements of every `f x` holds on the whole `flatMap`. -/
theorem forall_flatMap {f : α → List β} {P : β → Prop} {xs : List α}
    (h : ∀ x ∈ xs, ∀ y ∈ f x, P y) : ∀ y ∈ xs.flatMap f, P y := by
  intro y hy
  obtain ⟨x, hx, hyx⟩ := List.mem_flatMap.1 hy
  exact h x hx y hyx

/-- [membership characterisation of flatMap] -/
theorem mem_flatMap_iff {f : α → List β} {xs : List α} {y : β} :
    y ∈ xs.flatMap f ↔ ∃ x ∈ xs, y ∈ f x :=
  List.mem_flatMap

/-- [R-MAP, pairwise lift / order characterisation] `Pairwise` lifts through `flatMap`. -/
theorem pairwise_flatMap {R : α → α → Prop} {S : β → β → Prop} {f : α → List β} {xs : List α}
    (hxs : xs.Pairwise R) (hf : ∀ x ∈ xs, (f x).Pairwise S)
    (hRS : ∀ a b, R a b → ∀ u ∈ f a, ∀ v ∈ f b, S u v) :
    (xs.flatMap f).Pairwise S := by
  induction xs with
  | nil => simp
  | cons a xs ih =>
    rw [List.pairwise_cons] at hxs
    rw [List.flatMap_cons, List.pairwise_append]
    refine ⟨hf a (by simp), ih hxs.2 (fun x hx => hf x (by simp [hx])), ?_⟩
    intro u hu v hv
    obtain ⟨b, hb, hvb⟩ := List.mem_flatMap.1 hv
    exact hRS a b (hxs.1 b hb) u hu v hvb

/-- [chain rule] a chain of a relation that is transitive on `V` is pairwise related, provided all
elements satisfy `V`.  (`List.IsChain` is this Mathlib version's `List.Chain'`.) -/
theorem chain_pairwise_on {R : α → α → Prop} {V : α → Prop}
    (htr : ∀ a b c, V a → V b → V c → R a b → R b c → R a c) {l : List α}
    (hV : ∀ x ∈ l, V x) (hc : l.IsChain R) : l.Pairwise R := by
  induction l with
  | nil => simp
  | cons a l ih =>
    have hVl : ∀ x ∈ l, V x := fun x hx => hV x (by simp [hx])
    refine List.pairwise_cons.2 ⟨?_, ih hVl hc.tail⟩
    -- `R a c` for every `c` in the tail, by induction on the tail (generalising the head)
    clear ih
    induction l generalizing a with
    | nil => simp
    | cons b l ih2 =>
      rw [List.isChain_cons_cons] at hc
      have hVa : V a := hV a (by simp)
      have hVb : V b := hV b (by simp)
      intro c hcm
      rcases List.mem_cons.1 hcm with rfl | hcl
      · exact hc.1
      · have hbc : R b c :=
          ih2 b (fun x hx => hV x (List.mem_cons_of_mem _ hx)) hc.2
            (fun x hx => hVl x (List.mem_cons_of_mem _ hx)) c hcl
        exact htr a b c hVa hVb (hVl c hcm) hc.1 hbc

/-- [identity-filter lemma] filtering by a predicate true on all elements is the identity. -/
theorem filter_eq_self_of_forall {p : α → Bool} {l : List α}
    (h : ∀ x ∈ l, p x = true) : l.filter p = l :=
  List.filter_eq_self.2 h

/-- [empty-filter lemma] filtering by a predicate false on all elements gives `[]`. -/
theorem filter_eq_nil_of_forall {p : α → Bool} {l : List α}
    (h : ∀ x ∈ l, p x = false) : l.filter p = [] :=
  List.filter_eq_nil_iff.2 fun x hx => by simp [h x hx]

/-- [identity-map collapse] mapping a function that fixes all elements is the identity. -/
theorem map_eq_self_of_forall {f : α → α} {l : List α}
    (h : ∀ x ∈ l, f x = x) : l.map f = l := by
  conv_rhs => rw [← List.map_id l]
  exact List.map_congr_left fun x hx => by simp [h x hx]

/-- [flatMap distributes over concatenation] -/
theorem flatMap_append {f : α → List β} {xs ys : List α} :
    (xs ++ ys).flatMap f = xs.flatMap f ++ ys.flatMap f :=
  List.flatMap_append

/-- Auxiliary for [R-ERASE loop rule]: erasing, one by one, the elements of an arbitrary list `m`
from a duplicate-free list `l` keeps exactly the elements of `l` that are not in `m`. -/
theorem foldl_erase_eq_filter [DecidableEq α] (m : List α) {l : List α} (hl : l.Nodup) :
    m.foldl (fun acc x => acc.erase x) l = l.filter (fun x => decide (x ∉ m)) := by
  induction m generalizing l with
  | nil => simp
  | cons a m ih =>
    rw [List.foldl_cons, ih (hl.erase a), hl.erase_eq_filter, List.filter_filter]
    refine List.filter_congr fun x _ => ?_
    by_cases hxa : x = a <;> simp [hxa]

/-- [R-ERASE loop rule] erasing (in order) all elements selected by `p` from a duplicate-free list
leaves exactly the elements not selected by `p`. -/
theorem erase_filter [DecidableEq α] {p : α → Bool} {l : List α} (hl : l.Nodup) :
    (l.filter p).foldl (fun acc x => acc.erase x) l = l.filter (fun x => !p x) := by
  rw [foldl_erase_eq_filter _ hl]
  refine List.filter_congr fun x hx => ?_
  cases hp : p x <;> simp [List.mem_filter, hx, hp]

/-- [R-ERASE loop rule, reverse iteration order] same as `erase_filter`, erasing back to front. -/
theorem erase_filter_reverse [DecidableEq α] {p : α → Bool} {l : List α} (hl : l.Nodup) :
    (l.filter p).reverse.foldl (fun acc x => acc.erase x) l = l.filter (fun x => !p x) := by
  rw [foldl_erase_eq_filter _ hl]
  refine List.filter_congr fun x hx => ?_
  cases hp : p x <;> simp [List.mem_filter, hx, hp]

/-- [sorted-sets lemma] strictly sorted lists with the same elements are equal
(`Pairwise (· < ·)` form; `List.Sorted` no longer exists in this Mathlib version). -/
theorem sorted_ext [LinearOrder α] {l₁ l₂ : List α}
    (h₁ : l₁.Pairwise (· < ·)) (h₂ : l₂.Pairwise (· < ·))
    (h : ∀ a, a ∈ l₁ ↔ a ∈ l₂) : l₁ = l₂ :=
  h₁.eq_of_mem_iff h₂ h

/-- [sorted-sets lemma] `List.SortedLT` form of `sorted_ext`. -/
theorem sorted_ext' [LinearOrder α] {l₁ l₂ : List α}
    (h₁ : l₁.SortedLT) (h₂ : l₂.SortedLT)
    (h : ∀ a, a ∈ l₁ ↔ a ∈ l₂) : l₁ = l₂ :=
  h₁.eq_of_mem_iff h₂ h

/-- [a stable sort of an already sorted list is the identity] for `List.mergeSort`
(`Pairwise (· ≤ ·)` form); the comparator is the Boolean `fun a b => decide (a ≤ b)`. -/
theorem sort_eq_self_of_sorted [LinearOrder α] {l : List α}
    (h : l.Pairwise (· ≤ ·)) : l.mergeSort (fun a b => decide (a ≤ b)) = l :=
  List.mergeSort_eq_self (r := (· ≤ ·)) h

/-- [a stable sort of an already sorted list is the identity] `List.SortedLE` form, `mergeSort`. -/
theorem sort_eq_self_of_sorted' [LinearOrder α] {l : List α}
    (h : l.SortedLE) : l.mergeSort (fun a b => decide (a ≤ b)) = l :=
  sort_eq_self_of_sorted h.pairwise

/-- [a stable sort of an already sorted list is the identity] variant for `List.insertionSort`. -/
theorem insertionSort_eq_self_of_sorted [LinearOrder α] {l : List α}
    (h : l.Pairwise (· ≤ ·)) : l.insertionSort (· ≤ ·) = l := by
  rw [← List.mergeSort_eq_insertionSort]
  exact sort_eq_self_of_sorted h

/-- [sorted permutation of segments] sorting `xs ++ ys` and `ys ++ xs` gives the same list
(rule `same_up_to_segment_order` of pyvc/listops.py). -/
theorem sort_perm_append [LinearOrder α] (xs ys : List α) :
    (xs ++ ys).insertionSort (· ≤ ·) = (ys ++ xs).insertionSort (· ≤ ·) := by
  apply List.Perm.eq_of_pairwise (le := (· ≤ ·))
  · intro a b _ _ hab hba; exact le_antisymm hab hba
  · exact (List.pairwise_insertionSort _ _)
  · exact (List.pairwise_insertionSort _ _)
  · exact ((List.perm_insertionSort _ _).trans
      (List.perm_append_comm.trans (List.perm_insertionSort _ _).symm))

/-- [sorted permutation] a sorted list that is a permutation of `xs` is the sorted `xs`
(rule `same_sorted_perm` of pyvc/listops.py). -/
theorem sorted_perm_eq [LinearOrder α] {xs ys : List α}
    (hp : xs.Perm ys) (hs : ys.Pairwise (· ≤ ·)) : xs.insertionSort (· ≤ ·) = ys := by
  apply List.Perm.eq_of_pairwise (le := (· ≤ ·))
  · intro a b _ _ hab hba; exact le_antisymm hab hba
  · exact (List.pairwise_insertionSort _ _)
  · exact hs
  · exact (List.perm_insertionSort _ _).trans hp

/-- [index-aligned flatMap congruence] two flatMaps over the same index range agree when their bodies agree at
every index (rule `same_fm` for index-aligned sources). -/
theorem flatMap_congr_idx {f g : ℕ → List β} {n : ℕ} (h : ∀ i, i < n → f i = g i) :
    (List.range n).flatMap f = (List.range n).flatMap g := by
  apply List.flatMap_congr
  intro i hi
  exact h i (List.mem_range.mp hi)

/-- [enumerate is index-aligned with range] `for i, x in enumerate(xs)` visits `(i, xs[i])` for `i` in
`range(len(xs))`. -/
theorem zipIdx_flatMap_eq_range [Inhabited α] (xs : List α) (f : ℕ → α → List β) :
    xs.zipIdx.flatMap (fun p => f p.2 p.1) =
      (List.range xs.length).flatMap (fun i => f i xs[i]!) := by
  have h : xs.zipIdx = (List.range xs.length).map (fun i => (xs[i]!, i)) := by
    apply List.ext_getElem
    · simp
    · intro i h1 h2
      simp at h1
      simp [h1]
  rw [h, List.flatMap_map]

/-- peel rule, first index: a flatMap over range (n+1) is the first body followed by the shifted flatMap -/
theorem flatMap_range_succ (f : Nat → List α) (n : Nat) :
    (List.range (n + 1)).flatMap f = f 0 ++ (List.range n).flatMap (fun j => f (j + 1)) := by
  rw [List.range_succ_eq_map, List.flatMap_cons, List.flatMap_map]

/-- peel rule, last index -/
theorem flatMap_range_succ_last (f : Nat → List α) (n : Nat) :
    (List.range (n + 1)).flatMap f = (List.range n).flatMap f ++ f n := by
  rw [List.range_succ, List.flatMap_append]
  simp

/-- R-STRFOLD: a loop that extends an accumulator by one chunk per element computes
    acc ++ join (map chunk xs)  (strings as lists of characters) -/
theorem foldl_append_eq_join (chunk : α → List β) (xs : List α) (acc : List β) :
    xs.foldl (fun a x => a ++ chunk x) acc = acc ++ (xs.map chunk).flatten := by
  induction xs generalizing acc with
  | nil => simp
  | cons x xs ih => simp [List.foldl_cons, ih, List.append_assoc]

end Lifting
