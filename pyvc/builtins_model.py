"""Models of Python builtins and standard-library functions (TRUSTED: DESIGN 2.7 A2-A6).

Everything in this file is an assumption about CPython, not about praatIO.
"""
import ast
import itertools

import z3

from . import core
from .core import (Unsupported, Fraction, AList, LTerm, Atom, Conc, FM, FMPath, Concat, Sorted, ElemType,
                   is_z3, to_z3, as_real, REAL, INT, STR, BOOL)
from .values import *  # noqa
from . import values as V


class LazySeq:
    """enumerate / zip / range / reversed over possibly abstract lists."""

    def __init__(self, kind, parts, start=0):
        self.kind = kind
        self.parts = parts
        self.start = start

    def concrete_items(self, I):
        if self.kind == "enumerate":
            its = I.try_iter_concrete(self.parts[0])
            if its is None:
                return None
            return [(self.start + i, x) for i, x in enumerate(its)]
        if self.kind == "zip":
            cols = [I.try_iter_concrete(p) for p in self.parts]
            if any(c is None for c in cols):
                return None
            return [tuple(t) for t in zip(*cols)]
        if self.kind == "zip_longest":
            cols = [I.try_iter_concrete(p) for p in self.parts]
            if any(c is None for c in cols):
                return None
            return [tuple(t) for t in itertools.zip_longest(*cols)]
        if self.kind == "range":
            if all(isinstance(p, int) for p in self.parts):
                return list(range(*self.parts))
            return None
        if self.kind == "reversed":
            its = I.try_iter_concrete(self.parts[0])
            return None if its is None else list(reversed(its))
        return None


class SDict:
    """insertion-ordered dict whose keys may be symbolic strings (OrderedDict of tier names).  Invariant: the
    stored keys are pairwise distinct on the path.  Lookups fork on key equality."""

    def __init__(self, pairs=()):
        self.pairs = list(pairs)  # [(key, value)]

    def __repr__(self):
        return "SDict(%d)" % len(self.pairs)


def pd_find(I, d, k, note="dict key"):
    """the stored key of the plain dict d that equals k, or None (forks on symbolic equality, like sd_find; z3
    expressions hash structurally, so a python dict can hold them as keys)"""
    for ki in list(d.keys()):
        r = equals(I, ki, k)
        if r is True:
            return ki
        if r is False:
            continue
        if I.ctx.decide(to_z3(r), note):
            return ki
    return None


def sd_find(I, d, k, note="dict key"):
    """index of key k in d or None (forks on symbolic equality)"""
    for i, (ki, _) in enumerate(d.pairs):
        r = equals(I, ki, k)
        if r is True:
            return i
        if r is False:
            continue
        if I.ctx.decide(to_z3(r), note):
            return i
    return None


class Partial:
    def __init__(self, func, args, kwargs):
        self.func = func
        self.args = args
        self.kwargs = kwargs


def num(v):
    return isinstance(v, (int, Fraction)) and not isinstance(v, bool)


def is_num(v):
    return (isinstance(v, (int, Fraction, float)) and True) or (is_z3(v) and (z3.is_arith(v)))


def is_real_typed(v):
    if is_z3(v):
        return v.sort() == REAL
    return isinstance(v, (Fraction, float))


def is_int_typed(v):
    if is_z3(v):
        return v.sort() == INT
    return isinstance(v, int)


def is_str(v):
    return isinstance(v, str) or (is_z3(v) and v.sort() == STR)


# ---------------------------------------------------------------------- arithmetic


def binop(I, op, a, b):
    if isinstance(a, Poison) or isinstance(b, Poison):
        raise Unsupported("loop-carried variable read")
    if isinstance(op, ast.Add):
        if isinstance(a, AList) and isinstance(b, AList):
            return list_concat(I, a, b)
        if isinstance(a, tuple) and isinstance(b, tuple):
            return a + b
        if isinstance(a, tuple) and isinstance(b, AList) and b.is_tuple:
            return list_concat(I, I.new_list(list(a), True), b)
        if isinstance(a, AList) and isinstance(b, tuple) and a.is_tuple:
            return list_concat(I, a, I.new_list(list(b), True))
        if is_str(a) and is_str(b):
            return str_concat(I, [a, b])
        if isinstance(a, bytes) and isinstance(b, bytes):
            return a + b
    if isinstance(op, ast.Mult):
        if isinstance(a, str) and isinstance(b, int):
            return a * b
        if isinstance(a, int) and isinstance(b, str):
            return a * b
        if isinstance(a, bytes) and isinstance(b, int):
            return a * b
    if isinstance(op, ast.Mod) and is_str(a):
        return str_format(I, a, b)
    if isinstance(op, (ast.BitAnd, ast.BitOr)):
        ab, bb = I.as_bool_expr(a), I.as_bool_expr(b)
        if ab is not None and bb is not None:
            if isinstance(a, bool) and isinstance(b, bool):
                return (a and b) if isinstance(op, ast.BitAnd) else (a or b)
            r = z3.And(ab, bb) if isinstance(op, ast.BitAnd) else z3.Or(ab, bb)
            r = z3.simplify(r)
            if z3.is_true(r):
                return True
            if z3.is_false(r):
                return False
            return r
        if isinstance(a, int) and isinstance(b, int):
            return (a & b) if isinstance(op, ast.BitAnd) else (a | b)
        raise Unsupported("bit operation on %r, %r" % (a, b))
    if not (is_num(a) or isinstance(a, bool)) or not (is_num(b) or isinstance(b, bool)):
        raise Unsupported("binary operation %s on %r and %r" % (type(op).__name__, a, b))
    if isinstance(a, bool):
        a = int(a)
    if isinstance(b, bool):
        b = int(b)
    if isinstance(a, float):
        a = Fraction(a)
    if isinstance(b, float):
        b = Fraction(b)
    sym = is_z3(a) or is_z3(b)
    if isinstance(op, ast.Add):
        return arith(I, "+", a, b)
    if isinstance(op, ast.Sub):
        return arith(I, "-", a, b)
    if isinstance(op, ast.Mult):
        return arith(I, "*", a, b)
    if isinstance(op, ast.Div):
        if sym:
            zb = to_z3(b)
            if I.ctx.decide(as_real(zb) == 0, "div0"):
                I.raise_exc(ZERODIV_ERR)
            return I.fp(as_real(a) / as_real(b))
        if b == 0:
            I.raise_exc(ZERODIV_ERR)
        return Fraction(a) / Fraction(b)
    if isinstance(op, ast.FloorDiv):
        if sym:
            if is_int_typed(a) and is_int_typed(b):
                if I.ctx.decide(to_z3(b) == 0, "div0"):
                    I.raise_exc(ZERODIV_ERR)
                return int_floordiv(to_z3(a), to_z3(b))
            raise Unsupported("float floor division")
        if b == 0:
            I.raise_exc(ZERODIV_ERR)
        r = a // b
        return r if isinstance(a, int) and isinstance(b, int) else Fraction(r)
    if isinstance(op, ast.Mod):
        if sym:
            if is_int_typed(a) and is_int_typed(b):
                if I.ctx.decide(to_z3(b) == 0, "mod0"):
                    I.raise_exc(ZERODIV_ERR)
                za, zb = to_z3(a), to_z3(b)
                return za - zb * int_floordiv(za, zb)
            raise Unsupported("float modulo")
        if b == 0:
            I.raise_exc(ZERODIV_ERR)
        return a % b
    if isinstance(op, ast.Pow):
        if not sym:
            if isinstance(b, int) and b >= 0:
                return a ** b
            if isinstance(b, int) and a != 0:
                return Fraction(a) ** b
            raise Unsupported("power")
        if isinstance(b, int) and 0 <= b <= 4:
            r = to_z3(1) if is_int_typed(a) else z3.RealVal(1)
            for _ in range(b):
                r = r * to_z3(a)
            return r
        raise Unsupported("symbolic power")
    raise Unsupported("binary operator %s" % type(op).__name__)


def int_floordiv(a, b):
    # python floor division on ints (z3 div is euclidean: remainder always >= 0)
    q = a / b
    return z3.If(z3.And(b < 0, a % b != 0), q + 1, q) if False else z3.If(b > 0, a / b, -((-a) / (-b)) if False else
                                                                         z3.If(a % b == 0, a / b, a / b - 1))


def arith(I, op, a, b):
    sym = is_z3(a) or is_z3(b)
    if not sym:
        if op == "+":
            return a + b
        if op == "-":
            return a - b
        return a * b
    realy = is_real_typed(a) or is_real_typed(b)
    za, zb = (as_real(a), as_real(b)) if realy else (to_z3(a), to_z3(b))
    r = za + zb if op == "+" else (za - zb if op == "-" else za * zb)
    return I.fp(r) if realy else r


def compare(I, op, a, b):
    if isinstance(a, Poison) or isinstance(b, Poison):
        raise Unsupported("loop-carried variable read")
    if isinstance(op, (ast.Is, ast.IsNot)):
        r = is_identical(I, a, b)
        return r if isinstance(op, ast.Is) else negate(r)
    if isinstance(op, (ast.In, ast.NotIn)):
        r = contains(I, b, a)
        return r if isinstance(op, ast.In) else negate(r)
    if isinstance(op, ast.Eq):
        return equals(I, a, b)
    if isinstance(op, ast.NotEq):
        if isinstance(a, NT) and isinstance(a.cls, RepoClass) and a.cls.lookup("__ne__"):
            return I.call(BoundMethod(a, a.cls.lookup("__ne__")), [b], {})
        return negate(equals(I, a, b))
    return order(I, op, a, b)


def negate(r):
    if isinstance(r, bool):
        return not r
    s = z3.simplify(z3.Not(r))
    if z3.is_true(s):
        return True
    if z3.is_false(s):
        return False
    return s


def is_identical(I, a, b):
    if a is None or b is None:
        return a is b
    if isinstance(a, bool) or isinstance(b, bool):
        # `x is True` for a symbolic bool x
        if is_z3(a) and z3.is_bool(a):
            return a if b is True else z3.Not(a)
        if is_z3(b) and z3.is_bool(b):
            return b if a is True else z3.Not(b)
        return a is b
    if is_z3(a) or is_z3(b):
        raise Unsupported("'is' on symbolic values")
    return a is b


def equals(I, a, b):
    if isinstance(a, NT) and isinstance(a.cls, RepoClass) and a.cls.lookup("__eq__"):
        return I.call(BoundMethod(a, a.cls.lookup("__eq__")), [b], {})
    if isinstance(b, NT) and isinstance(b.cls, RepoClass) and b.cls.lookup("__eq__") and not isinstance(a, NT):
        return I.call(BoundMethod(b, b.cls.lookup("__eq__")), [a], {})
    if isinstance(a, SObj) and a.cls.lookup("__eq__"):
        return I.call(BoundMethod(a, a.cls.lookup("__eq__")), [b], {})
    if isinstance(a, SObj) or isinstance(b, SObj):
        return a is b
    if a is None or b is None:
        return a is None and b is None
    if isinstance(a, bool) and isinstance(b, bool):
        return a == b
    if is_num(a) and is_num(b) or (isinstance(a, bool) and is_num(b)) or (is_num(a) and isinstance(b, bool)):
        if not is_z3(a) and not is_z3(b):
            return Fraction(a) == Fraction(b)
        return simp_bool(I.scalar_eq(a, b))
    if is_str(a) and is_str(b):
        if not is_z3(a) and not is_z3(b):
            return a == b
        return simp_bool(to_z3(a) == to_z3(b))
    if is_z3(a) and is_z3(b) and z3.is_bool(a) and z3.is_bool(b):
        return simp_bool(a == b)
    if (is_z3(a) and z3.is_bool(a) and isinstance(b, bool)) or (is_z3(b) and z3.is_bool(b) and isinstance(a, bool)):
        return simp_bool(to_z3(a) == to_z3(b))
    ta = tuple_items(I, a)
    tb = tuple_items(I, b)
    if ta is not None and tb is not None:
        if seq_kind(a) != seq_kind(b):
            return False
        if len(ta) != len(tb):
            return False
        acc = []
        for x, y in zip(ta, tb):
            r = equals(I, x, y)
            if r is False:
                return False
            if r is not True:
                acc.append(r)
        if not acc:
            return True
        return simp_bool(z3.And(acc))
    if isinstance(a, AList) and isinstance(b, AList):
        if a.is_tuple != b.is_tuple:
            return False
        from . import listops
        return listops.list_equal_value(I, a, b)
    if isinstance(a, dict) and isinstance(b, dict):
        if set(a.keys()) != set(b.keys()):
            return False
        acc = []
        for k in a:
            r = equals(I, a[k], b[k])
            if r is False:
                return False
            if r is not True:
                acc.append(r)
        return simp_bool(z3.And(acc)) if acc else True
    if isinstance(a, (RepoClass, BuiltinClass, NTClass, RepoFunction, Module)) or \
            isinstance(b, (RepoClass, BuiltinClass, NTClass, RepoFunction, Module)):
        return a is b
    if isinstance(a, bytes) and isinstance(b, bytes):
        return a == b
    # values of different kinds are unequal in python
    ka, kb = kind_of(a), kind_of(b)
    if ka is not None and kb is not None and ka != kb:
        return False
    raise Unsupported("== between %r and %r" % (a, b))


def kind_of(v):
    if v is None:
        return "none"
    if isinstance(v, bool) or (is_z3(v) and z3.is_bool(v)):
        return "num"
    if is_num(v):
        return "num"
    if is_str(v):
        return "str"
    if isinstance(v, (tuple, NT)):
        return "tuple"
    if isinstance(v, AList):
        return "tuple" if v.is_tuple else "list"
    if isinstance(v, dict):
        return "dict"
    if isinstance(v, bytes):
        return "bytes"
    return None


def seq_kind(v):
    if isinstance(v, (tuple, NT)):
        return "tuple"
    if isinstance(v, AList):
        return "tuple" if v.is_tuple else "list"


def tuple_items(I, v):
    if isinstance(v, NT):
        return list(v.vals)
    if isinstance(v, tuple):
        return list(v)
    if isinstance(v, AList):
        return I.items_of(v)
    return None


def simp_bool(e):
    if isinstance(e, bool):
        return e
    s = z3.simplify(e)
    if z3.is_true(s):
        return True
    if z3.is_false(s):
        return False
    return s


def scalar_lt(I, a, b, strict=True):
    if is_num(a) and is_num(b):
        if not is_z3(a) and not is_z3(b):
            return (Fraction(a) < Fraction(b)) if strict else (Fraction(a) <= Fraction(b))
        if is_real_typed(a) or is_real_typed(b):
            za, zb = as_real(a), as_real(b)
        else:
            za, zb = to_z3(a), to_z3(b)
        return simp_bool(za < zb if strict else za <= zb)
    if is_str(a) and is_str(b):
        if not is_z3(a) and not is_z3(b):
            return (a < b) if strict else (a <= b)
        # string order through an order embedding rank: String -> Real (exists for any countable total
        # order); keeps z3's sequence solver out of sorting arguments
        ra, rb = I.str_rank(a), I.str_rank(b)
        return simp_bool(ra < rb if strict else ra <= rb)
    if isinstance(a, bool) or isinstance(b, bool):
        return scalar_lt(I, int(a) if isinstance(a, bool) else a, int(b) if isinstance(b, bool) else b, strict)
    raise Unsupported("ordering between %r and %r" % (a, b))


def lex_lt(I, xs, ys, strict):
    """lexicographic comparison of two item lists (python tuple ordering)"""
    n = min(len(xs), len(ys))
    # result = OR_k ( prefix equal up to k AND x_k < y_k ) OR (all n equal AND len rule)
    alts = []
    prefix = []
    for k in range(n):
        lt = scalar_or_seq_lt(I, xs[k], ys[k], True)
        alts.append(z3.And([to_z3(p) for p in prefix] + [to_z3(lt)]))
        prefix.append(scalar_or_seq_eq(I, xs[k], ys[k]))
    if len(xs) < len(ys) or (len(xs) == len(ys) and not strict):
        alts.append(z3.And([to_z3(p) for p in prefix]) if prefix else z3.BoolVal(True))
    return simp_bool(z3.Or(alts)) if alts else False


def scalar_or_seq_lt(I, a, b, strict):
    ta, tb = tuple_items(I, a), tuple_items(I, b)
    if ta is not None and tb is not None:
        return lex_lt(I, ta, tb, strict)
    return scalar_lt(I, a, b, strict)


def scalar_or_seq_eq(I, a, b):
    ta, tb = tuple_items(I, a), tuple_items(I, b)
    if ta is not None and tb is not None:
        if len(ta) != len(tb):
            return False
        return simp_bool(z3.And([to_z3(scalar_or_seq_eq(I, x, y)) for x, y in zip(ta, tb)])) if ta else True
    # tuple ordering uses plain == of the items (floats, strings), never Interval.__eq__
    if is_num(a) and is_num(b):
        if not is_z3(a) and not is_z3(b):
            return Fraction(a) == Fraction(b)
        return simp_bool(I.scalar_eq(a, b))
    if is_str(a) and is_str(b):
        if not is_z3(a) and not is_z3(b):
            return a == b
        return simp_bool(to_z3(a) == to_z3(b))
    raise Unsupported("item equality between %r and %r" % (a, b))


def order(I, op, a, b):
    if isinstance(op, ast.Gt):
        return order(I, ast.Lt(), b, a)
    if isinstance(op, ast.GtE):
        return order(I, ast.LtE(), b, a)
    strict = isinstance(op, ast.Lt)
    if a is None or b is None:
        I.raise_exc(TYPE_ERR, "ordering with None")
    return scalar_or_seq_lt(I, a, b, strict)


def elem_lex_le(I):
    def le(a, b):
        return to_z3(lex_lt(I, I.elem_parts(a), I.elem_parts(b), False))
    return le


def ite(I, c, a, b):
    """merge two scalar values under a symbolic condition; None if not mergeable"""
    if a is None and b is None:
        return None if False else None
    if (is_num(a) or isinstance(a, bool)) and (is_num(b) or isinstance(b, bool)):
        if isinstance(a, bool) and isinstance(b, bool) or \
                (is_z3(a) and z3.is_bool(a)) or (is_z3(b) and z3.is_bool(b)):
            return None
        if is_real_typed(a) or is_real_typed(b):
            return z3.If(c, as_real(a), as_real(b))
        return z3.If(c, to_z3(a), to_z3(b))
    ab, bb = I.as_bool_expr(a), I.as_bool_expr(b)
    if ab is not None and bb is not None and a is not None and b is not None:
        return z3.If(c, ab, bb)
    if is_str(a) and is_str(b):
        return z3.If(c, to_z3(a), to_z3(b))
    if isinstance(a, NT) and isinstance(b, NT) and a.cls is b.cls:
        vals = [ite(I, c, x, y) for x, y in zip(a.vals, b.vals)]
        if any(v is None for v in vals):
            return None
        return NT(a.cls, vals)
    if isinstance(a, tuple) and isinstance(b, tuple) and len(a) == len(b):
        vals = [ite(I, c, x, y) for x, y in zip(a, b)]
        if any(v is None for v in vals):
            return None
        return tuple(vals)
    return None


# ---------------------------------------------------------------------- strings


def to_str(I, x):
    if isinstance(x, str):
        return x
    if isinstance(x, Opaque) or isinstance(x, Poison):
        return Opaque("str")
    if is_z3(x) and x.sort() == STR:
        return x
    if isinstance(x, bool):
        return str(x)
    if isinstance(x, int):
        return str(x)
    if is_z3(x) and x.sort() == INT:
        # str(int): A3 (injective decimal rendering)
        return I.itos(x)
    if x is None:
        return "None"
    if is_z3(x) and x.sort() == REAL and hasattr(I, "repr_fn"):
        # str(float) is repr(float) in python 3 (A3)
        return I.repr_fn(x)
    return Opaque("str(%s)" % type(x).__name__)


def str_concat(I, parts):
    if all(isinstance(p, str) for p in parts):
        return "".join(parts)
    zs = []

    def flat(z):
        # associativity of concatenation: operands that are concatenations contribute their atoms, so that every
        # concatenation is one left-nested chain of atoms whatever the grouping in the source was
        if z3.is_app(z) and z.decl().eq(core.S_CAT) and z.num_args() == 2:
            flat(z.arg(0))
            flat(z.arg(1))
            return
        lv = core.lit_value(z)
        if lv is not None and zs and core.lit_value(zs[-1]) is not None:
            # adjacent literal atoms are one literal
            zs[-1] = core.str_lit(core.lit_value(zs[-1]) + lv)
        elif lv != "":
            zs.append(z)
    for p in parts:
        if isinstance(p, Opaque):
            return Opaque("concat")
        if isinstance(p, str):
            if p == "":
                continue
            flat(core.str_lit(p))
        else:
            flat(to_z3(p))
    if not zs:
        return ""
    if len(zs) == 1:
        return zs[0]
    r = zs[0]
    for z in zs[1:]:
        r = core.S_CAT(r, z)
    # A4: a concatenation of stripped strings is stripped (its first / last character is the first / last character
    # of a stripped non-empty part)
    kept = [p for p in parts if not (isinstance(p, str) and p == "")]
    if len(kept) >= 2 and all((p.strip() == p) if isinstance(p, str) else True for p in kept):
        sf0 = I.strip_fn
        cs = [sf0(to_z3(p)) == to_z3(p) for p in kept if not isinstance(p, str)]
        I.ctx.assume(z3.Implies(z3.And(cs) if cs else z3.BoolVal(True), sf0(r) == r))
    # A4: x + sep + y is stripped when x has no leading and y no trailing blank and sep holds a non-blank
    if len(zs) >= 3 and any(isinstance(p, str) and p.strip() != "" for p in parts[1:-1]):
        sf = I.strip_fn
        first, last = to_z3(parts[0]) if not isinstance(parts[0], str) else None, \
            to_z3(parts[-1]) if not isinstance(parts[-1], str) else None
        conds = []
        if first is not None:
            conds.append(sf(first) == first)
        elif parts[0].lstrip() != parts[0]:
            conds.append(z3.BoolVal(False))
        if last is not None:
            conds.append(sf(last) == last)
        elif parts[-1].rstrip() != parts[-1]:
            conds.append(z3.BoolVal(False))
        I.ctx.assume(z3.Implies(z3.And(conds) if conds else z3.BoolVal(True), sf(r) == r))
    return r


def str_format(I, fmt, args):
    """'%s ... %d' % args : concrete format string only"""
    if not isinstance(fmt, str):
        return Opaque("format")
    if not isinstance(args, tuple):
        args = (args,)
    out = []
    i = 0
    k = 0
    buf = ""
    while i < len(fmt):
        c = fmt[i]
        if c == "%" and i + 1 < len(fmt):
            d = fmt[i + 1]
            if d == "%":
                buf += "%"
                i += 2
                continue
            if d in "sd":
                if k >= len(args):
                    I.raise_exc(TYPE_ERR, "format args")
                a = args[k]
                k += 1
                if buf:
                    out.append(buf)
                    buf = ""
                if d == "d":
                    if is_z3(a) and a.sort() == REAL:
                        a = to_int_trunc(a)
                    elif isinstance(a, Fraction):
                        a = int(a)
                out.append(to_str(I, a))
                i += 2
                continue
            return Opaque("format")
        buf += c
        i += 1
    if buf:
        out.append(buf)
    if k != len(args):
        I.raise_exc(TYPE_ERR, "format args")
    return str_concat(I, out)


def to_int_trunc(x):
    x = as_real(x)
    return z3.If(x >= 0, z3.ToInt(x), -z3.ToInt(-x))


def round_half_even(x):
    x = as_real(x)
    f = z3.ToInt(x + z3.Q(1, 2))
    tie = z3.ToReal(f) == x + z3.Q(1, 2)
    return z3.If(z3.And(tie, f % 2 != 0), f - 1, f)


def py_round(v):
    import math
    f = Fraction(v)
    fl = math.floor(f)
    d = f - fl
    if d > Fraction(1, 2):
        return fl + 1
    if d < Fraction(1, 2):
        return fl
    return fl if fl % 2 == 0 else fl + 1


# ---------------------------------------------------------------------- containers


def etype_of_term(I, t):
    if t.etype is not None:
        return t.etype
    if isinstance(t, Conc) and t.items:
        return I.elem_type_of(t.items[0])
    return None


def list_len(I, box):
    its = I.items_of(box)
    if its is not None:
        return len(its)
    box.term.len_observed = True
    n = z3.simplify(box.term.length())
    if z3.is_int_value(n):
        return n.as_long()
    return n


def as_term(I, v):
    if isinstance(v, AList):
        return v.term
    its = I.try_iter_concrete(v)
    if its is None:
        raise Unsupported("not a list: %r" % (v,))
    return core.mk_conc(I, its)


def list_concat(I, a, b):
    ia, ib = I.items_of(a), I.items_of(b)
    if ia is not None and ib is not None:
        return I.new_list(ia + ib, a.is_tuple)
    et = etype_of_term(I, a.term) or etype_of_term(I, b.term)
    return I.new_alist(core.mk_concat(I, [a.term, b.term], et), a.is_tuple)


def list_extend(I, box, v):
    I.check_mutable(box)
    if box.is_tuple:
        raise Unsupported("tuple mutation")
    t = as_term(I, v)
    ia = I.items_of(box)
    if ia is not None and isinstance(t, Conc):
        box.term = core.mk_conc(I, ia + t.items)
    else:
        et = etype_of_term(I, box.term) or etype_of_term(I, t)
        box.term = core.mk_concat(I, [box.term, t], et)


def list_append(I, box, x):
    I.check_mutable(box)
    ia = I.items_of(box)
    if ia is not None:
        box.term = core.mk_conc(I, ia + [x])
    else:
        box.term = core.mk_concat(I, [box.term, core.mk_conc(I, [x])], etype_of_term(I, box.term))


def norm_index(I, i, n):
    """normalise a python index against length n (both may be symbolic); forks IndexError"""
    if isinstance(i, bool):
        i = int(i)
    if isinstance(i, int) and isinstance(n, int):
        if i < -n or i >= n:
            I.raise_exc(INDEX_ERR, "index %d of %d" % (i, n))
        return i % n if n else 0
    zi, zn = to_z3(i), to_z3(n)
    if zi.sort() != INT:
        I.raise_exc(TYPE_ERR, "list index is not an int")
    ok = z3.And(zi >= -zn, zi < zn)
    if not I.ctx.decide(ok, "index-in-range"):
        I.raise_exc(INDEX_ERR, "index out of range")
    if isinstance(i, int):
        return i if i >= 0 else z3.simplify(zn + i)
    return z3.If(zi >= 0, zi, zn + zi)


def getitem(I, obj, idx):
    from . import listops
    if isinstance(obj, Poison):
        raise Unsupported("loop-carried variable read (%s)" % obj.why)
    if isinstance(idx, slice):
        return listops.slice_value(I, obj, idx)
    if isinstance(obj, (tuple, NT)):
        items = list(obj) if isinstance(obj, tuple) else list(obj.vals)
        if isinstance(idx, int):
            if idx < -len(items) or idx >= len(items):
                I.raise_exc(INDEX_ERR)
            return items[idx]
        if is_z3(idx):
            k = norm_index(I, idx, len(items))
            out = None
            for j in range(len(items) - 1, -1, -1):
                out = items[j] if out is None else ite(I, k == j, items[j], out)
                if out is None:
                    raise Unsupported("symbolic index into heterogeneous tuple")
            return out
        I.raise_exc(TYPE_ERR, "tuple index")
    if isinstance(obj, AList):
        items = I.items_of(obj)
        if items is not None and isinstance(idx, int) and not isinstance(idx, bool):
            if idx < -len(items) or idx >= len(items):
                I.raise_exc(INDEX_ERR)
            return items[idx]
        return listops.abstract_getitem(I, obj, idx)
    if isinstance(obj, SDict):
        i = sd_find(I, obj, idx)
        if i is None:
            I.raise_exc(KEY_ERR, "key")
        return obj.pairs[i][1]
    if isinstance(obj, dict):
        if is_z3(idx) or any(is_z3(k) for k in obj):
            k = pd_find(I, obj, idx)
            if k is None:
                I.raise_exc(KEY_ERR, "key")
            return dict.__getitem__(obj, k)
        if idx not in obj:
            I.raise_exc(KEY_ERR, repr(idx))
        return obj[idx]
    if isinstance(obj, str):
        if isinstance(idx, int):
            if idx < -len(obj) or idx >= len(obj):
                I.raise_exc(INDEX_ERR)
            return obj[idx]
        raise Unsupported("symbolic string index")
    if isinstance(obj, bytes):
        raise Unsupported("bytes indexing")
    if isinstance(obj, SObj):
        f = obj.cls.lookup("__getitem__")
        if f is not None:
            return I.call(BoundMethod(obj, f), [idx], {})
    raise Unsupported("subscript of %r" % (obj,))


def setitem(I, obj, idx, v):
    if isinstance(obj, SDict):
        I.check_mutable(obj)
        i = sd_find(I, obj, idx)
        if i is None:
            obj.pairs.append((idx, v))
        else:
            obj.pairs[i] = (obj.pairs[i][0], v)
        return
    if isinstance(obj, dict):
        I.check_mutable(obj)
        if is_z3(idx) or any(is_z3(k) for k in obj):
            k = pd_find(I, obj, idx)
            dict.__setitem__(obj, idx if k is None else k, v)
            return
        obj[idx] = v
        return
    if isinstance(obj, AList):
        if obj.is_tuple:
            I.raise_exc(TYPE_ERR, "tuple item assignment")
        I.check_mutable(obj)
        items = I.items_of(obj)
        if items is not None and isinstance(idx, int):
            if idx < -len(items) or idx >= len(items):
                I.raise_exc(INDEX_ERR)
            new = list(items)
            new[idx] = v
            obj.term = core.mk_conc(I, new)
            return
        raise Unsupported("item assignment into an abstract list")
    raise Unsupported("item assignment on %r" % (obj,))


def contains(I, container, x):
    from . import listops
    if isinstance(container, str) and isinstance(x, str):
        return x in container
    if is_str(container) and is_str(x):
        return simp_bool(core.S_CONTAINS(to_z3(container), to_z3(x)))
    if isinstance(container, SDict):
        return listops.member_of_items(I, [k for k, _ in container.pairs], x)
    if isinstance(container, dict):
        if is_z3(x):
            return listops.member_of_items(I, list(container.keys()), x)
        return x in container
    items = tuple_items(I, container)
    if items is not None:
        return listops.member_of_items(I, items, x)
    if isinstance(container, AList):
        return listops.abstract_contains(I, container, x)
    if isinstance(container, V.DictItemsView) and container.kind == "keys":
        return contains(I, container.d, x)
    raise Unsupported("'in' on %r" % (container,))


def view_items(I, v):
    if isinstance(v.d, SDict):
        if v.kind == "keys":
            return [k for k, _ in v.d.pairs]
        if v.kind == "values":
            return [x for _, x in v.d.pairs]
        return list(v.d.pairs)
    if v.kind == "keys":
        return list(v.d.keys())
    if v.kind == "values":
        return list(v.d.values())
    return [(k, x) for k, x in v.d.items()]


# ---------------------------------------------------------------------- builtin functions


def _b(name):
    def deco(fn):
        fn._bname = name
        return fn
    return deco


def make_builtins(I):
    B = {}

    def reg(name, fn):
        B[name] = Builtin(name, fn)

    def b_len(I, args, kw):
        (v,) = args
        if isinstance(v, AList):
            return list_len(I, v)
        if isinstance(v, SDict):
            return len(v.pairs)
        if isinstance(v, V.DictItemsView) and isinstance(v.d, SDict):
            return len(v.d.pairs)
        if isinstance(v, (tuple, dict, str, bytes)):
            return len(v)
        if isinstance(v, NT):
            return len(v.vals)
        if is_z3(v) and v.sort() == STR:
            return core.S_LEN(v)
        if isinstance(v, SObj):
            f = v.cls.lookup("__len__")
            if f is not None:
                return I.call(BoundMethod(v, f), [], {})
        if isinstance(v, V.DictItemsView):
            return len(v.d)
        if isinstance(v, LazySeq):
            its = v.concrete_items(I)
            if its is not None:
                return len(its)
        if isinstance(v, V.SetVal):
            # number of distinct values of a list of known length (forks on equalities between symbolic values)
            its = I.try_iter_concrete(v.src)
            if its is not None:
                kept = []
                for x in its:
                    dup = False
                    for y in kept:
                        r = equals(I, x, y)
                        if r is True or (r is not False and I.ctx.decide(to_z3(r), "set: equal elements")):
                            dup = True
                            break
                    if not dup:
                        kept.append(x)
                return len(kept)
        raise Unsupported("len of %r" % (v,))
    reg("len", b_len)

    def b_abs(I, args, kw):
        (v,) = args
        if is_z3(v):
            return z3.If(v >= 0, v, -v)
        return abs(v)
    reg("abs", b_abs)

    def b_float(I, args, kw):
        (v,) = args
        if isinstance(v, bool):
            return Fraction(int(v))
        if isinstance(v, (int, Fraction)):
            return Fraction(v)
        if is_z3(v) and z3.is_arith(v):
            return as_real(v)
        if isinstance(v, str):
            try:
                return Fraction(float(v))
            except ValueError:
                I.raise_exc(VALUE_ERR, "float()")
        if is_z3(v) and v.sort() == STR:
            return I.str_to_num(v, "float")
        I.raise_exc(TYPE_ERR, "float()")

    def b_int(I, args, kw):
        (v,) = args
        if isinstance(v, bool):
            return int(v)
        if isinstance(v, int):
            return v
        if isinstance(v, Fraction):
            return int(v)
        if is_z3(v) and v.sort() == INT:
            return v
        if is_z3(v) and v.sort() == REAL:
            return to_int_trunc(v)
        if isinstance(v, str):
            try:
                return int(v)
            except ValueError:
                I.raise_exc(VALUE_ERR, "int()")
        if is_z3(v) and v.sort() == STR:
            return I.str_to_num(v, "int")
        I.raise_exc(TYPE_ERR, "int()")

    def b_str(I, args, kw):
        if not args:
            return ""
        return to_str(I, args[0])

    def b_bool(I, args, kw):
        (v,) = args
        b = I.as_bool_expr(v)
        if b is not None and is_z3(v):
            return v
        return I.truth(v, "bool()")

    def b_round(I, args, kw):
        if len(args) != 1:
            raise Unsupported("round with ndigits")
        (v,) = args
        if is_z3(v):
            if v.sort() == INT:
                return v
            return round_half_even(v)
        if isinstance(v, int):
            return v
        return py_round(v)
    reg("round", b_round)

    def b_minmax(is_min):
        def f(I, args, kw):
            from . import listops
            key = kw.get("key")
            if len(args) == 1:
                v = args[0]
                items = I.try_iter_concrete(v)
                if items is None:
                    return listops.abstract_minmax(I, v, is_min, key)
            else:
                items = list(args)
            if not items:
                I.raise_exc(VALUE_ERR, "min/max of empty sequence")
            best = items[0]
            bk = I.call(key, [best], {}) if key else best
            for it in items[1:]:
                k = I.call(key, [it], {}) if key else it
                c = scalar_or_seq_lt(I, k, bk, True) if is_min else scalar_or_seq_lt(I, bk, k, True)
                if c is True:
                    best, bk = it, k
                elif c is False:
                    pass
                else:
                    nb = ite(I, c, it, best)
                    nk = ite(I, c, k, bk)
                    if nb is None or nk is None:
                        if I.ctx.decide(c, "min/max"):
                            best, bk = it, k
                    else:
                        best, bk = nb, nk
            return best
        return f
    reg("min", b_minmax(True))
    reg("max", b_minmax(False))

    def b_sum(I, args, kw):
        v = args[0]
        items = I.try_iter_concrete(v)
        if items is None:
            from . import listops
            return listops.abstract_sum(I, v)
        acc = args[1] if len(args) > 1 else 0
        for it in items:
            acc = binop(I, ast.Add(), acc, it)
        return acc
    reg("sum", b_sum)

    def b_anyall(is_any):
        def f(I, args, kw):
            from . import listops
            (v,) = args
            items = I.try_iter_concrete(v)
            if items is None:
                return listops.abstract_anyall(I, v, is_any)
            acc = []
            for it in items:
                b = I.as_bool_expr(it)
                if b is None:
                    t = I.truth(it)
                    b = z3.BoolVal(t)
                acc.append(b)
            if not acc:
                return not is_any
            return simp_bool(z3.Or(acc) if is_any else z3.And(acc))
        return f
    reg("any", b_anyall(True))
    reg("all", b_anyall(False))

    def b_sorted(I, args, kw):
        from . import listops
        if kw:
            raise Unsupported("sorted with key/reverse")
        v = args[0]
        if isinstance(v, AList):
            nb = I.new_alist(v.term)
        else:
            items = I.try_iter_concrete(v)
            if items is None:
                if isinstance(v, SetVal):
                    nb = I.new_alist(listops.dedup_term(I, v.src.term))
                else:
                    raise Unsupported("sorted of %r" % (v,))
            else:
                nb = I.new_list(list(items))
        listops.sort_in_place(I, nb)
        return nb
    reg("sorted", b_sorted)

    def b_list(I, args, kw):
        if not args:
            return I.new_list([])
        v = args[0]
        if isinstance(v, AList):
            return I.new_alist(v.term)
        if isinstance(v, SetVal):
            from . import listops
            return I.new_alist(listops.dedup_term(I, v.src.term, ordered=False))
        items = I.try_iter_concrete(v)
        if items is None:
            from . import loops
            return loops.materialize(I, v)
        return I.new_list(list(items))

    def b_tuple(I, args, kw):
        if not args:
            return ()
        v = args[0]
        if isinstance(v, (tuple,)):
            return v
        if isinstance(v, NT):
            return tuple(v.vals)
        if isinstance(v, AList):
            its = I.items_of(v)
            if its is not None and all(not isinstance(x, (SObj,)) for x in its) and False:
                return tuple(its)
            return I.new_alist(v.term, is_tuple=True)
        items = I.try_iter_concrete(v)
        if items is None:
            raise Unsupported("tuple of %r" % (v,))
        return I.new_alist(core.mk_conc(I, list(items)), is_tuple=True)

    def b_set(I, args, kw):
        if not args:
            raise Unsupported("empty set")
        v = args[0]
        if isinstance(v, AList):
            return SetVal(v)
        items = I.try_iter_concrete(v)
        if items is None:
            raise Unsupported("set of %r" % (v,))
        return SetVal(I.new_list(list(items)))

    def b_dict(I, args, kw):
        from .interp import PDict
        d = PDict()
        d.owner = id(I.ctx)
        if args:
            src = args[0]
            if isinstance(src, dict):
                d.update(src)
            else:
                for k, v in I.iter_concrete(src):
                    d[k] = v
        d.update(kw)
        return d

    def b_range(I, args, kw):
        return LazySeq("range", list(args))
    reg("range", b_range)

    def b_enumerate(I, args, kw):
        start = args[1] if len(args) > 1 else kw.get("start", 0)
        return LazySeq("enumerate", [args[0]], start=start)
    reg("enumerate", b_enumerate)

    def b_zip(I, args, kw):
        return LazySeq("zip", list(args))
    reg("zip", b_zip)

    def b_reversed(I, args, kw):
        return LazySeq("reversed", [args[0]])
    reg("reversed", b_reversed)

    def b_filter(I, args, kw):
        from . import loops
        fn, seq = args
        return loops.filter_value(I, fn, seq)
    reg("filter", b_filter)

    def b_isinstance(I, args, kw):
        v, c = args
        classes = list(c) if isinstance(c, tuple) else [c]
        return any(isinstance_one(I, v, k) for k in classes)
    reg("isinstance", b_isinstance)

    def b_type(I, args, kw):
        (v,) = args
        return type_of(I, v)
    reg("type", b_type)

    def b_hasattr(I, args, kw):
        v, n = args
        try:
            I.getattr(v, n)
            return True
        except (Unsupported, Raise):
            return False
    reg("hasattr", b_hasattr)

    def b_super(I, args, kw):
        if len(args) != 2:
            raise Unsupported("zero-argument super()")
        from .interp import SuperProxy
        return SuperProxy(args[0], args[1])
    reg("super", b_super)

    def b_repr(I, args, kw):
        (v,) = args
        return I.num_repr(v)
    reg("repr", b_repr)

    B["int"] = BuiltinClass("int", (OBJECT_CLASS,), ctor=b_int)
    B["float"] = BuiltinClass("float", (OBJECT_CLASS,), ctor=b_float)
    B["str"] = BuiltinClass("str", (OBJECT_CLASS,), ctor=b_str)
    B["bool"] = BuiltinClass("bool", (OBJECT_CLASS,), ctor=b_bool)
    B["list"] = BuiltinClass("list", (OBJECT_CLASS,), ctor=b_list)
    B["tuple"] = TUPLE_CLASS
    TUPLE_CLASS.ctor = b_tuple
    B["dict"] = BuiltinClass("dict", (OBJECT_CLASS,), ctor=b_dict)
    B["set"] = BuiltinClass("set", (OBJECT_CLASS,), ctor=b_set)
    B["bytes"] = BYTES_CLASS
    B["object"] = OBJECT_CLASS
    B["None"] = None
    B["True"] = True
    B["False"] = False
    for n, c in EXC_CLASSES.items():
        B[n] = c
    I.type_classes = {"int": B["int"], "float": B["float"], "str": B["str"], "bool": B["bool"],
                      "list": B["list"], "tuple": B["tuple"], "dict": B["dict"]}

    # engine helpers attached to the interpreter ------------------------------
    def fp(expr):
        """hook for the RND float mode: every float operation result passes through here"""
        if I.float_mode == "RND":
            return I.rnd(expr)
        return expr
    I.fp = fp

    def num_repr(v):
        # A3: repr(float) / "%d" are abstract renderings with the CPython guarantees below
        if isinstance(v, Fraction):
            v = as_real(v)
        if is_z3(v) and v.sort() == REAL:
            r = I.repr_fn(v)
            ctx = I.ctx
            key = ("repr", v.get_id())
            if key not in ctx.hc:
                ctx.hc[key] = True
                av = z3.If(v >= 0, v, -v)
                ctx.assume(z3.And(I.is_float_str(r), I.dec_real(r) == v,      # float(repr(x)) == x
                                  z3.Not(I.is_int_str(r)),                    # int(repr(x)) raises ValueError
                                  # positional notation (always with a '.') for 1e-4 <= |x| < 1e16, and for 0.0
                                  z3.Implies(z3.Or(v == 0, z3.And(av >= z3.Q(1, 10000), av < z3.Q(10 ** 16, 1))),
                                             core.S_CONTAINS(r, core.str_lit(".")))))
            return r
        return to_str(I, v)

    def itos(n):
        r = core.S_ITOS(n)
        ctx = I.ctx
        key = ("itos", n.get_id())
        if key not in ctx.hc:
            ctx.hc[key] = True
            ctx.assume(z3.And(I.is_int_str(r), I.dec_int(r) == n, I.is_float_str(r), I.dec_real(r) == z3.ToReal(n),
                              z3.Not(core.S_CONTAINS(r, core.str_lit(".")))))
        return r
    I.itos = itos
    I.repr_fn = z3.Function("Repr", REAL, STR)
    I.num_repr = num_repr
    I.dec_real = z3.Function("FloatOf", STR, REAL)
    I.dec_int = z3.Function("IntOf", STR, INT)
    I.is_float_str = z3.Function("IsFloatStr", STR, BOOL)
    I.is_int_str = z3.Function("IsIntStr", STR, BOOL)

    def str_to_num(s, kind):
        # float(s)/int(s) on a symbolic string: ValueError unless s is a numeral of that kind (A3)
        okf = I.is_float_str(s) if kind == "float" else I.is_int_str(s)
        if not I.ctx.decide(okf, "%s(str) parses" % kind):
            I.raise_exc(VALUE_ERR, "%s() of a non-numeral" % kind)
        return I.dec_real(s) if kind == "float" else I.dec_int(s)
    I.str_to_num = str_to_num
    I.rank_fn = z3.Function("strrank", STR, REAL)

    def str_rank(s):
        zs = to_z3(s)
        r = I.rank_fn(zs)
        ctx = I.ctx
        seen = ctx.__dict__.setdefault("rank_terms", [])
        for o in seen:
            if o.eq(zs):
                return r
        for o in seen:
            ctx.assume((I.rank_fn(o) == r) == (o == zs))
            lo, lz = core.lit_value(o), core.lit_value(zs)
            if lo is not None and lz is not None:
                ctx.assume((I.rank_fn(o) < r) == z3.BoolVal(lo < lz))
        seen.append(zs)
        return r
    I.str_rank = str_rank
    return B


def isinstance_one(I, v, k):
    t = type_of(I, v)
    if isinstance(k, (RepoClass, NTClass, BuiltinClass)):
        if k.name == "float" and isinstance(k, BuiltinClass):
            return t.name == "float" if isinstance(t, BuiltinClass) else False
        return is_subclass(t, k) if not (isinstance(k, BuiltinClass) and isinstance(t, BuiltinClass)) \
            else (t.name == k.name or any(b.name == k.name for b in t.mro()))
    raise Unsupported("isinstance against %r" % (k,))


def type_of(I, v):
    T = I.type_classes
    if isinstance(v, (SObj, NT, ExcInst)):
        return v.cls
    if v is None:
        return NONE_CLASS
    if isinstance(v, bool) or (is_z3(v) and z3.is_bool(v)):
        return BOOL_CLASS
    if isinstance(v, int) or (is_z3(v) and v.sort() == INT):
        return T["int"]
    if isinstance(v, (Fraction, float)) or (is_z3(v) and v.sort() == REAL):
        return T["float"]
    if is_str(v):
        return T["str"]
    if isinstance(v, tuple):
        return T["tuple"]
    if isinstance(v, AList):
        return T["tuple"] if v.is_tuple else T["list"]
    if isinstance(v, (dict, SDict)):
        return T["dict"]
    if isinstance(v, bytes):
        return BYTES_CLASS
    if isinstance(v, (RepoFunction, BoundMethod, Builtin)):
        return FUNC_CLASS
    if isinstance(v, Poison):
        raise Unsupported("loop-carried variable read (%s)" % v.why)
    raise Unsupported("type of %r" % (v,))


# ---------------------------------------------------------------------- methods of builtin types


def method(I, obj, name):
    from . import listops
    from .interp import SuperProxy

    def mk(fn):
        return BoundMethod(obj, Builtin(name, fn))

    if isinstance(obj, SuperProxy):
        mro = obj.obj.cls.mro() if isinstance(obj.obj, (SObj, NT)) else obj.obj.mro()
        i = mro.index(obj.cls)
        for c in mro[i + 1:]:
            ns = getattr(c, "ns", None)
            if ns and name in ns:
                return I.bind(obj.obj, ns[name])
        if name == "__init__":
            return Builtin("object.__init__", lambda I, a, k: None)
        raise Unsupported("super().%s" % name)
    if isinstance(obj, AList):
        return listops.list_method(I, obj, name)
    from .loops import Recorder
    if isinstance(obj, Recorder):
        return listops.recorder_method(I, obj, name)
    if is_str(obj):
        return str_method(I, obj, name)
    if isinstance(obj, SDict):
        return sdict_method(I, obj, name)
    if isinstance(obj, dict):
        return dict_method(I, obj, name)
    if isinstance(obj, NT) or isinstance(obj, tuple):
        if name == "index" or name == "count":
            return listops.list_method(I, I.new_list(tuple_items(I, obj), True), name)
    if isinstance(obj, BuiltinClass) or isinstance(obj, NTClass):
        if name == "validOptions":
            return None
    if isinstance(obj, ExcInst):
        if name == "args":
            return obj.args
    if isinstance(obj, bytes):
        raise Unsupported("bytes method %s" % name)
    return None


def str_method(I, s, name):
    def mk(fn):
        return BoundMethod(s, Builtin("str." + name, fn))

    if name == "strip":
        def f(I, args, kw):
            (x,) = args[:1]
            if len(args) > 1:
                raise Unsupported("strip(chars)")
            if isinstance(x, str):
                return x.strip()
            return I.strip_of(x)
        return mk(f)
    if name == "join":
        def f(I, args, kw):
            from . import listops
            sep, seq = args
            items = I.try_iter_concrete(seq)
            if items is None:
                return listops.abstract_join(I, sep, seq)
            parts = []
            for k, it in enumerate(items):
                if k:
                    parts.append(sep)
                if not is_str(it):
                    if isinstance(it, Opaque):
                        return Opaque("join")
                    I.raise_exc(TYPE_ERR, "join of non-str")
                parts.append(it)
            return str_concat(I, parts)
        return mk(f)
    if name == "replace":
        def f(I, args, kw):
            x, a, b = args
            if isinstance(x, str) and isinstance(a, str) and isinstance(b, str):
                return x.replace(a, b)
            return core.S_REPLACE(to_z3(x), to_z3(a), to_z3(b))
        return mk(f)
    if name in ("startswith", "endswith"):
        def f(I, args, kw):
            x, a = args
            if isinstance(x, str) and isinstance(a, str):
                return getattr(x, name)(a)
            return simp_bool(core.S_PREFIX(to_z3(a), to_z3(x)) if name == "startswith" else core.S_SUFFIX(to_z3(a), to_z3(x)))
        return mk(f)
    if name in ("lower", "upper", "split", "splitlines", "rstrip", "lstrip", "index", "find", "rfind", "format",
                "encode", "isdigit", "count"):
        def f(I, args, kw):
            x = args[0]
            if all(isinstance(a, (str, int)) for a in args) and not kw:
                try:
                    r = getattr(x, name)(*args[1:])
                except ValueError:
                    I.raise_exc(VALUE_ERR, "str.%s" % name)
                if isinstance(r, list):
                    return I.new_list(r)
                return r
            raise Unsupported("str.%s on symbolic string" % name)
        return mk(f)
    return None


def sdict_method(I, d, name):
    def mk(fn):
        return BoundMethod(d, Builtin("odict." + name, fn))

    if name in ("keys", "values", "items"):
        return mk(lambda I, args, kw: V.DictItemsView(args[0], name))
    if name == "pop":
        def f(I, args, kw):
            dd, k = args[0], args[1]
            I.check_mutable(dd)
            i = sd_find(I, dd, k)
            if i is None:
                if len(args) > 2:
                    return args[2]
                I.raise_exc(KEY_ERR, "key")
            return dd.pairs.pop(i)[1]
        return mk(f)
    if name == "get":
        def f(I, args, kw):
            i = sd_find(I, args[0], args[1])
            return args[0].pairs[i][1] if i is not None else (args[2] if len(args) > 2 else None)
        return mk(f)
    return None


def dict_method(I, d, name):
    def mk(fn):
        return BoundMethod(d, Builtin("dict." + name, fn))

    if name in ("keys", "values", "items"):
        return mk(lambda I, args, kw: V.DictItemsView(args[0], name))
    if name == "get":
        def f(I, args, kw):
            dd, k = args[0], args[1]
            if is_z3(k):
                raise Unsupported("symbolic dict.get")
            return dd.get(k, args[2] if len(args) > 2 else None)
        return mk(f)
    if name == "pop":
        def f(I, args, kw):
            dd, k = args[0], args[1]
            I.check_mutable(dd)
            if is_z3(k):
                raise Unsupported("symbolic dict.pop")
            if k not in dd:
                if len(args) > 2:
                    return args[2]
                I.raise_exc(KEY_ERR, repr(k))
            return dd.pop(k)
        return mk(f)
    if name == "update":
        def f(I, args, kw):
            I.check_mutable(args[0])
            args[0].update(args[1])
        return mk(f)
    if name == "copy":
        def f(I, args, kw):
            from .interp import PDict
            n = PDict(args[0])
            n.owner = id(I.ctx)
            return n
        return mk(f)
    return None


# ---------------------------------------------------------------------- stub modules


def stub_module(I, modname):
    m = Module(modname)
    ns = m.ns

    def reg(name, fn):
        ns[name] = Builtin(modname + "." + name, fn)

    if modname == "math":
        def isclose(I, args, kw):
            a, b = args[0], args[1]
            rel = kw.get("rel_tol", Fraction(1, 10 ** 9))
            at = kw.get("abs_tol", 0)
            if not (is_num(a) and is_num(b)):
                I.raise_exc(TYPE_ERR, "isclose of non-numbers")
            if not any(is_z3(x) for x in (a, b, rel, at)):
                a, b = Fraction(a), Fraction(b)
                return abs(a - b) <= max(Fraction(rel) * max(abs(a), abs(b)), Fraction(at))
            za, zb = as_real(a), as_real(b)
            ab = lambda x: z3.If(x >= 0, x, -x)
            mx = lambda x, y: z3.If(x >= y, x, y)
            return simp_bool(ab(za - zb) <= mx(as_real(rel) * mx(ab(za), ab(zb)), as_real(at)))
        reg("isclose", isclose)

        def floor(I, args, kw):
            (v,) = args
            if is_z3(v):
                return z3.ToInt(as_real(v))
            import math
            return math.floor(v)
        reg("floor", floor)

        def ceil(I, args, kw):
            (v,) = args
            if is_z3(v):
                return -z3.ToInt(-as_real(v))
            import math
            return math.ceil(v)
        reg("ceil", ceil)
        sq = z3.Function("sqrt", REAL, REAL)
        reg("sqrt", lambda I, args, kw: sq(as_real(args[0])))
        lg = z3.Function("log10", REAL, REAL)
        reg("log10", lambda I, args, kw: lg(as_real(args[0])))
        sn = z3.Function("sin", REAL, REAL)
        reg("sin", lambda I, args, kw: sn(as_real(args[0])))
        ns["pi"] = Fraction(3141592653589793, 10 ** 15)
    elif modname == "copy":
        from . import listops
        reg("deepcopy", lambda I, args, kw: listops.deepcopy(I, args[0], {}))
        reg("copy", lambda I, args, kw: listops.shallowcopy(I, args[0]))
    elif modname == "collections":
        def namedtuple(I, args, kw):
            name, fields = args
            fl = I.iter_concrete(fields) if not isinstance(fields, str) else fields.split()
            return NTClass(name, fl)
        reg("namedtuple", namedtuple)

        def ordered(I, args, kw):
            d = SDict()
            d.owner = id(I.ctx)
            return d
        ns["OrderedDict"] = BuiltinClass("OrderedDict", (DICT_CLASS,), ctor=ordered)
    elif modname == "typing" or modname == "typing_extensions":
        class _Any:
            pass
        for n in ("List", "Optional", "Tuple", "Sequence", "Callable", "Any", "Dict", "Union", "Type", "TypeVar",
                  "Iterator", "NoReturn", "Match", "Literal", "Final"):
            ns[n] = Opaque("typing." + n)
        ns["TypeVar"] = Builtin("TypeVar", lambda I, a, k: Opaque("TypeVar"))
    elif modname == "abc":
        ns["ABC"] = ABC_CLASS
        ns["abstractmethod"] = Opaque("abstractmethod")
    elif modname == "itertools":
        reg("zip_longest", lambda I, args, kw: LazySeq("zip_longest", list(args)))
    elif modname == "functools":
        reg("partial", lambda I, args, kw: Partial(args[0], args[1:], kw))
    elif modname == "statistics":
        for fn in ("median", "mean", "stdev", "pstdev", "variance", "pvariance"):
            def mkf(fn):
                def f(I, args, kw):
                    from . import listops
                    return listops.stat_fn(I, fn, args[0])
                return f
            reg(fn, mkf(fn))
    elif modname == "json":
        reg("dumps", lambda I, args, kw: (_ for _ in ()).throw(Unsupported("json.dumps")))
        reg("loads", lambda I, args, kw: (_ for _ in ()).throw(Unsupported("json.loads")))
    elif modname == "re":
        for fn in ("findall", "search", "split", "sub", "match"):
            reg(fn, lambda I, args, kw: (_ for _ in ()).throw(Unsupported("re.*")))
        ns["I"] = 2
        ns["MULTILINE"] = 8
        ns["DOTALL"] = 16
    else:
        m.opaque = True
    return m


def run_generator(I, f, env):
    raise Unsupported("generator function %s" % f.qualname)
