#!/usr/bin/env python3
"""Regenerate the per-property table of DESIGN.md section 9.4 from the evidence files (between the markers
<!-- TABLE-9.4-BEGIN --> and <!-- TABLE-9.4-END -->)."""
import json, os, re
ROOT = os.path.dirname(os.path.dirname(os.path.abspath(__file__)))


def short(fn):
    parts = fn.split(".")
    if parts[-1] == "__init__":
        return parts[-2] + "()"
    if parts[-2][:1].isupper():
        return parts[-2] + "." + parts[-1]
    return parts[-1]


def human(n):
    return "%.1f M" % (n / 1e6) if n >= 1e6 else ("%d k" % round(n / 1000) if n >= 10000 else str(n))


rows = ["| id | level | functions under contract (every obligation discharged) | obligations | solver s | bounded stand-ins (cases) | KF |",
        "|---|---|---|---|---|---|---|"]
for i in range(1, 21):
    pid = "C%02d" % i
    e = json.load(open(os.path.join(ROOT, "evidence", pid + ".json")))
    c = e["coverage"]
    fns = ", ".join("`%s`" % short(f) for f in c["functions_under_contract"])
    b = "; ".join("`%s` (%s)" % (x.get("name"), human(x.get("cases", 0))) for x in c["bounded"])
    kf = ", ".join(sorted(k["id"].split("-")[0] for k in c["known_findings"])) or "–"
    assert c["obligations"] == c["discharged"], pid
    rows.append("| %s | %s | %s | %d | %s | %s | %s |" % (pid, e["level"], fns, c["obligations"], c["solver_s"], b, kf))
import importlib.util
spec = importlib.util.spec_from_file_location("props", os.path.join(ROOT, "pyvc", "props.py"))
props = importlib.util.module_from_spec(spec)
spec.loader.exec_module(props)
rows.append("")
rows.append("What the checks decide, per property (the text each evidence file carries as `coverage.explanation`):")
rows.append("")
for i in range(1, 21):
    pid = "C%02d" % i
    rows.append("* **%s** — %s" % (pid, re.sub(r"\s+", " ", props.PLAN[pid]["explanation"])))
table = "\n".join(rows)
p = os.path.join(ROOT, "DESIGN.md")
s = open(p).read()
a, b = "<!-- TABLE-9.4-BEGIN -->", "<!-- TABLE-9.4-END -->"
if a in s:
    s = s[:s.index(a) + len(a)] + "\n" + table + "\n" + s[s.index(b):]
    open(p, "w").write(s)
    print("DESIGN.md table updated")
else:
    print(table)
