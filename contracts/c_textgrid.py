"""Sidecar contracts for praatio/data_classes/textgrid.py (C12, C13).

The number of tiers already in the textgrid is enumerated (0..MAXK); tier names, indices, spans and all tier
contents are symbolic.  This bound on the tier COUNT is stated in the evidence (the map laws themselves do not
depend on more than the tiers involved)."""
import z3

from pyvc.contracts import contract
from contracts.c_tiers import wf_interval_tier, wf_point_tier

TG = "praatio.data_classes.textgrid.Textgrid"
MAXK = 2


def textgrid(S, name, k, span="sym"):
    from pyvc.builtins_model import SDict
    d = SDict()
    d.owner = "input"
    names = []
    for i in range(k):
        t = wf_interval_tier(S, "%s.t%d" % (name, i)) if i % 2 == 0 else wf_point_tier(S, "%s.t%d" % (name, i))
        names.append(t.attrs["name"])
        d.pairs.append((t.attrs["name"], t))
    for i in range(k):
        for j in range(i + 1, k):
            S.ctx.assume(names[i] != names[j])
    lo = None if span is None else S.real(name + ".min")
    hi = None if span is None else S.real(name + ".max")
    if span is not None:
        # class invariant of a reachable Textgrid: its span contains every tier's span (addTier only widens)
        for _, t in d.pairs:
            S.ctx.assume(z3.And(lo <= t.attrs["minTimestamp"], t.attrs["maxTimestamp"] <= hi))
        S.ctx.assume(lo <= hi)
    return S.obj(TG, _tierDict=d, minTimestamp=lo, maxTimestamp=hi)


KS = list(range(MAXK + 1))

contract(
    TG + ".addTier", serves=["C12", "C13"], spec_module="spec.textgrids",
    configs={"k": KS, "tierIndex": [None, "sym"], "reportingMode": ["silence", "warning", "error", "bogus"],
             "span": ["sym", None]},
    skip_config=lambda c: c["span"] is None and c["k"] > 0,
    inputs=lambda S, cfg: dict(self=textgrid(S, "self", cfg["k"], cfg["span"]), tier=wf_interval_tier(S, "tier"),
                               tierIndex=None if cfg["tierIndex"] is None else S.int("tierIndex"),
                               reportingMode=cfg["reportingMode"]),
    spec="spec.textgrids.Textgrid_addTier",
)

contract(
    TG + ".removeTier", serves=["C12", "C13"], spec_module="spec.textgrids",
    configs={"k": KS},
    inputs=lambda S, cfg: dict(self=textgrid(S, "self", cfg["k"]), name=S.str("name")),
    spec="spec.textgrids.Textgrid_removeTier",
)

contract(
    TG + ".renameTier", serves=["C12", "C13"], spec_module="spec.textgrids",
    configs={"k": KS},
    inputs=lambda S, cfg: dict(self=textgrid(S, "self", cfg["k"]), oldName=S.str("oldName"), newName=S.str("newName")),
    spec="spec.textgrids.Textgrid_renameTier",
)

contract(
    TG + ".replaceTier", serves=["C12", "C13"], spec_module="spec.textgrids",
    configs={"k": KS, "reportingMode": ["silence", "warning", "error"]},
    inputs=lambda S, cfg: dict(self=textgrid(S, "self", cfg["k"]), name=S.str("name"),
                               newTier=wf_interval_tier(S, "newTier"), reportingMode=cfg["reportingMode"]),
    spec="spec.textgrids.Textgrid_replaceTier",
)


def valid_textgrid(S, name, k):
    """a textgrid whose tiers all share its span (validate() True), as produced by openTextgrid / crop etc."""
    tg = textgrid(S, name, k)
    for _, t in tg.attrs["_tierDict"].pairs:
        S.ctx.assume(z3.And(t.attrs["minTimestamp"] == tg.attrs["minTimestamp"],
                            t.attrs["maxTimestamp"] == tg.attrs["maxTimestamp"]))
    return tg


contract(
    TG + ".crop", serves=["C12", "C06", "C13"], spec_module="spec.textgrids",
    configs={"k": [0, 1, 2], "mode": ["strict", "lax", "truncated", "bogus"], "rebaseToZero": [True, False]},
    inputs=lambda S, cfg: dict(self=valid_textgrid(S, "self", cfg["k"]), cropStart=S.real("cropStart"),
                               cropEnd=S.real("cropEnd"), mode=cfg["mode"], rebaseToZero=cfg["rebaseToZero"]),
    requires=["0 <= cropStart", "cropEnd <= 1e15"],
    spec="spec.textgrids.Textgrid_crop", frame=["self"],
    ensures=[("same-names", "result.tierNames == self.tierNames"),
             ("tiers-share-span", "mode == 'lax' or forall(result.tiers, lambda t: t.minTimestamp == result.minTimestamp "
                                  "and t.maxTimestamp == result.maxTimestamp)")],
)

contract(
    TG + ".insertSpace", serves=["C12", "C08", "C13"], spec_module="spec.textgrids",
    configs={"k": [0, 1, 2], "collisionMode": ["stretch", "split", "no_change", "error", "bogus"]},
    inputs=lambda S, cfg: dict(self=valid_textgrid(S, "self", cfg["k"]), start=S.real("start"),
                               duration=S.real("duration"), collisionMode=cfg["collisionMode"]),
    requires=["0 <= start", "start <= 1e15", "0 < duration", "duration <= 1e15"],
    spec="spec.textgrids.Textgrid_insertSpace", frame=["self"],
    ensures=[("same-names", "result.tierNames == self.tierNames"),
             ("tiers-share-span", "forall(result.tiers, lambda t: t.minTimestamp == result.minTimestamp "
                                  "and t.maxTimestamp == result.maxTimestamp)")],
)

contract(
    TG + ".editTimestamps", serves=["C12", "C09", "C13"], spec_module="spec.textgrids",
    configs={"k": [0, 1, 2], "reportingMode": ["silence", "warning", "error", "bogus"]},
    inputs=lambda S, cfg: dict(self=valid_textgrid(S, "self", cfg["k"]), offset=S.real("offset"),
                               reportingMode=cfg["reportingMode"]),
    requires=["-1e15 <= offset", "offset <= 1e15"],
    spec="spec.textgrids.Textgrid_editTimestamps", frame=["self"],
    ensures=[("same-names", "result.tierNames == self.tierNames")],
)
