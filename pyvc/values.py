"""Run-time values of the symbolic interpreter."""
import z3

from .core import Unsupported, Fraction


class Poison:
    """Value of a variable that may carry state across iterations of an abstracted loop."""

    def __init__(self, why):
        self.why = why

    def __repr__(self):
        return "<poison %s>" % self.why


class Opaque:
    """A value the engine does not interpret (e.g. a message string of an exception)."""

    def __init__(self, what="?"):
        self.what = what

    def __repr__(self):
        return "<opaque %s>" % self.what


class Module:
    def __init__(self, name):
        self.name = name
        self.ns = {}

    def __repr__(self):
        return "<module %s>" % self.name


class Builtin:
    def __init__(self, name, fn):
        self.name = name
        self.fn = fn

    def __repr__(self):
        return "<builtin %s>" % self.name


class BuiltinClass:
    """int/float/str/tuple/list/dict/... and builtin exception classes."""

    def __init__(self, name, bases=(), ctor=None):
        self.name = name
        self.bases = tuple(bases)
        self.ctor = ctor

    def mro(self):
        out = [self]
        for b in self.bases:
            for c in b.mro():
                if c not in out:
                    out.append(c)
        return out

    def __repr__(self):
        return "<class %s>" % self.name


class RepoFunction:
    def __init__(self, node, module, qualname, cls=None, closure=None):
        self.node = node
        self.module = module
        self.qualname = qualname
        self.cls = cls
        self.closure = closure  # enclosing local env for nested defs / lambdas
        self.is_property = False
        self.is_classmethod = False
        self.is_staticmethod = False
        self.defaults = None

    def __repr__(self):
        return "<function %s>" % self.qualname


class BoundMethod:
    def __init__(self, self_obj, func):
        self.self_obj = self_obj
        self.func = func

    def __repr__(self):
        return "<bound %s>" % (self.func,)


class RepoClass:
    def __init__(self, name, module, bases, qualname):
        self.name = name
        self.module = module
        self.bases = tuple(bases)
        self.qualname = qualname
        self.ns = {}

    def mro(self):
        out = [self]
        for b in self.bases:
            for c in (b.mro() if hasattr(b, "mro") else [b]):
                if c not in out:
                    out.append(c)
        return out

    def lookup(self, name):
        for c in self.mro():
            ns = getattr(c, "ns", None)
            if ns is not None and name in ns:
                return ns[name]
        return None

    def nt_fields(self):
        for c in self.mro():
            if isinstance(c, NTClass):
                return c.fields
        return None

    def __repr__(self):
        return "<class %s>" % self.qualname


class NTClass:
    """collections.namedtuple class."""

    def __init__(self, name, fields):
        self.name = name
        self.fields = tuple(fields)
        self.bases = ()
        self.ns = {}

    def mro(self):
        return [self, TUPLE_CLASS, OBJECT_CLASS]

    def __repr__(self):
        return "<namedtuple %s>" % self.name


class NT:
    """Instance of a namedtuple (sub)class: immutable."""

    __slots__ = ("cls", "vals")

    def __init__(self, cls, vals):
        self.cls = cls
        self.vals = tuple(vals)

    def fields(self):
        return self.cls.nt_fields() if isinstance(self.cls, RepoClass) else self.cls.fields

    def __repr__(self):
        return "%s%r" % (self.cls.name, self.vals)


class SObj:
    def __init__(self, cls):
        self.cls = cls
        self.attrs = {}

    def __repr__(self):
        return "<%s object>" % self.cls.name


class ExcInst:
    """Instance of a builtin exception class."""

    def __init__(self, cls, args=()):
        self.cls = cls
        self.args = args

    def __repr__(self):
        return "%s()" % self.cls.name


class SetVal:
    """set(...) of an abstract list: only sorted(list(set(x))) style uses are supported."""

    def __init__(self, src):
        self.src = src


class DictItemsView:
    def __init__(self, d, kind):
        self.d = d
        self.kind = kind


OBJECT_CLASS = BuiltinClass("object")
TUPLE_CLASS = BuiltinClass("tuple", (OBJECT_CLASS,))
LIST_CLASS = BuiltinClass("list", (OBJECT_CLASS,))
DICT_CLASS = BuiltinClass("dict", (OBJECT_CLASS,))
STR_CLASS = BuiltinClass("str", (OBJECT_CLASS,))
INT_CLASS = BuiltinClass("int", (OBJECT_CLASS,))
FLOAT_CLASS = BuiltinClass("float", (OBJECT_CLASS,))
BOOL_CLASS = BuiltinClass("bool", (INT_CLASS,))
BYTES_CLASS = BuiltinClass("bytes", (OBJECT_CLASS,))
SET_CLASS = BuiltinClass("set", (OBJECT_CLASS,))
NONE_CLASS = BuiltinClass("NoneType", (OBJECT_CLASS,))
FUNC_CLASS = BuiltinClass("function", (OBJECT_CLASS,))
ABC_CLASS = BuiltinClass("ABC", (OBJECT_CLASS,))

BASE_EXC = BuiltinClass("BaseException", (OBJECT_CLASS,))
EXC = BuiltinClass("Exception", (BASE_EXC,))
EXC_CLASSES = {"BaseException": BASE_EXC, "Exception": EXC}


def _exc(name, base):
    c = BuiltinClass(name, (base,))
    EXC_CLASSES[name] = c
    return c


LOOKUP_ERR = _exc("LookupError", EXC)
INDEX_ERR = _exc("IndexError", LOOKUP_ERR)
KEY_ERR = _exc("KeyError", LOOKUP_ERR)
VALUE_ERR = _exc("ValueError", EXC)
TYPE_ERR = _exc("TypeError", EXC)
ATTR_ERR = _exc("AttributeError", EXC)
ARITH_ERR = _exc("ArithmeticError", EXC)
ZERODIV_ERR = _exc("ZeroDivisionError", ARITH_ERR)
UNICODE_ERR = _exc("UnicodeError", VALUE_ERR)
ASSERT_ERR = _exc("AssertionError", EXC)
STOPITER = _exc("StopIteration", EXC)
NOTIMPL_ERR = _exc("NotImplementedError", EXC)
OS_ERR = _exc("OSError", EXC)
STATS_ERR = _exc("StatisticsError", VALUE_ERR)


class Raise(Exception):
    """A Python exception propagating through the interpreted program."""

    def __init__(self, exc, note=None):
        super().__init__(repr(exc))
        self.exc = exc
        self.note = note

    def exc_class(self):
        return self.exc.cls


class ReturnEx(Exception):
    def __init__(self, value):
        self.value = value


class BreakEx(Exception):
    pass


class ContinueEx(Exception):
    pass


def class_of(v):
    if isinstance(v, (SObj, ExcInst, NT)):
        return v.cls
    return None


def is_subclass(c, target):
    if c is target:
        return True
    if hasattr(c, "mro"):
        return target in c.mro()
    return False
