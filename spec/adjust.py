"""Spec of dejitter (C14), from the property statement: a timestamp moves to the nearest reference timestamp iff it
lies within maxDifference of it (inclusive, tolerant of rounding noise like the code base's own isclose); count,
order and labels never change; an ill-formed result raises."""
from praatio.utilities.constants import Interval, Point
from praatio.data_classes.interval_tier import IntervalTier
from praatio.data_classes.point_tier import PointTier
from praatio.utilities import errors
from spec.prims import forall, exists, pairwise, adjacent, strip, is_sorted
from spec.tiers import valid, disjoint_ordered, in_span_i, in_span_p
from spec.scalars import isclose


def nearest(R, t):
    return min(R, key=lambda x: abs(x - t))


def within(a, b, d):
    return abs(a - b) <= d or isclose(abs(a - b), d)


def snap(R, t, d):
    n = nearest(R, t)
    if within(t, n, d):
        return n
    return t


def IntervalTier_dejitter(self, referenceTier, maxDifference):
    R = referenceTier.timestamps
    if len(R) == 0:
        raise errors.ArgumentError("")
    moved = [Interval(snap(R, e.start, maxDifference), snap(R, e.end, maxDifference), e.label) for e in self.entries]
    return IntervalTier(self.name, moved, self.minTimestamp, self.maxTimestamp)


def PointTier_dejitter(self, referenceTier, maxDifference):
    R = referenceTier.timestamps
    if len(R) == 0:
        raise errors.ArgumentError("")  # nothing to align to: an error case of the property
    moved = [Point(snap(R, p.time, maxDifference), p.label) for p in self.entries]
    return PointTier(self.name, moved, self.minTimestamp, self.maxTimestamp)
