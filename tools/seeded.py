#!/usr/bin/env python3
"""Confirm seeded changes and run the checks against them.

  tools/seeded.py import <raw_dir> <PROP>     copy agent output into /verif/seeded/<PROP>-<k>/ after confirming it
  tools/seeded.py run [<name> ...]            apply each patch to /repo, run ./check <prop>, undo, record result
"""
import json, os, subprocess, sys, shutil, glob, time

ROOT = os.path.dirname(os.path.dirname(os.path.abspath(__file__)))
REPO = "/repo"
PY = "/venv/bin/python"


def sh(cmd, cwd=None, env=None, timeout=1800):
    p = subprocess.run(cmd, shell=True, cwd=cwd, env=env, capture_output=True, text=True, timeout=timeout)
    return p.returncode, p.stdout + p.stderr


def confirm(patch, demo):
    """in a scratch worktree of /repo HEAD: tests pass with the patch, demo fails with it and passes without"""
    wt = "/tmp/wt/confirm_%d" % os.getpid()
    sh("git -C %s worktree remove --force %s" % (REPO, wt))
    rc, out = sh("git -C %s worktree add --detach %s HEAD -q" % (REPO, wt))
    assert rc == 0, out
    res = {}
    try:
        env = dict(os.environ, PYTHONPATH=wt)
        rc, out = sh("%s %s" % (PY, demo), cwd=wt, env=env)
        res["demo_without"] = rc
        rc, out = sh("git apply %s" % patch, cwd=wt)
        res["applies"] = rc == 0
        if rc != 0:
            res["apply_err"] = out[-300:]
            return res
        rc, out = sh("%s -m pytest -q -p no:cacheprovider -x" % PY, cwd=wt, env=env)
        res["tests_rc"] = rc
        res["tests_tail"] = out.strip().splitlines()[-1] if out.strip() else ""
        rc, out = sh("%s %s" % (PY, demo), cwd=wt, env=env)
        res["demo_with"] = rc
        res["demo_tail"] = out.strip().splitlines()[-1][:300] if out.strip() else ""
    finally:
        sh("git -C %s worktree remove --force %s" % (REPO, wt))
    res["confirmed"] = res.get("applies") and res.get("tests_rc") == 0 and res.get("demo_with") != 0 and res.get("demo_without") == 0
    return res


def do_import(raw, prop):
    for k in sorted(os.listdir(raw)):
        src = os.path.join(raw, k)
        if not os.path.isdir(src):
            continue
        name = "%s-%s" % (prop, k)
        res = confirm(os.path.join(src, "patch.diff"), os.path.join(src, "demo.py"))
        print(name, json.dumps(res))
        if not res.get("confirmed"):
            continue
        dst = os.path.join(ROOT, "seeded", name)
        os.makedirs(dst, exist_ok=True)
        for f in ("patch.diff", "demo.py"):
            shutil.copy(os.path.join(src, f), os.path.join(dst, f))
        meta = json.load(open(os.path.join(src, "meta.json")))
        meta["property"] = prop
        meta["confirmed_by_me"] = {"head": sh("git -C %s rev-parse --short HEAD" % REPO)[1].strip(), **res}
        json.dump(meta, open(os.path.join(dst, "meta.json"), "w"), indent=1)


def _save(results):
    os.makedirs(os.path.join(ROOT, "out"), exist_ok=True)
    p = os.path.join(ROOT, "out", "seeded_results.json")
    old = json.load(open(p)) if os.path.exists(p) else {}
    old.update(results)
    json.dump(old, open(p, "w"), indent=1)


def do_run_scratch(names, tier="quick"):
    """like do_run but on a scratch worktree of /repo HEAD (PRAATIO_REPO points the checks at it), so that
    /repo itself stays usable meanwhile"""
    wt = "/tmp/wt/seedrun_%d" % os.getpid()
    sh("git -C %s worktree remove --force %s" % (REPO, wt))
    rc, out = sh("git -C %s worktree add --detach %s HEAD -q" % (REPO, wt))
    assert rc == 0, out
    # the checks run from a snapshot of /verif, so that /verif can be edited while a long run is in progress
    snap = "/tmp/wt/verifsnap_%d" % os.getpid()
    rc, out = sh("mkdir -p %s && rsync -a --delete --exclude out --exclude .git --exclude __pycache__ %s/ %s/" % (snap, ROOT, snap))
    assert rc == 0, out
    results = {}
    try:
        for d in sorted(glob.glob(os.path.join(snap, "seeded", "*"))):
            name = os.path.basename(d)
            if names and name not in names and not any(name.startswith(n) for n in names):
                continue
            meta = json.load(open(os.path.join(d, "meta.json")))
            prop = meta["property"]
            rc, out = sh("git apply %s" % os.path.join(d, "patch.diff"), cwd=wt)
            if rc != 0:
                results[name] = {"applies": False}
                print(name, "does not apply:", out[-200:])
                continue
            try:
                t0 = time.time()
                env = dict(os.environ, VERIF_EVIDENCE_DIR=os.path.join(snap, "out", "evidence_seeded"), PRAATIO_REPO=wt,
                           VERIF_NO_CACHE="1")
                rc, out = sh("./check %s --tier %s" % (prop, tier), cwd=snap, env=env)
                lines = [l for l in out.splitlines() if l.startswith(("VIOLATION", "UNDECIDED", "CHECKER"))]
                results[name] = {"prop": prop, "rc": rc, "s": round(time.time() - t0, 1), "lines": lines[:6]}
                print(name, prop, "rc=%d" % rc, "%.0fs" % (time.time() - t0), "|", (lines[0][:230] if lines else out.strip().splitlines()[-1][:200]), flush=True)
                _save(results)
            finally:
                sh("git checkout -- .", cwd=wt)
    finally:
        sh("git -C %s worktree remove --force %s" % (REPO, wt))
        shutil.rmtree(snap, ignore_errors=True)
    p = os.path.join(ROOT, "out", "seeded_results.json")
    old = json.load(open(p)) if os.path.exists(p) else {}
    old.update(results)
    json.dump(old, open(p, "w"), indent=1)


def do_run(names, tier="quick"):
    rc, out = sh("git -C %s status --porcelain" % REPO)
    assert out.strip() == "", "repo not clean: " + out
    results = {}
    for d in sorted(glob.glob(os.path.join(ROOT, "seeded", "*"))):
        name = os.path.basename(d)
        if names and name not in names and not any(name.startswith(n) for n in names):
            continue
        meta = json.load(open(os.path.join(d, "meta.json")))
        prop = meta["property"]
        rc, out = sh("git -C %s apply %s" % (REPO, os.path.join(d, "patch.diff")))
        if rc != 0:
            results[name] = {"applies": False}
            print(name, "does not apply:", out[-200:])
            continue
        try:
            t0 = time.time()
            env = dict(os.environ, VERIF_EVIDENCE_DIR=os.path.join(ROOT, "out", "evidence_seeded"))
            rc, out = sh("./check %s --tier %s" % (prop, tier), cwd=ROOT, env=env)
            lines = [l for l in out.splitlines() if l.startswith(("VIOLATION", "UNDECIDED", "CHECKER", "KNOWN"))]
            results[name] = {"prop": prop, "rc": rc, "s": round(time.time() - t0, 1), "lines": lines[:6]}
            print(name, prop, "rc=%d" % rc, "%.0fs" % (time.time() - t0), "|", (lines[0][:230] if lines else out.strip().splitlines()[-1][:200]))
        finally:
            sh("git -C %s checkout -- ." % REPO)
    os.makedirs(os.path.join(ROOT, "out"), exist_ok=True)
    p = os.path.join(ROOT, "out", "seeded_results.json")
    old = json.load(open(p)) if os.path.exists(p) else {}
    old.update(results)
    json.dump(old, open(p, "w"), indent=1)


if __name__ == "__main__":
    if sys.argv[1] == "import":
        do_import(sys.argv[2], sys.argv[3])
    else:
        tier = "quick"
        args = sys.argv[2:]
        if "--thorough" in args:
            tier = "thorough"
            args.remove("--thorough")
        if sys.argv[1] == "run-scratch":
            do_run_scratch(args, tier)
        else:
            do_run(args, tier)
