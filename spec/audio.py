"""Spec of the time-addressed Wav operations (C16), from the property statement: every operation acts on whole
samples, at the sample index nearest to the requested time; everything else keeps its value and order.
`frames` is the byte string of the recording (sampleWidth bytes per sample, mono)."""
from spec.prims import forall, exists, pairwise, adjacent, strip, is_sorted


def sample_offset(self, t):
    """byte offset of the sample nearest to time t (ties to the even sample, as round() does)"""
    return self.sampleWidth * round(t * self.frameRate)


def Wav_getFrames(self, startTime, endTime):
    return self.frames[sample_offset(self, startTime):sample_offset(self, endTime)]


def Wav_deleteSegment(self, startTime, endTime):
    i = sample_offset(self, startTime)
    j = sample_offset(self, endTime)
    self.frames = self.frames[:i] + self.frames[j:]


def Wav_insert(self, startTime, frames):
    i = sample_offset(self, startTime)
    self.frames = self.frames[:i] + frames + self.frames[i:]


def Wav_replaceSegment(self, startTime, endTime, frames):
    Wav_deleteSegment(self, startTime, endTime)
    Wav_insert(self, startTime, frames)


def Wav_concatenate(self, frames):
    self.frames = self.frames + frames
