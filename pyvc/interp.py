"""Symbolic interpreter for the Python subset praatIO is written in.

The interpreted text is the real source: modules are parsed from /repo on every run.
What is dropped (and only this): docstrings, type annotations, print() output and the
text of messages (f-strings that cannot be represented become opaque values).
"""
import ast
import os

import z3

from . import core
from .core import (Unsupported, PathAbort, EngineError, Fraction, AList, LTerm, Atom, Conc, FM, FMPath, Concat,
                   Sorted, ElemType, is_z3, to_z3, as_real, REAL, INT, STR, BOOL)
from .values import *  # noqa
from . import values as V


class Env:
    __slots__ = ("vars", "parent", "module", "func")

    def __init__(self, module, parent=None, func=None):
        self.vars = {}
        self.parent = parent
        self.module = module
        self.func = func

    def lookup(self, name):
        e = self
        while e is not None:
            if name in e.vars:
                return e.vars[name]
            e = e.parent
        if name in self.module.ns:
            return self.module.ns[name]
        raise KeyError(name)


class Interp:
    def __init__(self, roots, float_mode="REAL"):
        """roots: {package_name: directory} used to resolve imports of interpreted modules."""
        self.roots = roots
        self.modules = {}
        self.float_mode = float_mode
        self.ctx = None
        self.registry = None  # contract registry (set by contracts.py)
        self.verifying = None  # qualname of the function whose real body must be used
        self.use_specs = True
        self.call_depth = 0
        self.frozen_owner = None  # when set: only objects owned by this ctx may be mutated
        self.mutations = None
        self.source_cache = {}
        self.source_overrides = {}  # path -> text (canaries)
        from . import builtins_model
        self.builtins = builtins_model.make_builtins(self)
        self.bm = builtins_model
        self.strip_fn = z3.Function("strip", STR, STR)
        self.strip_used = True
        self.join_cache = {}
        self.line_hits = set()
        self.prints = 0
        self.spec_uses = set()
        self.engine_opts = {}
        self.skolems = {}  # iteration skolem functions (name -> description), see core.Ctx.sk_install
        from . import intrinsics
        self.intrinsics = intrinsics.INTRINSICS
        self.ctx = core.Ctx(core.Explorer(self), [])

    # ------------------------------------------------------------------ loading
    def find_module_file(self, modname):
        parts = modname.split(".")
        root = self.roots.get(parts[0])
        if root is None:
            return None
        base = os.path.join(root, *parts[1:])
        if os.path.isdir(base) and os.path.exists(os.path.join(base, "__init__.py")):
            return os.path.join(base, "__init__.py")
        if os.path.exists(base + ".py"):
            return base + ".py"
        return None

    def read_source(self, path):
        if path in self.source_overrides:
            return self.source_overrides[path]
        with open(path) as f:
            return f.read()

    def load_module(self, modname):
        if modname in self.modules:
            return self.modules[modname]
        path = self.find_module_file(modname)
        if path is None:
            m = self.bm.stub_module(self, modname)
            self.modules[modname] = m
            return m
        m = Module(modname)
        m.path = path
        self.modules[modname] = m
        src = self.read_source(path)
        tree = ast.parse(src, filename=path)
        m.tree = tree
        env = Env(m)
        env.vars = m.ns
        for st in tree.body:
            try:
                self.exec_stmt(st, env)
            except (Unsupported, Raise, KeyError, AttributeError) as e:
                # module-level statements the subset cannot run (e.g. resource lookups) are skipped;
                # names they would define are simply absent and any use is reported as unsupported.
                if isinstance(st, (ast.FunctionDef, ast.ClassDef)):
                    raise
        return m

    def get_function(self, qualname):
        """'praatio.utilities.utils.getIntervalsInInterval' or '...interval_tier.IntervalTier.crop'."""
        parts = qualname.split(".")
        for cut in range(len(parts) - 1, 0, -1):
            modname = ".".join(parts[:cut])
            if self.find_module_file(modname) and not os.path.isdir(
                    os.path.join(self.roots[parts[0]], *parts[1:cut]) + "/"
                    if False else "/nonexistent"):
                m = self.load_module(modname)
                obj = m
                ok = True
                for p in parts[cut:]:
                    ns = obj.ns
                    if p not in ns:
                        ok = False
                        break
                    obj = ns[p]
                if ok:
                    return obj
        raise KeyError(qualname)

    # ------------------------------------------------------------------ elements
    def fresh_scalar(self, ctx, sort, base):
        return ctx.fresh_const(base, sort)

    def fresh_elem(self, ctx, etype, base):
        if etype.kind == "scalar":
            return ctx.fresh_const(base, etype.sort)
        vals = [ctx.fresh_const(base + "." + f, s) for f, s in zip(etype.fields, etype.sorts)]
        if etype.ntcls is not None:
            return NT(etype.ntcls, vals)
        return tuple(vals)

    def elem_parts(self, e):
        if isinstance(e, NT):
            return list(e.vals)
        if isinstance(e, tuple):
            return list(e)
        return [e]

    def elem_consts(self, e):
        return [p for p in self.elem_parts(e)]

    def elem_map(self, e, f):
        def g(p):
            return f(p) if is_z3(p) else p
        if isinstance(e, NT):
            return NT(e.cls, [g(p) for p in e.vals])
        if isinstance(e, tuple):
            return tuple(g(p) for p in e)
        return g(e)

    def scalar_eq(self, a, b):
        if not is_z3(a) and not is_z3(b):
            if isinstance(a, (int, Fraction, float)) and isinstance(b, (int, Fraction, float)) \
                    and not isinstance(a, bool) and not isinstance(b, bool):
                return z3.BoolVal(Fraction(a) == Fraction(b))
            return z3.BoolVal(type(a) == type(b) and a == b or (a is None and b is None))
        if a is None or b is None:
            return z3.BoolVal(False)
        za, zb = to_z3(a), to_z3(b)
        if za.sort() != zb.sort():
            if z3.is_arith(za) and z3.is_arith(zb):
                za, zb = as_real(za), as_real(zb)
            else:
                return z3.BoolVal(False)
        return za == zb

    def elem_eq(self, a, b):
        pa, pb = self.elem_parts(a), self.elem_parts(b)
        if len(pa) != len(pb):
            return z3.BoolVal(False)
        return z3.And([self.scalar_eq(x, y) for x, y in zip(pa, pb)]) if pa else z3.BoolVal(True)

    def sort_of(self, v):
        if is_z3(v):
            return v.sort()
        if isinstance(v, bool):
            return BOOL
        if isinstance(v, int):
            return INT
        if isinstance(v, (Fraction, float)):
            return REAL
        if isinstance(v, str):
            return STR
        raise Unsupported("no scalar sort for %r" % (v,))

    def elem_type_of(self, v):
        if isinstance(v, NT):
            return ElemType("tuple", fields=v.fields(), sorts=[self.sort_of(p) for p in v.vals], ntcls=v.cls)
        if isinstance(v, tuple):
            return ElemType("tuple", fields=["f%d" % i for i in range(len(v))],
                            sorts=[self.sort_of(p) for p in v], ntcls=None)
        return core.scalar_type(self.sort_of(v))

    def is_elem(self, v):
        try:
            self.elem_type_of(v)
            return True
        except Unsupported:
            return False

    def coerce_elem(self, v, etype):
        """Bring an element to the sorts of etype (int -> real)."""
        if etype.kind == "scalar":
            return as_real(v) if etype.sort == REAL else to_z3(v)
        parts = self.elem_parts(v)
        out = [as_real(p) if s == REAL else to_z3(p) for p, s in zip(parts, etype.sorts)]
        if etype.ntcls is not None:
            return NT(etype.ntcls, out)
        return tuple(out)

    # ------------------------------------------------------------------ helpers
    def new_list(self, items, is_tuple=False):
        b = AList(core.mk_conc(self, items), is_tuple=is_tuple)
        b.owner = id(self.ctx)
        return b

    def new_alist(self, term, is_tuple=False):
        b = AList(term, is_tuple=is_tuple)
        b.owner = id(self.ctx)
        return b

    def items_of(self, box):
        """python list of items if the box is concrete, else None"""
        if isinstance(box.term, Conc):
            return box.term.items
        return None

    def check_mutable(self, obj):
        if self.frozen_owner is not None and getattr(obj, "owner", None) != self.frozen_owner:
            if getattr(self, "loop_effects", None) is not None:
                # tolerated only on a path that ends in `break` (it is re-executed in the enclosing context);
                # the mutation itself is NOT performed on the shared object
                self.loop_effects.append(obj)
                raise LoopEffect()
            raise Unsupported("mutation of loop-external state inside an abstracted loop body")
        if self.mutations is not None:
            self.mutations.append(obj)

    def raise_exc(self, cls, note=None):
        if isinstance(cls, BuiltinClass):
            raise Raise(ExcInst(cls), note)
        o = SObj(cls)
        raise Raise(o, note)

    def truth(self, v, note=None):
        """Python truthiness; may fork the path."""
        if v is None or v is False:
            return False
        if v is True:
            return True
        if isinstance(v, (int, Fraction, float)):
            return v != 0
        if isinstance(v, str):
            return len(v) > 0
        if is_z3(v):
            if z3.is_bool(v):
                return self.ctx.decide(v, note)
            if z3.is_arith(v):
                return self.ctx.decide(v != 0, note)
            if v.sort() == STR:
                return self.ctx.decide(core.S_LEN(v) > 0, note)
            raise Unsupported("truthiness of %s" % v.sort())
        if isinstance(v, AList):
            n = self.bm.list_len(self, v)
            if isinstance(n, int):
                return n > 0
            return self.ctx.decide(n > 0, note)
        if isinstance(v, tuple):
            return len(v) > 0
        if isinstance(v, NT):
            return len(v.vals) > 0
        if isinstance(v, dict):
            return len(v) > 0
        if isinstance(v, self.bm.SDict):
            return len(v.pairs) > 0
        if isinstance(v, SObj):
            f = v.cls.lookup("__bool__") or v.cls.lookup("__len__")
            if f is not None:
                return self.truth(self.call(BoundMethod(v, f), [], {}))
            return True
        if isinstance(v, (RepoFunction, BoundMethod, Builtin, RepoClass, BuiltinClass, NTClass, Module, Opaque)):
            return True
        if isinstance(v, Poison):
            raise Unsupported("loop-carried variable read (%s)" % v.why)
        if isinstance(v, bytes):
            return len(v) > 0
        raise Unsupported("truthiness of %r" % (v,))

    def as_bool_expr(self, v):
        """Try to represent truthiness of v as a z3 Bool without forking; None if not possible."""
        if isinstance(v, bool):
            return z3.BoolVal(v)
        if v is None:
            return z3.BoolVal(False)
        if is_z3(v) and z3.is_bool(v):
            return v
        return None

    # ------------------------------------------------------------------ statements
    def exec_block(self, stmts, env):
        for st in stmts:
            self.exec_stmt(st, env)

    def exec_stmt(self, st, env):
        m = getattr(self, "st_" + type(st).__name__, None)
        if m is None:
            raise Unsupported("statement %s (line %s)" % (type(st).__name__, getattr(st, "lineno", "?")))
        return m(st, env)

    def st_Expr(self, st, env):
        if isinstance(st.value, ast.Constant):
            return  # docstring
        self.eval(st.value, env)

    def st_Pass(self, st, env):
        pass

    def st_Import(self, st, env):
        for a in st.names:
            m = self.load_module(a.name)
            if a.asname:
                env.vars[a.asname] = m
            else:
                top = a.name.split(".")[0]
                env.vars[top] = self.load_module(top) if "." in a.name else m

    def st_ImportFrom(self, st, env):
        modname = st.module
        if st.level:
            raise Unsupported("relative import")
        for a in st.names:
            sub = modname + "." + a.name
            if self.find_module_file(sub):
                val = self.load_module(sub)
            else:
                m = self.load_module(modname)
                if a.name not in m.ns:
                    val = Opaque("%s.%s" % (modname, a.name))
                else:
                    val = m.ns[a.name]
            env.vars[a.asname or a.name] = val

    def st_FunctionDef(self, st, env, cls=None):
        qual = (cls.qualname + "." if cls else env.module.name + ".") + st.name
        if env.func is not None and cls is None:
            qual = env.func.qualname + ".<locals>." + st.name
        f = RepoFunction(st, env.module, qual, cls=cls, closure=env if env.func is not None else None)
        f.defaults = [self.eval(d, env) for d in st.args.defaults]
        f.kw_defaults = [None if d is None else self.eval(d, env) for d in st.args.kw_defaults]
        for d in st.decorator_list:
            dn = ast.unparse(d)
            if dn == "property":
                f.is_property = True
            elif dn == "classmethod":
                f.is_classmethod = True
            elif dn == "staticmethod":
                f.is_staticmethod = True
            elif dn in ("abstractmethod", "abc.abstractmethod"):
                pass
            elif dn.endswith(".setter"):
                raise Unsupported("property setter")
            else:
                raise Unsupported("decorator %s" % dn)
        if cls is None:
            env.vars[st.name] = f
        return f

    def st_ClassDef(self, st, env):
        bases = [self.eval(b, env) for b in st.bases]
        c = RepoClass(st.name, env.module, bases, env.module.name + "." + st.name)
        cenv = Env(env.module, parent=None)
        for s in st.body:
            if isinstance(s, ast.FunctionDef):
                c.ns[s.name] = self.st_FunctionDef(s, env, cls=c)
            elif isinstance(s, ast.Expr) and isinstance(s.value, ast.Constant):
                pass
            elif isinstance(s, ast.Assign):
                v = self.eval(s.value, cenv if False else self._class_env(env, c))
                for t in s.targets:
                    c.ns[t.id] = v
            elif isinstance(s, ast.AnnAssign):
                if s.value is not None:
                    c.ns[s.target.id] = self.eval(s.value, self._class_env(env, c))
            elif isinstance(s, ast.Pass):
                pass
            else:
                raise Unsupported("class body statement %s" % type(s).__name__)
        env.vars[st.name] = c

    def _class_env(self, env, c):
        e = Env(env.module, parent=env)
        e.vars = dict(c.ns)
        return e

    def st_Return(self, st, env):
        raise ReturnEx(self.eval(st.value, env) if st.value is not None else None)

    def st_Assign(self, st, env):
        v = self.eval(st.value, env)
        for t in st.targets:
            self.assign(t, v, env)

    def st_AnnAssign(self, st, env):
        if st.value is not None:
            self.assign(st.target, self.eval(st.value, env), env)

    def st_AugAssign(self, st, env):
        if isinstance(st.target, ast.Name):
            cur = self.read_name(st.target.id, env)
            if isinstance(cur, AList) and isinstance(st.op, ast.Add) and not cur.is_tuple:
                # list += iterable mutates in place
                self.bm.list_extend(self, cur, self.eval(st.value, env))
                return
            v = self.binop(st.op, cur, self.eval(st.value, env))
            self.assign(st.target, v, env)
        elif isinstance(st.target, ast.Attribute):
            obj = self.eval(st.target.value, env)
            cur = self.getattr(obj, st.target.attr)
            if isinstance(cur, AList) and isinstance(st.op, ast.Add) and not cur.is_tuple:
                self.bm.list_extend(self, cur, self.eval(st.value, env))
                return
            v = self.binop(st.op, cur, self.eval(st.value, env))
            self.setattr(obj, st.target.attr, v)
        elif isinstance(st.target, ast.Subscript):
            obj = self.eval(st.target.value, env)
            idx = self.eval_index(st.target.slice, env)
            cur = self.getitem(obj, idx)
            v = self.binop(st.op, cur, self.eval(st.value, env))
            self.setitem(obj, idx, v)
        else:
            raise Unsupported("augassign target")

    def assign(self, target, v, env):
        if isinstance(target, ast.Name):
            env.vars[target.id] = v
        elif isinstance(target, (ast.Tuple, ast.List)):
            items = self.unpack(v, len(target.elts))
            for t, x in zip(target.elts, items):
                self.assign(t, x, env)
        elif isinstance(target, ast.Attribute):
            obj = self.eval(target.value, env)
            self.setattr(obj, target.attr, v)
        elif isinstance(target, ast.Subscript):
            obj = self.eval(target.value, env)
            idx = self.eval_index(target.slice, env)
            self.setitem(obj, idx, v)
        else:
            raise Unsupported("assignment target %s" % type(target).__name__)

    def unpack(self, v, n):
        if isinstance(v, NT):
            items = list(v.vals)
        elif isinstance(v, tuple):
            items = list(v)
        elif isinstance(v, AList) and self.items_of(v) is not None:
            items = list(self.items_of(v))
        elif isinstance(v, Poison):
            raise Unsupported("loop-carried variable read (%s)" % v.why)
        else:
            raise Unsupported("unpacking %r" % (v,))
        if len(items) != n:
            self.raise_exc(VALUE_ERR, "unpack")
        return items

    def st_If(self, st, env):
        c = self.eval(st.test, env)
        if self.truth(c, "L%d" % st.lineno):
            self.exec_block(st.body, env)
        else:
            self.exec_block(st.orelse, env)

    def st_Raise(self, st, env):
        if st.exc is None:
            if getattr(self, "handling", None):
                raise self.handling[-1]
            raise Unsupported("bare raise outside an except block")
        e = self.eval(st.exc, env)
        if isinstance(e, (RepoClass, BuiltinClass)):
            e = self.call(e, [], {})
        raise Raise(e, "L%d" % st.lineno)

    def st_Try(self, st, env):
        if st.finalbody:
            raise Unsupported("try/finally")
        try:
            self.exec_block(st.body, env)
        except Raise as r:
            for h in st.handlers:
                if h.type is None:
                    match = True
                else:
                    t = self.eval(h.type, env)
                    ts = list(t) if isinstance(t, tuple) else [t]
                    match = any(is_subclass(r.exc.cls, c) for c in ts)
                if match:
                    if h.name:
                        env.vars[h.name] = r.exc
                    if not hasattr(self, "handling") or self.handling is None:
                        self.handling = []
                    self.handling.append(r)
                    try:
                        self.exec_block(h.body, env)
                    finally:
                        self.handling.pop()
                    return
            raise
        else:
            self.exec_block(st.orelse, env)

    def st_While(self, st, env):
        from . import loops
        return loops.exec_while(self, st, env)

    def st_For(self, st, env):
        from . import loops
        return loops.exec_for(self, st, env)

    def st_Break(self, st, env):
        raise BreakEx()

    def st_Continue(self, st, env):
        raise ContinueEx()

    def st_With(self, st, env):
        raise Unsupported("with statement (I/O)")

    def st_Assert(self, st, env):
        c = self.eval(st.test, env)
        if not self.truth(c, "assert L%d" % st.lineno):
            self.raise_exc(ASSERT_ERR)

    def st_Delete(self, st, env):
        raise Unsupported("del")

    def st_Global(self, st, env):
        raise Unsupported("global")

    # ------------------------------------------------------------------ expressions
    def eval(self, node, env):
        m = getattr(self, "ex_" + type(node).__name__, None)
        if m is None:
            raise Unsupported("expression %s (line %s)" % (type(node).__name__, getattr(node, "lineno", "?")))
        return m(node, env)

    def ex_Constant(self, node, env):
        v = node.value
        if isinstance(v, float):
            return Fraction(repr(v)) if self.float_mode == "REAL_DECIMAL" else Fraction(v)
        if isinstance(v, (int, str, bool, bytes)) or v is None:
            return v
        if v is Ellipsis:
            return Opaque("...")
        raise Unsupported("constant %r" % (v,))

    def read_name(self, name, env):
        try:
            v = env.lookup(name)
        except KeyError:
            if name in self.builtins:
                return self.builtins[name]
            raise Unsupported("unbound name %s" % name)
        return v

    def ex_Name(self, node, env):
        v = self.read_name(node.id, env)
        if isinstance(v, Poison):
            raise Unsupported("loop-carried variable '%s' read (%s)" % (node.id, v.why))
        return v

    def ex_Tuple(self, node, env):
        out = []
        for e in node.elts:
            if isinstance(e, ast.Starred):
                out.extend(self.iter_concrete(self.eval(e.value, env)))
            else:
                out.append(self.eval(e, env))
        return tuple(out)

    def ex_List(self, node, env):
        out = []
        abstract_parts = []
        for e in node.elts:
            if isinstance(e, ast.Starred):
                v = self.eval(e.value, env)
                its = self.try_iter_concrete(v)
                if its is None:
                    if out:
                        abstract_parts.append(core.mk_conc(self, out))
                        out = []
                    abstract_parts.append(v.term)
                else:
                    out.extend(its)
            else:
                out.append(self.eval(e, env))
        if abstract_parts:
            if out:
                abstract_parts.append(core.mk_conc(self, out))
            return self.new_alist(core.mk_concat(self, abstract_parts, self.bm.etype_of_term(self, abstract_parts[0])))
        return self.new_list(out)

    def ex_Dict(self, node, env):
        d = PDict()
        d.owner = id(self.ctx)
        for k, v in zip(node.keys, node.values):
            if k is None:
                raise Unsupported("dict unpacking")
            kv = self.eval(k, env)
            if not isinstance(kv, (str, int)):
                raise Unsupported("symbolic dict key in literal")
            d[kv] = self.eval(v, env)
        return d

    def ex_Set(self, node, env):
        raise Unsupported("set literal")

    def ex_JoinedStr(self, node, env):
        parts = []
        opaque = False
        for v in node.values:
            if isinstance(v, ast.Constant):
                parts.append(v.value)
            else:
                try:
                    x = self.eval_tolerant(v.value, env)
                except Unsupported:
                    x = Opaque("fmt")
                if v.format_spec is not None or v.conversion not in (-1, 115):
                    x = Opaque("fmt")
                s = self.bm.to_str(self, x)
                if isinstance(s, Opaque):
                    opaque = True
                parts.append(s)
        if opaque:
            return Opaque("f-string")
        return self.bm.str_concat(self, parts)

    def eval_tolerant(self, node, env):
        """Evaluate inside a message: poison / unsupported parts become opaque."""
        if isinstance(node, ast.Name):
            v = self.read_name(node.id, env)
            if isinstance(v, Poison):
                return Opaque("poison")
            return v
        try:
            self.ctx.pure_depth += 1
            return self.eval(node, env)
        except (Unsupported, Raise):
            return Opaque("msg")
        finally:
            self.ctx.pure_depth -= 1

    def ex_Attribute(self, node, env):
        obj = self.eval(node.value, env)
        return self.getattr(obj, node.attr)

    def ex_Subscript(self, node, env):
        obj = self.eval(node.value, env)
        idx = self.eval_index(node.slice, env)
        return self.getitem(obj, idx)

    def eval_index(self, node, env):
        if isinstance(node, ast.Slice):
            lo = self.eval(node.lower, env) if node.lower is not None else None
            hi = self.eval(node.upper, env) if node.upper is not None else None
            st = self.eval(node.step, env) if node.step is not None else None
            return slice(lo, hi, st)
        return self.eval(node, env)

    def ex_Starred(self, node, env):
        raise Unsupported("starred expression")

    def ex_Lambda(self, node, env):
        f = RepoFunction(node, env.module, (env.func.qualname if env.func else env.module.name) + ".<lambda>",
                         closure=env)
        f.defaults = [self.eval(d, env) for d in node.args.defaults]
        f.kw_defaults = [None if d is None else self.eval(d, env) for d in node.args.kw_defaults]
        return f

    def ex_IfExp(self, node, env):
        c = self.eval(node.test, env)
        cb = self.as_bool_expr(c)
        if cb is not None and not (z3.is_true(z3.simplify(cb)) or z3.is_false(z3.simplify(cb))):
            # try to merge without forking
            snap = self.ctx.pure_depth
            try:
                self.ctx.pure_depth += 1
                a = self.eval(node.body, env)
                b = self.eval(node.orelse, env)

                def pyint(v):
                    return (isinstance(v, int) and not isinstance(v, bool)) or (is_z3(v) and v.sort() == z3.IntSort())

                def pyfloat(v):
                    return isinstance(v, (float, Fraction)) or (is_z3(v) and v.sort() == z3.RealSort())
                # `int(x) if c else float(x)`: merging would forget which python type the value has
                merged = None if (pyint(a) and pyfloat(b)) or (pyfloat(a) and pyint(b)) else self.bm.ite(self, cb, a, b)
                if merged is not None:
                    return merged
            except (Unsupported, Raise):
                pass
            finally:
                self.ctx.pure_depth = snap
        if self.truth(c, "L%d" % node.lineno):
            return self.eval(node.body, env)
        return self.eval(node.orelse, env)

    def ex_BoolOp(self, node, env):
        is_and = isinstance(node.op, ast.And)
        vals = node.values
        cur = self.eval(vals[0], env)
        for nxt in vals[1:]:
            cb = self.as_bool_expr(cur)
            if cb is not None and is_z3(cur):
                # symbolic bool: try pure evaluation of the rest to merge
                snap = self.ctx.pure_depth
                merged = None
                try:
                    self.ctx.pure_depth += 1
                    r = self.eval(nxt, env)
                    rb = self.as_bool_expr(r)
                    if rb is not None:
                        merged = z3.And(cb, rb) if is_and else z3.Or(cb, rb)
                except Raise:
                    merged = None  # the right operand cannot be evaluated here: decide the left one
                except Unsupported:
                    # short-circuit semantics: the right operand only matters where the left one lets it be
                    # evaluated; evaluate it with that assumed (e.g. `i + 1 < len(xs) and xs[i + 1] ...`)
                    merged = None
                    try:
                        self.ctx.pure_depth = snap + 1

                        def right():
                            r2 = self.eval(nxt, env)
                            return self.as_bool_expr(r2)
                        rb = self.ctx.eval_under(cb if is_and else z3.Not(cb), right)
                        if rb is not None:
                            merged = z3.And(cb, rb) if is_and else z3.Or(cb, rb)
                    except (Unsupported, Raise):
                        merged = None
                    if merged is None and snap:
                        self.ctx.pure_depth = snap
                        raise
                finally:
                    self.ctx.pure_depth = snap
                if merged is not None:
                    cur = merged
                    continue
            t = self.truth(cur, "L%d" % node.lineno)
            if is_and:
                if not t:
                    return cur if not is_z3(cur) else False
                cur = self.eval(nxt, env)
            else:
                if t:
                    return cur if not is_z3(cur) else True
                cur = self.eval(nxt, env)
        return cur

    def ex_UnaryOp(self, node, env):
        v = self.eval(node.operand, env)
        if isinstance(node.op, ast.Not):
            b = self.as_bool_expr(v)
            if b is not None and is_z3(v):
                return z3.Not(b)
            return not self.truth(v, "L%d" % node.lineno)
        if isinstance(node.op, ast.USub):
            if is_z3(v):
                return -v
            return -v
        if isinstance(node.op, ast.UAdd):
            return v
        raise Unsupported("unary op")

    def ex_BinOp(self, node, env):
        a = self.eval(node.left, env)
        b = self.eval(node.right, env)
        return self.binop(node.op, a, b)

    def binop(self, op, a, b):
        return self.bm.binop(self, op, a, b)

    def ex_Compare(self, node, env):
        left = self.eval(node.left, env)
        result = None
        for op, rn in zip(node.ops, node.comparators):
            right = self.eval(rn, env)
            r = self.bm.compare(self, op, left, right)
            if result is None:
                result = r
            else:
                rb, xb = self.as_bool_expr(result), self.as_bool_expr(r)
                if rb is None or xb is None:
                    raise Unsupported("comparison chain")
                result = z3.simplify(z3.And(rb, xb))
            if result is False:
                return False
            left = right
        if is_z3(result):
            s = z3.simplify(result)
            if z3.is_true(s):
                return True
            if z3.is_false(s):
                return False
        return result

    def ex_Call(self, node, env):
        # print(...) is dropped (documented in DESIGN 2.1)
        if isinstance(node.func, ast.Name) and node.func.id == "print":
            self.prints += 1
            for a in node.args:
                self.eval_tolerant(a, env)
            return None
        func = self.eval(node.func, env)
        args = []
        for a in node.args:
            if isinstance(a, ast.Starred):
                args.extend(self.iter_concrete(self.eval(a.value, env)))
            else:
                args.append(self.eval(a, env))
        kwargs = {}
        for k in node.keywords:
            if k.arg is None:
                raise Unsupported("**kwargs")
            kwargs[k.arg] = self.eval(k.value, env)
        return self.call(func, args, kwargs, node=node, env=env)

    def ex_ListComp(self, node, env):
        from . import loops
        return loops.eval_comprehension(self, node, env)

    def ex_GeneratorExp(self, node, env):
        from . import loops
        return loops.eval_comprehension(self, node, env)

    # ------------------------------------------------------------------ attribute / item access
    def getattr(self, obj, name):
        if isinstance(obj, Poison):
            raise Unsupported("loop-carried variable read (%s)" % obj.why)
        if isinstance(obj, Module):
            if name in obj.ns:
                return obj.ns[name]
            sub = obj.name + "." + name
            if self.find_module_file(sub):
                return self.load_module(sub)
            raise Unsupported("module %s has no attribute %s" % (obj.name, name))
        if isinstance(obj, SObj):
            if name in obj.attrs:
                v = obj.attrs[name]
                return v
            f = obj.cls.lookup(name)
            if f is None:
                if name == "__class__":
                    return obj.cls
                self.raise_exc(ATTR_ERR, name)
            return self.bind(obj, f)
        if isinstance(obj, NT):
            fields = obj.fields()
            if name in fields:
                return obj.vals[fields.index(name)]
            f = obj.cls.lookup(name) if isinstance(obj.cls, RepoClass) else None
            if f is not None:
                return self.bind(obj, f)
            raise Unsupported("namedtuple attribute %s" % name)
        if isinstance(obj, RepoClass):
            f = obj.lookup(name)
            if f is None:
                raise Unsupported("class %s has no attribute %s" % (obj.name, name))
            if isinstance(f, RepoFunction) and f.is_classmethod:
                return BoundMethod(obj, f)
            return f
        m = self.bm.method(self, obj, name)
        if m is not None:
            return m
        raise Unsupported("attribute %s of %r" % (name, obj))

    def bind(self, obj, f):
        if isinstance(f, RepoFunction):
            if f.is_property:
                return self.call_function(f, [obj], {})
            if f.is_staticmethod:
                return f
            if f.is_classmethod:
                return BoundMethod(obj.cls, f)
            return BoundMethod(obj, f)
        return f

    def setattr(self, obj, name, v):
        if isinstance(obj, SObj):
            self.check_mutable(obj)
            obj.attrs[name] = v
            return
        raise Unsupported("setattr on %r" % (obj,))

    def getitem(self, obj, idx):
        return self.bm.getitem(self, obj, idx)

    def setitem(self, obj, idx, v):
        return self.bm.setitem(self, obj, idx, v)

    def try_iter_concrete(self, v):
        if isinstance(v, NT):
            return list(v.vals)
        if isinstance(v, tuple):
            return list(v)
        if isinstance(v, AList):
            return self.items_of(v)
        if isinstance(v, dict):
            return list(v.keys())
        if isinstance(v, self.bm.SDict):
            return [k for k, _ in v.pairs]
        if isinstance(v, str):
            return list(v)
        if isinstance(v, range):
            return list(v)
        if isinstance(v, V.DictItemsView):
            return self.bm.view_items(self, v)
        if isinstance(v, self.bm.LazySeq):
            return v.concrete_items(self)
        return None

    def iter_concrete(self, v):
        its = self.try_iter_concrete(v)
        if its is None:
            raise Unsupported("iteration over abstract value %r needs a loop rule" % (v,))
        return its

    # ------------------------------------------------------------------ calls
    def call(self, func, args, kwargs, node=None, env=None):
        if isinstance(func, Poison):
            raise Unsupported("loop-carried variable read (%s)" % func.why)
        if isinstance(func, Builtin):
            return func.fn(self, args, kwargs)
        if isinstance(func, RepoFunction):
            return self.call_function(func, args, kwargs)
        if isinstance(func, BoundMethod):
            if isinstance(func.func, Builtin):
                return func.func.fn(self, [func.self_obj] + list(args), kwargs)
            return self.call_function(func.func, [func.self_obj] + list(args), kwargs)
        if isinstance(func, RepoClass):
            return self.instantiate(func, args, kwargs)
        if isinstance(func, NTClass):
            return self.make_nt(func, args, kwargs)
        if isinstance(func, BuiltinClass):
            if func.ctor is not None:
                return func.ctor(self, args, kwargs)
            if is_subclass(func, BASE_EXC):
                return ExcInst(func, tuple(args))
            raise Unsupported("call of builtin class %s" % func.name)
        if isinstance(func, self.bm.Partial):
            return self.call(func.func, list(func.args) + list(args), {**func.kwargs, **kwargs})
        raise Unsupported("call of %r" % (func,))

    def make_nt(self, cls, args, kwargs):
        fields = cls.nt_fields() if isinstance(cls, RepoClass) else cls.fields
        vals = list(args)
        for f in fields[len(vals):]:
            if f not in kwargs:
                self.raise_exc(TYPE_ERR, "namedtuple arity")
            vals.append(kwargs[f])
        if len(vals) != len(fields):
            self.raise_exc(TYPE_ERR, "namedtuple arity")
        return NT(cls, vals)

    def instantiate(self, cls, args, kwargs):
        if cls.nt_fields() is not None:
            return self.make_nt(cls, args, kwargs)
        obj = SObj(cls)
        obj.owner = id(self.ctx)
        init = cls.lookup("__init__")
        if isinstance(init, RepoFunction):
            self.call_function(init, [obj] + list(args), kwargs)
        elif is_subclass(cls, BASE_EXC):
            obj.attrs["args"] = tuple(args)
        return obj

    def bind_args(self, f, args, kwargs):
        a = f.node.args
        params = [p.arg for p in a.posonlyargs + a.args]
        local = {}
        if len(args) > len(params) and a.vararg is None:
            self.raise_exc(TYPE_ERR, "too many arguments for %s" % f.qualname)
        for p, v in zip(params, args):
            local[p] = v
        if a.vararg is not None:
            local[a.vararg.arg] = tuple(args[len(params):])
        kwonly = [p.arg for p in a.kwonlyargs]
        extra = {}
        for k, v in kwargs.items():
            if k in local:
                self.raise_exc(TYPE_ERR, "duplicate argument %s" % k)
            if k in params or k in kwonly:
                local[k] = v
            elif a.kwarg is not None:
                extra[k] = v
            else:
                self.raise_exc(TYPE_ERR, "unexpected keyword %s for %s" % (k, f.qualname))
        nd = len(f.defaults or [])
        for i, p in enumerate(params):
            if p not in local:
                di = i - (len(params) - nd)
                if di < 0:
                    self.raise_exc(TYPE_ERR, "missing argument %s for %s" % (p, f.qualname))
                local[p] = f.defaults[di]
        for p, d in zip(kwonly, getattr(f, "kw_defaults", None) or []):
            if p not in local:
                if d is None:
                    self.raise_exc(TYPE_ERR, "missing kw-only argument %s" % p)
                local[p] = d
        if a.kwarg is not None:
            local[a.kwarg.arg] = extra
        return local

    def call_function(self, f, args, kwargs, force_body=False):
        intr = self.intrinsics.get(f.qualname)
        if intr is not None:
            return intr(self, args, kwargs)
        # modular: a function under contract is replaced by its spec at call sites
        if self.registry is not None and self.use_specs and not force_body and isinstance(f.node, ast.FunctionDef):
            spec = self.registry.spec_for_call(self, f)
            if spec is not None:
                r = self.registry.call_spec(self, f, spec, args, kwargs)
                if r is not NotImplemented:
                    return r
        local = self.bind_args(f, args, kwargs)
        env = Env(f.module, parent=f.closure, func=f)
        env.vars = local
        self.call_depth += 1
        if self.call_depth > 60:
            raise Unsupported("call depth")
        try:
            if isinstance(f.node, ast.Lambda):
                return self.eval(f.node.body, env)
            if self._is_generator(f.node):
                return self.bm.run_generator(self, f, env)
            try:
                self.exec_block(f.node.body, env)
            except ReturnEx as r:
                return r.value
            return None
        finally:
            self.call_depth -= 1

    def _is_generator(self, node):
        g = getattr(node, "_is_gen", None)
        if g is None:
            g = False
            for n in ast.walk(node):
                if isinstance(n, (ast.Yield, ast.YieldFrom)):
                    g = True
                    break
            node._is_gen = g
        return g

    def ex_Yield(self, node, env):
        raise Unsupported("yield")

    # ------------------------------------------------------------------ misc models
    def strip_of(self, s):
        """str.strip() on a symbolic string: uninterpreted, idempotent (A4)"""
        ctx = self.ctx
        self.strip_used = True
        r = self.strip_fn(s)
        ctx.assume(self.strip_fn(r) == r)
        return r

    def rnd(self, expr):
        raise Unsupported("RND mode not enabled")

    def eval_str(self, text, variables, modname):
        m = self.load_module(modname)
        env = Env(m)
        env.vars = dict(variables)
        node = ast.parse(text.strip(), mode="eval").body
        return self.eval(node, env)

    def pure(self, fn, *args):
        self.ctx.pure_depth += 1
        try:
            return fn(*args)
        finally:
            self.ctx.pure_depth -= 1

    # ------------------------------------------------------------------ proof-level equality of values
    def same_value(self, a, b, path="result"):
        """(ok, why): prove a and b denote the same value on the current path"""
        from . import listops
        ctx = self.ctx
        if isinstance(a, Poison) or isinstance(b, Poison):
            return None, (path + ": poisoned value", None)
        if a is None or b is None:
            return (a is None and b is None), (path + ": None vs value", None)
        if isinstance(a, bool) and isinstance(b, bool):
            return a == b, (path + ": %r vs %r" % (a, b), None)
        sa = is_z3(a) or isinstance(a, (int, Fraction, float, str, bool))
        sb = is_z3(b) or isinstance(b, (int, Fraction, float, str, bool))
        if sa and sb:
            if self.bm.is_str(a) != self.bm.is_str(b):
                return False, (path + ": str vs non-str", None)
            if isinstance(a, bool) != isinstance(b, bool) and not (is_z3(a) or is_z3(b)):
                return False, (path + ": bool vs non-bool", None)
            # python distinguishes 1 and 1.0 only by type; values are compared numerically here and the
            # int/float kind separately
            ka, kb = self.bm.is_real_typed(a), self.bm.is_real_typed(b)
            if (self.bm.is_num(a) and self.bm.is_num(b)) and ka != kb:
                return False, (path + ": int vs float", None)
            g = self.scalar_eq(a, b)
            if ctx.entails(g):
                return True, None
            return False, (path + ": values differ", g)
        if isinstance(a, NT) and isinstance(b, NT):
            if a.cls is not b.cls:
                return False, (path + ": %s vs %s" % (a.cls.name, b.cls.name), None)
            for f, x, y in zip(a.fields(), a.vals, b.vals):
                ok, why = self.same_value(x, y, path + "." + f)
                if not ok:
                    return ok, why
            return True, None
        if isinstance(a, tuple) and isinstance(b, tuple):
            if len(a) != len(b):
                return False, (path + ": tuple length", None)
            for k, (x, y) in enumerate(zip(a, b)):
                ok, why = self.same_value(x, y, "%s[%d]" % (path, k))
                if not ok:
                    return ok, why
            return True, None
        if isinstance(a, AList) and isinstance(b, AList):
            if a.is_tuple != b.is_tuple:
                return False, (path + ": list vs tuple", None)
            ok, why = listops.same_term(self, a.term, b.term)
            if not ok:
                if isinstance(why, tuple):
                    return ok, (path + ": " + why[0],) + tuple(why[1:])
                return ok, (path + ": " + str(why), None)
            if a.term is not b.term and a.term.etype is not None and b.term.etype is not None:
                ctx.assume(a.term.length() == b.term.length())
                ctx.links.append((a.term, b.term))
            return True, None
        if (isinstance(a, NT) and isinstance(b, tuple)) or (isinstance(a, tuple) and isinstance(b, NT)):
            # a namedtuple read back through an abstract list of mixed tuple kinds: compared field by field
            # (the tuple-vs-namedtuple distinction inside one list is not tracked by the list abstraction)
            pa, pb = self.elem_parts(a), self.elem_parts(b)
            if len(pa) != len(pb):
                return False, (path + ": tuple length", None)
            for k, (x, y) in enumerate(zip(pa, pb)):
                ok, why = self.same_value(x, y, "%s[%d]" % (path, k))
                if not ok:
                    return ok, why
            return True, None
        if isinstance(a, (tuple, NT, AList)) and isinstance(b, (tuple, NT, AList)):
            ia, ib = self.bm.tuple_items(self, a), self.bm.tuple_items(self, b)
            if ia is not None and ib is not None and self.bm.seq_kind(a) == self.bm.seq_kind(b) \
                    and type(a) is not NT and type(b) is not NT:
                if len(ia) != len(ib):
                    return False, (path + ": length", None)
                for k, (x, y) in enumerate(zip(ia, ib)):
                    ok, why = self.same_value(x, y, "%s[%d]" % (path, k))
                    if not ok:
                        return ok, why
                return True, None
            return False, (path + ": different sequence kinds", None)
        if isinstance(a, SObj) and isinstance(b, SObj):
            if a.cls is not b.cls:
                return False, (path + ": class %s vs %s" % (a.cls.name, b.cls.name), None)
            if set(a.attrs) != set(b.attrs):
                return False, (path + ": attribute sets differ %s vs %s" % (sorted(a.attrs), sorted(b.attrs)), None)
            for k in a.attrs:
                ok, why = self.same_value(a.attrs[k], b.attrs[k], path + "." + k)
                if not ok:
                    return ok, why
            return True, None
        if isinstance(a, self.bm.SDict) and isinstance(b, self.bm.SDict):
            if len(a.pairs) != len(b.pairs):
                return False, (path + ": number of keys differs (%d vs %d)" % (len(a.pairs), len(b.pairs)), None)
            for n, ((ka, va), (kb, vb)) in enumerate(zip(a.pairs, b.pairs)):
                ok, why = self.same_value(ka, kb, "%s.key[%d]" % (path, n))
                if not ok:
                    return ok, why
                ok, why = self.same_value(va, vb, "%s[%d]" % (path, n))
                if not ok:
                    return ok, why
            return True, None
        if isinstance(a, dict) and isinstance(b, dict):
            if list(a.keys()) != list(b.keys()):
                return False, (path + ": dict keys/order differ", None)
            for k in a:
                ok, why = self.same_value(a[k], b[k], "%s[%r]" % (path, k))
                if not ok:
                    return ok, why
            return True, None
        if isinstance(a, (RepoFunction, RepoClass, BuiltinClass, NTClass, Builtin, Module)):
            return a is b, (path + ": different objects", None)
        if isinstance(a, BoundMethod) and isinstance(b, BoundMethod):
            return a.func is b.func, (path + ": different methods", None)
        if isinstance(a, Opaque) and isinstance(b, Opaque):
            return True, None
        if isinstance(a, bytes) and isinstance(b, bytes):
            return a == b, (path + ": bytes differ", None)
        return None, (path + ": incomparable %s vs %s" % (type(a).__name__, type(b).__name__), None)

    # super(Class, self)
    def make_super(self, cls, obj):
        return SuperProxy(cls, obj)


class LoopEffect(Exception):
    """an abstracted loop body tried to mutate state that lives outside the loop"""


class PDict(dict):
    """dict with an owner tag (insertion ordered like python's dict / OrderedDict)."""


class SuperProxy:
    def __init__(self, cls, obj):
        self.cls = cls
        self.obj = obj
