"""Bounded stand-ins (DESIGN 2.11): executed on the real code, never counted as proved."""
import glob
import importlib
import os
import sys
import time

ROOT = os.path.dirname(os.path.dirname(os.path.abspath(__file__)))


def registry():
    reg = {}
    sys.path.insert(0, ROOT)
    for f in sorted(glob.glob(os.path.join(ROOT, "bounded", "b_*.py"))):
        m = importlib.import_module("bounded." + os.path.basename(f)[:-3])
        for k, fn in getattr(m, "CHECKS", {}).items():
            reg[k] = (m, fn)
    return reg


def run(name, prop, tier, seed, jobs):
    reg = registry()
    if name not in reg:
        raise KeyError("bounded check %s not found" % name)
    m, fn = reg[name]
    t0 = time.time()
    r = fn(tier, seed, jobs)
    r["report"]["name"] = name
    r["report"].setdefault("wall_s", round(time.time() - t0, 2))
    for v in r["violations"]:
        v["bounded"] = name
    return r


def replay(rep):
    reg = registry()
    m, fn = reg[rep["bounded"]]
    out = m.replay(rep["case"])
    print(out)
    if out.get("reproduced"):
        print("VIOLATION property=%s replay=(bounded case)" % rep.get("property"))
        return 1
    return 0
