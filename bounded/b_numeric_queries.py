"""Bounded stand-ins for C20 (numeric series helpers), and the non-deductive parts of C15 (queries),
C14 (dejitter / alignBoundariesAcrossTiers / morph) and C10 (tier set operations).

Every oracle below is written from the property text in /verif/properties.jsonl (and textbook
definitions: median, mean, sample / population variance, interval arithmetic) - never from praatIO.
Exact arithmetic: dyadic grids (every float operation on them is exact) or fractions.Fraction.
"""
import contextlib
import itertools
import json
import math
import os
import random
import re
import shutil
import time
from fractions import Fraction as Fr

from praatio.data_classes.interval_tier import IntervalTier
from praatio.data_classes.point_tier import PointTier
from praatio.data_classes.textgrid import Textgrid
from praatio.utilities.constants import Interval, Point
from praatio.utilities import errors as perrors
from praatio.utilities import my_math
from praatio.utilities import utils as putils
from praatio import pitch_and_intensity
from praatio import praatio_scripts

ROOT = os.path.dirname(os.path.dirname(os.path.abspath(__file__)))
TMP_ROOT = os.path.join(ROOT, "out", "tmp", "b_numeric_queries")

SKIP = "SKIP"  # evaluator result for a case the property does not speak about (trivial case)
MAX_PER_CAT = 5


# =========================================================================================
# infrastructure
# =========================================================================================


class Acc:
    """Accumulates case counts and, per violation category, the few smallest failing cases."""

    def __init__(self):
        self.cases = 0
        self.distinct = 0
        self.viol = {}
        self.samples = []
        self.seen = None  # set() for sampled slices: duplicates are evaluated but not counted as distinct

    def add(self, case, res):
        self.cases += 1
        if res is SKIP:
            return
        if self.seen is not None:
            h = hash(json.dumps(case, sort_keys=True))
            if h in self.seen:
                return
            self.seen.add(h)
        self.distinct += 1
        if self.distinct <= 300:
            txt = str(case)
            score = min(len(txt), 300) - 1000 * txt.count("[]") - (1000 if len(txt) > 400 else 0)
            if not self.samples or score > self._score:
                self.samples[:] = [case]
                self._score = score
        for what, exp, obs in res:
            self.addv(what, case, exp, obs)

    def run(self, ev, case, *extra):
        try:
            res = ev(case, *extra)
        except Exception as e:  # a library constructor / accessor used by the harness itself failed
            res = [("harness: building the case or reading the result raised", "no exception", _exc(e))]
        self.add(case, res)

    def addv(self, what, case, exp, obs):
        js = json.dumps(case, sort_keys=True)
        L = self.viol.setdefault(what, [])
        L.append((len(js), js, str(exp)[:400], str(obs)[:400]))
        if len(L) > 4 * MAX_PER_CAT:
            L.sort()
            del L[MAX_PER_CAT:]

    def dump(self):
        for L in self.viol.values():
            L.sort()
            del L[MAX_PER_CAT:]
        return (self.cases, self.distinct, self.viol, self.samples)


def _quiet():
    return contextlib.redirect_stdout(open(os.devnull, "w"))


def _run_task(task):
    fname, args = task[0], task[1]
    if len(task) > 2 and task[2] is not None and time.time() > task[2]:
        return None  # past the wall-clock deadline of an optional part: skipped, and reported as such
    acc = Acc()
    if fname.endswith("_rnd") or fname.endswith("slivers"):
        acc.seen = set()
    try:
        with _quiet():
            TASKS[fname](acc, *args)
    finally:
        _cleanup_scratch()
    return acc.dump()


def _drive(tasks, jobs):
    results = []
    if jobs <= 1 or len(tasks) <= 1:
        for t in tasks:
            results.append(_run_task(t))
    else:
        import multiprocessing as mp

        ctx = mp.get_context("fork")
        with ctx.Pool(min(jobs, len(tasks))) as pool:
            results = pool.map(_run_task, tasks, chunksize=1)  # ordered: deterministic merge
    cases = distinct = 0
    viol = {}
    samples = []
    _drive.skipped = sum(1 for r in results if r is None)
    for c, d, v, s in [r for r in results if r is not None]:
        cases += c
        distinct += d
        for what, L in v.items():
            viol.setdefault(what, []).extend(L)
        samples.extend(s)
    out = []
    for what in sorted(viol):
        L = sorted(set(viol[what]))[:MAX_PER_CAT]
        for _, js, exp, obs in L:
            out.append({"what": what, "case": json.loads(js), "expected": exp, "observed": obs})
    # pick up to three samples of different kinds
    picked, seen = [], set()
    for s in samples:
        k = (s.get("k"), s.get("op"), s.get("fn"))
        if k not in seen:
            seen.add(k)
            picked.append(s)
    return cases, distinct, out, picked[:3]


def _result(what, bound, exhaustive, t0, driven):
    cases, distinct, viol, samples = driven
    return {
        "report": {
            "what": what,
            "bound": bound,
            "cases": cases,
            "distinct": distinct,
            "exhaustive": exhaustive,
            "wall_s": round(time.time() - t0, 2),
            "samples": samples,
        },
        "violations": viol,
    }


def _exc(e):
    return "%s: %s" % (type(e).__name__, str(e)[:160])


def _close(a, b, tol=1e-9):
    return abs(a - b) <= tol * max(1.0, abs(a), abs(b))


def _scratch():
    d = os.path.join(TMP_ROOT, "p%d" % os.getpid())
    os.makedirs(d, exist_ok=True)
    return d


def _cleanup_scratch():
    """remove this process's scratch directory (and the common parent if nobody else is using it)"""
    shutil.rmtree(os.path.join(TMP_ROOT, "p%d" % os.getpid()), ignore_errors=True)
    try:
        os.rmdir(TMP_ROOT)
    except OSError:
        pass


def _seqs(values, maxlen, minlen=0):
    for n in range(minlen, maxlen + 1):
        for s in itertools.product(values, repeat=n):
            yield list(s)


# =========================================================================================
# C20  numeric series helpers
# =========================================================================================


def median_oracle(xs, w, pad):
    """element i = median of element i and its floor(w/2) neighbours on either side; series extended
    by its edge values when padding is on, element unchanged near the edges when it is off"""
    off = w // 2
    n = len(xs)
    out = []
    for i in range(n):
        if pad:
            win = [xs[min(max(i + k, 0), n - 1)] for k in range(-off, off + 1)]
        elif i - off >= 0 and i + off < n:
            win = xs[i - off:i + off + 1]
        else:
            out.append(xs[i])
            continue
        out.append(sorted(win)[off])  # odd number of elements: the middle one
    return out


def ev_median(case):
    xs, w, pad = case["xs"], case["w"], case["pad"]
    exp = median_oracle(xs, w, pad)
    try:
        got = my_math.medianFilter(list(xs), w, pad)
    except Exception as e:
        return [("medianFilter: raises an exception", exp, _exc(e))]
    if len(got) != len(xs):
        return [("medianFilter: output length differs from input length", len(xs), len(got))]
    if list(got) != exp:
        what = ("medianFilter: element is not the median of its window (edge padding on)" if pad
                else "medianFilter: element is not the median of its window / edge element changed (padding off)")
        return [(what, exp, list(got))]
    return []


def _mean_sd_sample(zs):
    n = len(zs)
    fz = [Fr(z) for z in zs]
    m = sum(fz) / n
    var = sum((z - m) ** 2 for z in fz) / (n - 1)
    return float(m), math.sqrt(float(var))


def _znorm_checks(prefix, xs, got):
    out = []
    if len(got) != len(xs):
        return [(prefix + ": length changed", len(xs), len(got))]
    m, sd = _mean_sd_sample(got)
    if abs(m) > 1e-9:
        out.append((prefix + ": mean of the result is not 0", 0, m))
    if abs(sd - 1) > 1e-9:
        out.append((prefix + ": sample standard deviation of the result is not 1", 1, sd))
    n = len(xs)
    for i in range(n):
        for j in range(i + 1, n):
            a = (xs[i] > xs[j]) - (xs[i] < xs[j])
            b = (got[i] > got[j]) - (got[i] < got[j])
            if a != b:
                out.append((prefix + ": rank order not preserved", "order of %r,%r" % (xs[i], xs[j]),
                            "%r,%r" % (got[i], got[j])))
                return out
    return out


def ev_znorm(case):
    xs = case["xs"]
    if len(xs) < 2 or len(set(xs)) < 2:
        return SKIP  # sample sd undefined or 0: the statement does not apply
    try:
        got = my_math.znormalizeData(list(xs))
    except Exception as e:
        return [("znormalizeData: raises an exception", "list", _exc(e))]
    return _znorm_checks("znormalizeData", xs, got)


def ev_rms(case):
    xs = case["xs"]
    if len(xs) == 0:
        return SKIP
    exp = math.sqrt(float(sum(Fr(x) ** 2 for x in xs) / len(xs)))
    try:
        got = my_math.rms(list(xs))
    except Exception as e:
        return [("rms: raises an exception", exp, _exc(e))]
    if not _close(got, exp, 1e-12):
        return [("rms: differs from sqrt(mean(x^2))", exp, got)]
    return []


def _measures(xs):
    n = len(xs)
    fx = [Fr(x) for x in xs]
    m = sum(fx) / n
    var = sum((x - m) ** 2 for x in fx) / n
    return (float(m), float(max(xs)), float(min(xs)), float(Fr(max(xs)) - Fr(min(xs))), float(var),
            math.sqrt(float(var)))


def ev_pm(case):
    xs, w, fz = case["xs"], case["w"], case["fz"]
    # acceptable readings of "optional zero removal and median filtering": the statement fixes neither
    # the order of the two steps nor the padding of the median filter
    def nz(s):
        return [v for v in s if v != 0]

    cands = []
    if w is None:
        cands.append(nz(xs) if fz else list(xs))
    else:
        for pad in (True, False):
            if fz:
                cands.append(nz(median_oracle(xs, w, pad)))
                cands.append(median_oracle(nz(xs), w, pad))
            else:
                cands.append(median_oracle(xs, w, pad))
    if any(len(c) == 0 for c in cands):
        return SKIP  # measures of an empty series are not defined by the statement
    try:
        got = pitch_and_intensity.getPitchMeasures(list(xs), "f", "l", w, fz)
    except Exception as e:
        return [("getPitchMeasures: raises an exception", _measures(cands[0]), _exc(e))]
    got = tuple(got)
    names = ("mean", "max", "min", "range", "variance", "deviation")
    best = None
    for c in cands:
        exp = _measures(c)
        bad = [names[i] for i in range(6) if len(got) != 6 or not _close(got[i], exp[i])]
        if not bad:
            return []
        if best is None or len(bad) < len(best[1]):
            best = (exp, bad)
    if fz and any(v != 0 and abs(v) < 1 for v in xs):
        # diagnostic only: would dropping all of (-1,1) explain the result?
        def nz1(s):
            return [v for v in s if abs(v) >= 1]
        alts = [nz1(xs)] if w is None else [nz1(median_oracle(xs, w, True)), median_oracle(nz1(xs), w, True)]
        for a in alts:
            e2 = _measures(a) if a else (0.0,) * 6
            if len(got) == 6 and all(_close(got[i], e2[i]) for i in range(6)):
                return [("getPitchMeasures: zero removal also drops non-zero values in (-1,1)", best[0], got)]
    return [("getPitchMeasures: measures differ from definition", best[0], "%s (wrong: %s)" % (got, ",".join(best[1])))]


def ev_dpe(case):
    track, thr = case["track"], case["thr"]
    must, may = [], []
    fthr = Fr(thr)
    for i in range(1, len(track)):
        a, b = Fr(track[i - 1][1]), Fr(track[i][1])
        if a == 0 and b == 0:
            may.append(i)  # ratio undefined
            continue
        r = min(a, b) / max(a, b)
        if abs(r - fthr) <= Fr(1, 10 ** 12):
            may.append(i)  # jump exactly at the ratio (up to rounding): "more than" leaves it open
        elif r < fthr:
            must.append(i)
    try:
        got, tg = pitch_and_intensity.detectPitchErrors([tuple(r) for r in track], thr)
    except ZeroDivisionError as e:
        if any(r[1] == 0 for r in track):
            return [("detectPitchErrors: ZeroDivisionError on a track containing a 0 (unvoiced) value",
                     [track[i][0] for i in must], _exc(e))]
        return [("detectPitchErrors: raises an exception", [track[i][0] for i in must], _exc(e))]
    except Exception as e:
        return [("detectPitchErrors: raises an exception", [track[i][0] for i in must], _exc(e))]
    tindex = {track[i][0]: i for i in range(len(track))}
    try:
        gi = [tindex[p[0]] for p in got]
    except KeyError:
        return [("detectPitchErrors: reports a time that is not a sample time", "sample times", str(got))]
    out = []
    if gi != sorted(set(gi)):
        out.append(("detectPitchErrors: reported jumps not in time order / duplicated", "ascending", gi))
    if not set(must) <= set(gi):
        out.append(("detectPitchErrors: a jump by more than the ratio is not reported",
                    [track[i][0] for i in must], [p[0] for p in got]))
    if not set(gi) <= set(must) | set(may):
        out.append(("detectPitchErrors: reports a step that is within the ratio",
                    [track[i][0] for i in must], [p[0] for p in got]))
    return out


UNDEF = "--undefined--"


def ev_load(case):
    header, rows, undef, eol = case["header"], case["rows"], case["undef"], case.get("eol", "\n")
    ncol = case["ncol"]
    lines = []
    if header:
        lines.append(",".join(["time", "pitch", "intensity", "x4"][:ncol]))
    for r in rows:
        lines.append(",".join(r))
    exp = []
    for r in rows:
        vals = [float(r[0])]
        drop = False
        for c in r[1:]:
            if c == UNDEF:
                if undef is None:
                    drop = True
                else:
                    vals.append(undef)
            else:
                vals.append(float(c))
        if not drop:
            exp.append(tuple(vals))
    d = _scratch()
    fn = os.path.join(d, "listing.txt")
    with open(fn, "w", encoding="utf-8", newline="") as fd:
        fd.write("".join(l + eol for l in lines))
    try:
        got = pitch_and_intensity.loadTimeSeriesData(fn, undef)
    except Exception as e:
        if not lines:
            return [("loadTimeSeriesData: empty listing (no header, no rows) raises instead of returning []",
                     exp, _exc(e))]
        return [("loadTimeSeriesData: raises an exception on a well-formed listing", exp, _exc(e))]
    finally:
        try:
            os.remove(fn)
        except OSError:
            pass
    got = [tuple(r) for r in got]
    if got != exp:
        if len(got) != len(exp):
            what = "loadTimeSeriesData: wrong number of rows (row dropped / kept against undefinedValue)"
        else:
            what = "loadTimeSeriesData: row values differ from the listing"
        return [(what, exp, got)]
    return []


def _rows_same_but(rows, got, index):
    if len(got) != len(rows):
        return "number of rows changed: %d -> %d" % (len(rows), len(got))
    for i, (r, g) in enumerate(zip(rows, got)):
        g = list(g)
        if len(g) != len(r):
            return "row %d changed width: %r -> %r" % (i, r, g)
        for c in range(len(r)):
            if c != index and g[c] != r[c]:
                return "row %d: column %d changed (rows reordered / other column touched): %r -> %r" % (i, c, r, g)
    return None


def ev_fts(case):
    rows, index, w, pad = case["rows"], case["index"], case["w"], case["pad"]
    try:
        got = my_math.filterTimeSeriesData(my_math.medianFilter, [tuple(r) for r in rows], w, index, pad)
    except Exception as e:
        return [("filterTimeSeriesData: raises an exception", "rows", _exc(e))]
    bad = _rows_same_but(rows, got, index)
    if bad:
        return [("filterTimeSeriesData: number or order of rows changed", "same rows, column %d filtered" % index, bad)]
    exp = median_oracle([r[index] for r in rows], w, pad)
    if [g[index] for g in got] != exp:
        return [("filterTimeSeriesData: filtered column is not the median filter of that column", exp,
                 [g[index] for g in got])]
    return []


def ev_zsd(case):
    rows, index, fz = case["rows"], case["index"], case["fz"]
    col = [r[index] for r in rows]
    if len(col) < 2 or len(set(col)) < 2:
        return SKIP
    try:
        got = my_math.znormalizeSpeakerData([tuple(r) for r in rows], index, fz)
    except Exception as e:
        return [("znormalizeSpeakerData: raises an exception", "rows", _exc(e))]
    bad = _rows_same_but(rows, got, index)
    if bad:
        return [("znormalizeSpeakerData: number or order of rows changed", "same rows", bad)]
    if not fz:
        return _znorm_checks("znormalizeSpeakerData", col, [g[index] for g in got])
    return []


# ---- generators -------------------------------------------------------------------------

WINDOWS = list(range(0, 9))


def _rand_series(rng, maxlen=15, minlen=0):
    n = rng.randint(minlen, maxlen)
    style = rng.randrange(6)
    if style == 0:  # small int alphabet: many ties
        return [rng.randint(0, 3) for _ in range(n)]
    if style == 1:  # constant runs
        out = []
        while len(out) < n:
            v = rng.choice([0, 1, 5, 2.5, -3, 7.25])
            out.extend([v] * rng.randint(1, 5))
        return out[:n]
    if style == 2:  # floats with two decimals
        return [round(rng.uniform(-50, 50), 2) for _ in range(n)]
    if style == 3:  # ints and floats mixed
        return [rng.choice([rng.randint(-9, 9), round(rng.uniform(-9, 9), 1)]) for _ in range(n)]
    if style == 4:  # monotone with plateaus
        out, v = [], 0
        for _ in range(n):
            v += rng.choice([0, 0, 1, 0.5])
            out.append(v)
        return out
    return [rng.choice([100, 100, 101.5, 250, 0]) for _ in range(n)]  # pitch like, constant stretches


def _rand_pitch(rng, maxlen=15, zeros=True, small=False):
    n = rng.randint(0, maxlen)
    out = []
    for _ in range(n):
        u = rng.random()
        if zeros and u < 0.2:
            out.append(rng.choice([0, 0.0]))
        elif small and u < 0.3:
            out.append(rng.choice([0.5, 0.25, -0.5]))
        elif u < 0.6:
            out.append(rng.choice([100, 120, 200, 240, 75]))
        else:
            out.append(round(rng.uniform(60, 400), rng.choice([0, 1, 3])))
    return out


VSETS = [[0, 1, 2], [-1.5, 0.0, 2.25]]


def t_c20_median_exh(acc, vset, n):
    for xs in itertools.product(VSETS[vset], repeat=n):
        xs = list(xs)
        for w in WINDOWS:
            for pad in (True, False):
                case = {"k": "median", "xs": xs, "w": w, "pad": pad}
                acc.run(ev_median, case)
        c = {"k": "znorm", "xs": xs}
        acc.run(ev_znorm, c)
        c = {"k": "rms", "xs": xs}
        acc.run(ev_rms, c)


def t_c20_median_rnd(acc, seed, count):
    rng = random.Random(seed)
    for _ in range(count):
        xs = _rand_series(rng)
        for w in WINDOWS:
            for pad in (True, False):
                case = {"k": "median", "xs": xs, "w": w, "pad": pad}
                acc.run(ev_median, case)
        c = {"k": "znorm", "xs": xs}
        acc.run(ev_znorm, c)
        c = {"k": "rms", "xs": xs}
        acc.run(ev_rms, c)


PM_VALUES = [0, 0.5, 100, 150.5]
DPE_VALUES = [0, 50, 70, 100, 200]
DPE_THR = [0.25, 0.5, 0.7, 1.0]


def t_c20_pm_exh(acc, n):
    for xs in itertools.product(PM_VALUES, repeat=n):
        xs = list(xs)
        for w in [None] + WINDOWS:
            for fz in (False, True):
                case = {"k": "pm", "xs": xs, "w": w, "fz": fz}
                acc.run(ev_pm, case)


def t_c20_pm_rnd(acc, seed, count):
    rng = random.Random(seed)
    for i in range(count):
        xs = _rand_pitch(rng, small=(i % 4 == 0))
        for w in [None] + WINDOWS:
            for fz in (False, True):
                case = {"k": "pm", "xs": xs, "w": w, "fz": fz}
                acc.run(ev_pm, case)


def t_c20_dpe_exh(acc, n):
    for ps in itertools.product(DPE_VALUES, repeat=n):
        track = [[0.25 * i, p] for i, p in enumerate(ps)]
        for thr in DPE_THR:
            case = {"k": "dpe", "track": track, "thr": thr}
            acc.run(ev_dpe, case)


def t_c20_dpe_rnd(acc, seed, count):
    rng = random.Random(seed)
    for i in range(count):
        ps = _rand_pitch(rng, zeros=(i % 5 == 0))
        track = [[round(0.01 * (j + 1), 2), p] for j, p in enumerate(ps)]
        thr = rng.choice([1.0, 0.5, 0.7, round(rng.uniform(0.01, 1.0), 2), rng.uniform(0.01, 1.0)])
        case = {"k": "dpe", "track": track, "thr": thr}
        acc.run(ev_dpe, case)


UNDEFS = [None, 0, 0.0, 5, -1]


def t_c20_load_exh(acc, nrows):
    nums = [["0.01", "75.5", "60"], ["0.02", "-3.25", "1e-05"], ["0.03", "100", "0"]]
    for pats in itertools.product(range(4), repeat=nrows):
        rows = []
        for i, p in enumerate(pats):
            r = list(nums[i])
            if p & 1:
                r[1] = UNDEF
            if p & 2:
                r[2] = UNDEF
            rows.append(r)
        for header in (True, False):
            for undef in UNDEFS:
                case = {"k": "load", "header": header, "rows": rows, "undef": undef, "ncol": 3}
                acc.run(ev_load, case)


def t_c20_load_rnd(acc, seed, count):
    rng = random.Random(seed)
    for _ in range(count):
        ncol = rng.randint(2, 4)
        nrows = rng.randint(0, 8)
        rows = []
        for i in range(nrows):
            r = ["%s" % round(0.005 * (i + 1), 3)]
            for _c in range(ncol - 1):
                u = rng.random()
                if u < 0.3:
                    r.append(UNDEF)
                elif u < 0.5:
                    r.append(str(rng.randint(-5, 300)))
                elif u < 0.6:
                    r.append("%.4e" % rng.uniform(0, 1))
                else:
                    r.append(repr(round(rng.uniform(-10, 400), rng.randint(1, 6))))
            rows.append(r)
        case = {"k": "load", "header": rng.random() < 0.5, "rows": rows, "undef": rng.choice(UNDEFS),
                "ncol": ncol, "eol": rng.choice(["\n", "\n", "\r\n"])}
        acc.run(ev_load, case)


def t_c20_rows_rnd(acc, seed, count):
    rng = random.Random(seed)
    for _ in range(count):
        ncol = rng.randint(2, 4)
        n = rng.randint(0, 10)
        cols = [[round(0.01 * (i + 1), 2) for i in range(n)]]
        for _c in range(ncol - 1):
            s = _rand_series(rng, n, n) if rng.random() < 0.5 else _rand_pitch(rng, n)
            s = (s + [1, 2, 3, 4, 5, 6, 7, 8, 9, 10])[:n]
            cols.append(s)
        rows = [[c[i] for c in cols] for i in range(n)]
        index = rng.randrange(ncol)
        case = {"k": "fts", "rows": rows, "index": index, "w": rng.choice(WINDOWS), "pad": rng.random() < 0.5}
        acc.run(ev_fts, case)
        case = {"k": "zsd", "rows": rows, "index": index, "fz": rng.random() < 0.5}
        acc.run(ev_zsd, case)


def run_c20(tier, seed, jobs):
    t0 = time.time()
    thorough = tier == "thorough"
    maxlen = 6
    tasks = []
    for vs in range(len(VSETS)):
        for n in range(0, maxlen + 1):
            tasks.append(("c20_median_exh", (vs, n)))
    nr = 24000 if thorough else 2400
    chunks = 16
    for i in range(chunks):
        tasks.append(("c20_median_rnd", (seed * 1000 + i, nr // chunks)))
    for n in range(0, 6 if thorough else 5):
        tasks.append(("c20_pm_exh", (n,)))
        tasks.append(("c20_dpe_exh", (n,)))
    npm = 16000 if thorough else 1600
    for i in range(chunks):
        tasks.append(("c20_pm_rnd", (seed * 1000 + 100 + i, npm // chunks)))
        tasks.append(("c20_dpe_rnd", (seed * 1000 + 200 + i, (npm * 10) // chunks)))
    for n in range(0, 4 if thorough else 3):
        tasks.append(("c20_load_exh", (n,)))
    nl = 32000 if thorough else 3200
    for i in range(chunks):
        tasks.append(("c20_load_rnd", (seed * 1000 + 300 + i, nl // chunks)))
        tasks.append(("c20_rows_rnd", (seed * 1000 + 400 + i, nl // chunks)))
    try:
        driven = _drive(tasks, jobs)
    finally:
        _cleanup_scratch()
    bound = ("medianFilter/znormalizeData/rms: ALL series of length 0..%d over {0,1,2} and over {-1.5,0.0,2.25} x window 0..8 x "
             "padding {T,F} + %d random series of length 0..15 (ties, constant runs, ints/floats) x the same 18 settings; "
             "getPitchMeasures: all series of length 0..%d over {0,0.5,100,150.5} x window {None,0..8} x zero-removal {T,F} + %d random "
             "pitch-like series; detectPitchErrors: all tracks of length 0..%d over {0,50,70,100,200} x ratio {0.25,0.5,0.7,1.0} + %d "
             "random tracks x ratio in (0,1]; loadTimeSeriesData: all listings of 0..%d rows x 2 value columns x {number,--undefined--} "
             "per cell x header {T,F} x undefinedValue {None,0,0.0,5,-1} + %d random listings (2-4 columns, 0-8 rows, LF/CRLF), "
             "undefined markers in value columns only; filterTimeSeriesData/znormalizeSpeakerData: %d random row sets each; seed=%d"
             % (maxlen, nr, 5 if thorough else 4, npm, 5 if thorough else 4, npm * 10, 3 if thorough else 2, nl, nl, seed))
    return _result("C20: medianFilter, znormalizeData, rms, getPitchMeasures, detectPitchErrors, loadTimeSeriesData, "
                   "filterTimeSeriesData, znormalizeSpeakerData against textbook definitions (exact rational arithmetic)",
                   bound, False, t0, driven)


# =========================================================================================
# shared tier helpers (grids, construction, plain-tuple views)
# =========================================================================================


def interval_sets(ncells, labels, unit=1.0):
    """ALL sets of non-overlapping (possibly touching) intervals with end points on the grid
    0, unit, ..., ncells*unit, each carrying one of `labels`; as sorted lists of [start, end, label]"""
    memo = {}

    def rec(pos):
        if pos in memo:
            return memo[pos]
        if pos >= ncells:
            res = [[]]
        else:
            res = list(rec(pos + 1))
            for end in range(pos + 1, ncells + 1):
                for lab in labels:
                    for rest in rec(end):
                        res.append([[pos * unit, end * unit, lab]] + rest)
        memo[pos] = res
        return res

    return rec(0)


def point_sets(npoints, labels, unit=1.0):
    """ALL point tiers with at most one point per grid position 0..npoints-1"""
    out = []
    for pat in itertools.product([None] + list(labels), repeat=npoints):
        out.append([[i * unit, l] for i, l in enumerate(pat) if l is not None])
    return out


def mk_itier(entries, lo=None, hi=None, name="T"):
    return IntervalTier(name, [Interval(float(s), float(e), l) for s, e, l in entries], lo, hi)


def mk_ptier(entries, lo=None, hi=None, name="P"):
    return PointTier(name, [Point(float(t), l) for t, l in entries], lo, hi)


def plain(entries):
    """entries as plain lists (exact float comparison, not praatio's tolerant entry equality)"""
    return [list(e) for e in entries]


def wf_interval_entries(entries, lo, hi):
    prev_end = None
    for s, e, _l in entries:
        if not s < e:
            return "entry with start >= end: %r" % ([s, e],)
        if prev_end is not None and prev_end > s:
            return "entries overlap / out of order at %r" % (s,)
        if s < lo or e > hi:
            return "entry [%r,%r] outside span [%r,%r]" % (s, e, lo, hi)
        prev_end = e
    return None


def wf_point_entries(entries, lo, hi):
    prev = None
    for t, _l in entries:
        if prev is not None and prev > t:
            return "points out of order at %r" % (t,)
        if t < lo or t > hi:
            return "point %r outside span [%r,%r]" % (t, lo, hi)
        prev = t
    return None


# =========================================================================================
# C15  queries and derived views
# =========================================================================================

FIND_LABELS = ["", "a", "A", "ab", "Ba"]
FIND_PLAIN = ["", "a", "A", "b", "ab", "B", "aB", "Ba"]
FIND_RE = ["a", "^a", "b$", "a.", "^$", "A|x", "[ab]{2}", "^ab$", "B", ".*"]


def _find_tier(kind, labels):
    if kind == "I":
        return mk_itier([[i, i + 1, l] for i, l in enumerate(labels)], 0, len(labels) + 1)
    return mk_ptier([[i, l] for i, l in enumerate(labels)], 0, len(labels) + 1)


def ev_find(case, tier=None):
    labels, q, mode = case["labels"], case["q"], case["mode"]
    if tier is None:
        tier = _find_tier(case["tier"], labels)
    if mode == "exact":
        exp = [i for i, l in enumerate(labels) if l == q]
        args = (q, False, False)
    elif mode == "substr":
        exp = [i for i, l in enumerate(labels) if q in l]
        args = (q, True, False)
    else:
        exp = [i for i, l in enumerate(labels) if re.search(q, l, re.IGNORECASE) is not None]
        args = (q, False, True)
    try:
        got = tier.find(*args)
    except Exception as e:
        return [("find: raises an exception", exp, _exc(e))]
    if list(got) != exp:
        return [("find (%s): returned indices are not exactly the matching entries" % mode, exp, list(got))]
    return []


def t_c15_find(acc, n):
    for labels in itertools.product(FIND_LABELS, repeat=n):
        labels = list(labels)
        for kind in ("I", "P"):
            tier = _find_tier(kind, labels)
            for mode, qs in (("exact", FIND_PLAIN), ("substr", FIND_PLAIN), ("re", FIND_RE)):
                for q in qs:
                    case = {"k": "find", "tier": kind, "labels": labels, "q": q, "mode": mode}
                    acc.run(ev_find, case, tier)


def ev_nonentries(case):
    entries, hi = case["entries"], case["hi"]
    tier = mk_itier(entries, 0, hi)
    hi = tier.maxTimestamp
    exp = []
    cur = 0.0
    for s, e, _l in sorted(entries):
        if s > cur:
            exp.append([cur, s, ""])
        cur = e
    if cur < hi:
        exp.append([cur, hi, ""])
    try:
        got = plain(tier.getNonEntries())
    except Exception as e:
        return [("getNonEntries: raises an exception", exp, _exc(e))]
    if got != exp:
        if any(not g[0] < g[1] for g in got):
            return [("getNonEntries: returns a stretch of non-positive length", exp, got)]
        return [("getNonEntries: not exactly the unlabelled stretches of [0, maxTimestamp]", exp, got)]
    return []


def ev_timestamps(case):
    entries = case["entries"]
    if case["tier"] == "I":
        tier = mk_itier(entries, 0, case["hi"])
        exp = sorted(set([e[0] for e in entries] + [e[1] for e in entries]))
    else:
        tier = mk_ptier(entries, 0, case["hi"])
        exp = sorted(set(e[0] for e in entries))
    try:
        got = list(tier.timestamps)
    except Exception as e:
        return [("timestamps: raises an exception", exp, _exc(e))]
    if got != exp:
        return [("timestamps: not the sorted set of boundary times", exp, got)]
    return []


def t_c15_views_grid(acc, ncells):
    unit = 0.5
    for entries in interval_sets(ncells, ["a"], unit):
        for hi in (None, ncells * unit, ncells * unit + 0.25):
            if entries:
                case = {"k": "nonentries", "entries": entries, "hi": hi}
                acc.run(ev_nonentries, case)
            if entries or hi is not None:
                case = {"k": "timestamps", "tier": "I", "entries": entries, "hi": hi}
                acc.run(ev_timestamps, case)
    # point tiers, including several points at one time
    for times in _seqs([0.0, 0.5, 1.0, 1.5], min(ncells, 4)):
        times = sorted(times)
        entries = [[t, "p%d" % i] for i, t in enumerate(times)]
        case = {"k": "timestamps", "tier": "P", "entries": entries, "hi": 2.0}
        acc.run(ev_timestamps, case)


def _rand_interval_entries(rng, n, tmax=10.0, labels=("a", "b", "c"), decimals=3, touch=0.4):
    """n non-overlapping intervals in [0,tmax] with decimal end points; neighbours touch with prob `touch`"""
    cuts = sorted(set(round(rng.uniform(0, tmax), rng.choice([1, 2, decimals])) for _ in range(2 * n + 2)))
    out = []
    i = 0
    while i + 1 < len(cuts) and len(out) < n:
        out.append([cuts[i], cuts[i + 1], rng.choice(labels)])
        i += 1 if rng.random() < touch else 2
    return out


def t_c15_views_rnd(acc, seed, count):
    rng = random.Random(seed)
    for _ in range(count):
        entries = _rand_interval_entries(rng, rng.randint(1, 8))
        if not entries:
            continue
        hi = rng.choice([None, entries[-1][1], 10.5])
        case = {"k": "nonentries", "entries": entries, "hi": hi}
        acc.run(ev_nonentries, case)
        case = {"k": "timestamps", "tier": "I", "entries": entries, "hi": hi}
        acc.run(ev_timestamps, case)


def ev_vii(case):
    """getValuesInIntervals: per interval exactly the samples with start <= t <= end"""
    entries, data = case["entries"], [tuple(r) for r in case["data"]]
    tier = mk_itier(entries, 0, case["hi"])
    exp = [[list(e), sorted(list(r) for r in data if e[0] <= r[0] <= e[1])] for e in sorted(entries)]
    try:
        got = tier.getValuesInIntervals(list(data))
    except Exception as e:
        return [("getValuesInIntervals: raises an exception", exp, _exc(e))]
    try:
        gotn = [[list(iv), sorted(list(r) for r in rows)] for iv, rows in got]
    except Exception as e:
        return [("getValuesInIntervals: result is not a list of (interval, rows)", exp, str(got))]
    if [g[0] for g in gotn] != [e[0] for e in exp]:
        return [("getValuesInIntervals: not one result per interval, in tier order", exp, gotn)]
    if gotn != exp:
        return [("getValuesInIntervals: rows are not exactly the samples with start <= t <= end", exp, gotn)]
    return []


def ev_vap(case):
    """getValuesAtPoints: the sample at (fuzzy: nearest to) each point"""
    pts, data, fuzzy = case["points"], [tuple(r) for r in case["data"]], case["fuzzy"]
    if fuzzy and not data:
        return SKIP  # nearest of nothing
    tier = mk_ptier([[t, "p"] for t in pts], 0, case["hi"])
    try:
        got = tier.getValuesAtPoints(list(data), fuzzy)
    except Exception as e:
        return [("getValuesAtPoints: raises an exception", "one row per point", _exc(e))]
    if len(got) != len(pts):
        return [("getValuesAtPoints: not one result per point", len(pts), str(got))]
    out = []
    for t, g in zip(sorted(pts), got):
        if fuzzy:
            best = min(abs(Fr(r[0]) - Fr(t)) for r in data)
            # candidates equidistant up to float subtraction noise are ties (never arises on the dyadic grid)
            noise = Fr(1, 10 ** 12) * max(1, int(abs(t)) + 1)
            ok = [r for r in data if abs(Fr(r[0]) - Fr(t)) - best <= noise]
            if g is None or tuple(g) not in ok:
                out.append(("getValuesAtPoints (fuzzy): result is not a sample nearest to the point",
                            "point %r -> one of %r" % (t, ok), str(got)))
                break
        else:
            ok = [r for r in data if r[0] == t]
            if ok:
                if g is None or tuple(g) not in ok:
                    out.append(("getValuesAtPoints (exact): the sample at the point is not returned",
                                "point %r -> one of %r" % (t, ok), str(got)))
                    break
            elif g is not None and len(g) > 0:
                out.append(("getValuesAtPoints (exact): returns a sample although none lies at the point",
                            "point %r -> no sample" % (t,), str(got)))
                break
    return out


def _multisets(values, maxlen):
    for n in range(0, maxlen + 1):
        for c in itertools.combinations_with_replacement(values, n):
            yield list(c)


def t_c15_samples_grid(acc, nsamp, seed):
    """all multisets of exactly nsamp sample times on the grid, sorted and in one shuffled order"""
    rng = random.Random(seed * 7919 + nsamp)
    sgrid = [0.0, 0.5, 1.0, 1.5, 2.0]
    pgrid = [0.25 * i for i in range(9)]
    tiers = interval_sets(4, ["a"], 0.5)
    psets = [list(c) for n in range(0, 4) for c in itertools.combinations(pgrid, n)]
    for times in itertools.combinations_with_replacement(sgrid, nsamp):
        rows = [[t, i] for i, t in enumerate(times)]
        sh = list(rows)
        rng.shuffle(sh)
        variants = [rows] if sh == rows else [rows, sh]
        for data in variants:
            for entries in tiers:
                case = {"k": "vii", "entries": entries, "hi": 2.0, "data": data}
                acc.run(ev_vii, case)
            for pts in psets:
                for fuzzy in (False, True):
                    case = {"k": "vap", "points": pts, "hi": 2.0, "data": data, "fuzzy": fuzzy}
                    acc.run(ev_vap, case)


def t_c15_samples_rnd(acc, seed, count):
    rng = random.Random(seed)
    for _ in range(count):
        entries = _rand_interval_entries(rng, rng.randint(0, 6), decimals=2)
        bounds = [e[0] for e in entries] + [e[1] for e in entries]
        n = rng.randint(0, 12)
        times = [rng.choice(bounds) if bounds and rng.random() < 0.3 else round(rng.uniform(0, 10), 2) for _ in range(n)]
        if rng.random() < 0.5:
            times.sort()
        data = [[t, i] for i, t in enumerate(times)]
        case = {"k": "vii", "entries": entries, "hi": 10.5, "data": data}
        acc.run(ev_vii, case)
        pts = sorted(set(rng.choice(times) if times and rng.random() < 0.4 else round(rng.uniform(0, 10), 2)
                         for _ in range(rng.randint(0, 6))))
        for fuzzy in (False, True):
            case = {"k": "vap", "points": pts, "hi": 10.5, "data": data, "fuzzy": fuzzy}
            acc.run(ev_vap, case)


# ---- interval helper functions ------------------------------------------------------------


def ev_overlap(case):
    """intervalOverlapCheck against interval arithmetic (all values dyadic: exact)"""
    (s1, e1), (s2, e2) = case["a"], case["b"]
    pct, tthr, bi = case["pct"], case["tthr"], case["bi"]
    ov = max(Fr(0), min(Fr(e1), Fr(e2)) - max(Fr(s1), Fr(s2)))
    hull = max(Fr(e1), Fr(e2)) - min(Fr(s1), Fr(s2))
    exp = ov > 0
    if pct > 0:
        exp = exp and ov / hull >= Fr(pct)
    if tthr > 0:
        exp = exp and ov >= Fr(tthr)
    if bi:
        exp = exp or s1 == e2 or e1 == s2
    a = Interval(s1, e1, "x") if case.get("named") else (s1, e1)
    b = Interval(s2, e2, "y") if case.get("named") else (s2, e2)
    try:
        got = putils.intervalOverlapCheck(a, b, pct, tthr, bi)
    except Exception as e:
        return [("intervalOverlapCheck: raises an exception", exp, _exc(e))]
    if bool(got) != exp:
        if bi:
            what = "intervalOverlapCheck: boundaryInclusive result disagrees with interval arithmetic"
        elif pct > 0 and tthr > 0:
            what = "intervalOverlapCheck: with both thresholds the result is not the conjunction of the two conditions"
        elif pct > 0:
            what = "intervalOverlapCheck: percentThreshold result disagrees with overlap/hull >= threshold"
        elif tthr > 0:
            what = "intervalOverlapCheck: timeThreshold result disagrees with overlap >= threshold"
        else:
            what = "intervalOverlapCheck: plain overlap test disagrees with interval arithmetic"
        return [(what, exp, got)]
    return []


def t_c15_overlap(acc):
    ivs = [(float(s), float(e)) for s in range(5) for e in range(s + 1, 5)]
    for a in ivs:
        for b in ivs:
            for pct in (0, 0.25, 0.5, 1.0):
                for tthr in (0, 1, 2):
                    for bi in ((False, True) if pct == 0 and tthr == 0 else (False,)):
                        for named in (False, True):
                            case = {"k": "overlap", "a": list(a), "b": list(b), "pct": pct, "tthr": tthr, "bi": bi,
                                    "named": named}
                            acc.run(ev_overlap, case)


def ev_invert(case):
    """invertIntervalList: complement of a list of disjoint intervals inside [minValue, maxValue]
    (bounds enclose the list; an absent bound means: no stretch on that side)"""
    ivs, lo, hi = [tuple(i) for i in case["ivs"]], case["lo"], case["hi"]
    srt = sorted(ivs)
    exp = []
    if not srt:
        exp = [[lo, hi]]
    else:
        if lo is not None and lo < srt[0][0]:
            exp.append([lo, srt[0][0]])
        for x, y in zip(srt, srt[1:]):
            if x[1] < y[0]:
                exp.append([x[1], y[0]])
        if hi is not None and srt[-1][1] < hi:
            exp.append([srt[-1][1], hi])
    try:
        got = putils.invertIntervalList(list(ivs), lo, hi)
    except Exception as e:
        return [("invertIntervalList: raises an exception", exp, _exc(e))]
    gotn = [list(g) for g in got]
    if gotn != exp:
        if any(not g[0] < g[1] for g in gotn):
            return [("invertIntervalList: returns a stretch of non-positive length", exp, gotn)]
        return [("invertIntervalList: not the complement of the list within the bounds", exp, gotn)]
    return []


def t_c15_invert(acc, ncells, seed):
    rng = random.Random(seed)
    for entries in interval_sets(ncells, ["a"], 1.0):
        ivs = [[e[0], e[1]] for e in entries]
        sh = list(ivs)
        rng.shuffle(sh)
        for data in ([ivs] if sh == ivs else [ivs, sh]):
            if not ivs:
                for lo in (-1.0, 0.0, 1.0):
                    for hi in (2.0, float(ncells)):
                        case = {"k": "invert", "ivs": [], "lo": lo, "hi": hi}
                        acc.run(ev_invert, case)
                continue
            first, last = ivs[0][0], ivs[-1][1]
            los = [None] + [float(v) for v in range(-1, int(first) + 1)]
            his = [None] + [float(v) for v in range(int(last), ncells + 2)]
            for lo in los:
                for hi in his:
                    case = {"k": "invert", "ivs": data, "lo": lo, "hi": hi}
                    acc.run(ev_invert, case)


# ---- equality -----------------------------------------------------------------------------


def _build_tier(spec):
    if spec["type"] == "I":
        t = mk_itier(spec["entries"], spec["lo"], spec["hi"], spec["name"])
    else:
        t = mk_ptier(spec["entries"], spec["lo"], spec["hi"], spec["name"])
    # spans as stated (the constructors take the hull; assign to be exact)
    t.minTimestamp, t.maxTimestamp = float(spec["lo"]), float(spec["hi"])
    return t


def _build_tg(spec):
    if spec.get("spanless"):
        return Textgrid()
    tg = Textgrid(spec["lo"], spec["hi"])
    for ts in spec["tiers"]:
        tg.addTier(_build_tier(ts), reportingMode="silence")
    tg.minTimestamp, tg.maxTimestamp = spec["lo"], spec["hi"]
    return tg


def _eq(a, b):
    try:
        return bool(a == b)
    except Exception as e:
        return _exc(e)


def ev_eq(case):
    """obj: 'tier' | 'tg'; base spec and an optional perturbed spec (one field changed)"""
    build = _build_tier if case["obj"] == "tier" else _build_tg
    kind = "tier" if case["obj"] == "tier" else "textgrid"
    out = []
    x, x2 = build(case["base"]), build(case["base"])
    for r, lbl in ((_eq(x, x), "x == x"), (_eq(x, x2), "x == copy"), (_eq(x2, x), "copy == x")):
        if r is not True:
            if case["obj"] == "tg" and case["base"].get("spanless"):
                out.append(("textgrid equality: not reflexive on a textgrid without tiers and span (raises)", True,
                            "%s -> %s" % (lbl, r)))
            else:
                out.append(("%s equality: not reflexive" % kind, True, "%s -> %s" % (lbl, r)))
            return out
    if case.get("other") is not None:
        y = build(case["other"])
        r1, r2 = _eq(x, y), _eq(y, x)
        if r1 != r2:
            out.append(("%s equality: not symmetric" % kind, "same answer both ways", "x==y %s, y==x %s" % (r1, r2)))
        if r1 is not False or r2 is not False:
            out.append(("%s equality: does not distinguish a changed %s" % (kind, case["field"]), False,
                        "x==y %s, y==x %s" % (r1, r2)))
    return out


def _tier_perturbations(spec):
    """(field, perturbed spec) for every single-field change"""
    out = []

    def mod(**kw):
        s = json.loads(json.dumps(spec))
        s.update(kw)
        return s

    out.append(("name", mod(name=spec["name"] + "x")))
    out.append(("name", mod(name="")))
    ents = spec["entries"]
    if spec["type"] == "I":
        out.append(("type", mod(type="P", entries=[[e[0], e[2]] for e in ents])))
    else:
        out.append(("type", mod(type="I", entries=[[e[0], e[0] + 0.125, e[1]] for e in ents])))
    ntime = 2 if spec["type"] == "I" else 1
    for i in range(len(ents)):
        lab = ents[i][-1]
        for nl in ("b" if lab == "a" else "a", lab + "x", ""):
            e2 = [list(e) for e in ents]
            e2[i][-1] = nl
            out.append(("label", mod(entries=e2)))
        for j in range(ntime):
            for d in (0.25, -0.25, 1e-6, -1e-6):
                e2 = [list(e) for e in ents]
                e2[i][j] = e2[i][j] + d
                if spec["type"] == "I" and not e2[i][0] < e2[i][1]:
                    continue
                if sorted(e2) != e2:
                    continue
                if spec["type"] == "I" and wf_interval_entries(e2, -9, 99):
                    continue
                out.append(("timestamp", mod(entries=e2)))
        out.append(("count", mod(entries=[list(e) for k, e in enumerate(ents) if k != i])))
    extra = [spec["hi"] - 0.125, spec["hi"], "z"] if spec["type"] == "I" else [spec["hi"], "z"]
    if not ents or ents[-1][ntime - 1] <= spec["hi"] - 0.125:
        out.append(("count", mod(entries=[list(e) for e in ents] + [extra])))
    for d in (0.25, 1e-6):
        out.append(("timestamp", mod(hi=spec["hi"] + d)))
        out.append(("timestamp", mod(lo=spec["lo"] - d)))
    return out


def t_c15_eq_tiers(acc, ncells):
    for entries in interval_sets(ncells, ["a", "b"], 1.0):
        base = {"type": "I", "name": "T", "entries": entries, "lo": 0.0, "hi": float(ncells) + 0.5}
        case = {"k": "eq", "obj": "tier", "base": base}
        acc.run(ev_eq, case)
        for field, other in _tier_perturbations(base):
            case = {"k": "eq", "obj": "tier", "base": base, "other": other, "field": field}
            acc.run(ev_eq, case)
    for entries in point_sets(ncells, ["a", "b"], 1.0):
        base = {"type": "P", "name": "T", "entries": entries, "lo": 0.0, "hi": float(ncells) + 0.5}
        case = {"k": "eq", "obj": "tier", "base": base}
        acc.run(ev_eq, case)
        for field, other in _tier_perturbations(base):
            case = {"k": "eq", "obj": "tier", "base": base, "other": other, "field": field}
            acc.run(ev_eq, case)


def t_c15_eq_tgs(acc):
    its = interval_sets(2, ["a", "b"], 1.0)
    pts = point_sets(2, ["a"], 1.0)
    bases = [{"spanless": True}, {"lo": 0.0, "hi": 2.5, "tiers": []}]
    for ie in its:
        it = {"type": "I", "name": "words", "entries": ie, "lo": 0.0, "hi": 2.5}
        bases.append({"lo": 0.0, "hi": 2.5, "tiers": [it]})
        for pe in pts:
            pt = {"type": "P", "name": "marks", "entries": pe, "lo": 0.0, "hi": 2.5}
            bases.append({"lo": 0.0, "hi": 2.5, "tiers": [it, pt]})
            bases.append({"lo": 0.0, "hi": 2.5, "tiers": [pt, it]})
    for base in bases:
        case = {"k": "eq", "obj": "tg", "base": base}
        acc.run(ev_eq, case)
        if base.get("spanless"):
            continue

        def mod(**kw):
            s = json.loads(json.dumps(base))
            s.update(kw)
            return s

        others = []
        for d in (0.25, 1e-6):
            others.append(("timestamp", mod(hi=base["hi"] + d)))
            others.append(("timestamp", mod(lo=base["lo"] - d)))
        tiers = base["tiers"]
        if len(tiers) == 2:
            others.append(("tier order", mod(tiers=[tiers[1], tiers[0]])))
        for i, ts in enumerate(tiers):
            others.append(("count", mod(tiers=[t for k, t in enumerate(tiers) if k != i])))
            for field, tsp in _tier_perturbations(ts):
                if field == "name" and tsp["name"] in [t["name"] for t in tiers]:
                    continue
                others.append((field, mod(tiers=[tsp if k == i else t for k, t in enumerate(tiers)])))
        others.append(("count", mod(tiers=tiers + [{"type": "P", "name": "extra", "entries": [], "lo": base["lo"],
                                                    "hi": base["hi"]}])))
        for field, other in others:
            case = {"k": "eq", "obj": "tg", "base": base, "other": other, "field": field}
            acc.run(ev_eq, case)


# ---- validate -----------------------------------------------------------------------------


def _corrupt_tier(spec):
    """a tier object whose attributes are assigned directly (no constructor checks)"""
    if spec["type"] == "I":
        t = IntervalTier(spec.get("name", "T"), [], 0.0, 1.0)
        t._entries = [Interval(float(s), float(e), l) for s, e, l in spec["entries"]]
    else:
        t = PointTier(spec.get("name", "T"), [], 0.0, 1.0)
        t._entries = [Point(float(x), l) for x, l in spec["entries"]]
    t.minTimestamp, t.maxTimestamp = float(spec["lo"]), float(spec["hi"])
    return t


def _tier_valid(spec):
    if spec["type"] == "I":
        return wf_interval_entries(spec["entries"], spec["lo"], spec["hi"]) is None
    return wf_point_entries(spec["entries"], spec["lo"], spec["hi"]) is None


def ev_validate(case):
    if case["obj"] == "tier":
        obj = _corrupt_tier(case["spec"])
        exp = _tier_valid(case["spec"])
        kind = "IntervalTier" if case["spec"]["type"] == "I" else "PointTier"
    else:
        spec = case["spec"]
        obj = Textgrid(spec["lo"], spec["hi"])
        for ts in spec["tiers"]:
            obj._tierDict[ts["name"]] = _corrupt_tier(ts)
        obj.minTimestamp, obj.maxTimestamp = float(spec["lo"]), float(spec["hi"])
        exp = all(ts["lo"] == spec["lo"] and ts["hi"] == spec["hi"] and _tier_valid(ts) for ts in spec["tiers"])
        kind = "Textgrid"
    try:
        got = obj.validate("silence")
    except Exception as e:
        return [("%s.validate: raises in silence mode" % kind, exp, _exc(e))]
    if got is not exp:
        if exp:
            return [("%s.validate: returns False for a well-formed object" % kind, exp, got)]
        return [("%s.validate: returns True although a span mismatch / out-of-span / out-of-order entry exists" % kind,
                 exp, got)]
    return []


def t_c15_validate_itier(acc, n):
    pairs = [(s, e) for s in range(4) for e in range(4)]
    for ents in itertools.product(pairs, repeat=n):
        entries = [[float(s), float(e), "a"] for s, e in ents]
        for lo in (0.0, 1.0):
            for hi in (2.0, 3.0):
                case = {"k": "validate", "obj": "tier", "spec": {"type": "I", "entries": entries, "lo": lo, "hi": hi}}
                acc.run(ev_validate, case)


def t_c15_validate_ptier(acc, n):
    for times in itertools.product(range(4), repeat=n):
        entries = [[float(t), "p"] for t in times]
        for lo in (0.0, 1.0):
            for hi in (2.0, 3.0):
                case = {"k": "validate", "obj": "tier", "spec": {"type": "P", "entries": entries, "lo": lo, "hi": hi}}
                acc.run(ev_validate, case)


def t_c15_validate_tg(acc):
    ient = [[], [[0.0, 1.0, "a"]], [[1.0, 2.0, "a"], [2.0, 3.0, "b"]], [[2.0, 1.0, "a"]], [[1.0, 2.0, "a"], [0.0, 1.0, "b"]],
            [[0.0, 2.0, "a"], [1.0, 3.0, "b"]]]
    pent = [[], [[0.0, "p"]], [[3.0, "p"]], [[2.0, "p"], [1.0, "q"]], [[1.0, "p"], [1.0, "q"]]]
    spans = [(0.0, 3.0), (1.0, 3.0), (0.0, 2.0)]
    for lo, hi in spans:
        for ie in ient:
            for ilo, ihi in spans:
                it = {"type": "I", "name": "words", "entries": ie, "lo": ilo, "hi": ihi}
                case = {"k": "validate", "obj": "tg", "spec": {"lo": lo, "hi": hi, "tiers": [it]}}
                acc.run(ev_validate, case)
                for pe in pent:
                    for plo, phi in spans:
                        pt = {"type": "P", "name": "marks", "entries": pe, "lo": plo, "hi": phi}
                        for order in ([it, pt], [pt, it]):
                            case = {"k": "validate", "obj": "tg", "spec": {"lo": lo, "hi": hi, "tiers": order}}
                            acc.run(ev_validate, case)
        case = {"k": "validate", "obj": "tg", "spec": {"lo": lo, "hi": hi, "tiers": []}}
        acc.run(ev_validate, case)


def run_c15(tier, seed, jobs):
    t0 = time.time()
    thorough = tier == "thorough"
    tasks = []
    nsamp = 6 if thorough else 4
    for n in range(nsamp, -1, -1):
        tasks.append(("c15_samples_grid", (n, seed)))
    nfind = 5 if thorough else 4
    for n in range(0, nfind + 1):
        tasks.append(("c15_find", (n,)))
    tasks.append(("c15_views_grid", (7 if thorough else 6,)))
    nr = 20000 if thorough else 2000
    for i in range(8):
        tasks.append(("c15_views_rnd", (seed * 1000 + i, nr // 8)))
        tasks.append(("c15_samples_rnd", (seed * 1000 + 50 + i, nr // 8)))
    tasks.append(("c15_overlap", ()))
    tasks.append(("c15_invert", (6 if thorough else 5, seed)))
    tasks.append(("c15_eq_tiers", (4 if thorough else 3,)))
    tasks.append(("c15_eq_tgs", ()))
    for n in range(0, 4):
        tasks.append(("c15_validate_itier", (n,)))
    for n in range(0, 6 if thorough else 5):
        tasks.append(("c15_validate_ptier", (n,)))
    tasks.append(("c15_validate_tg", ()))
    driven = _drive(tasks, jobs)
    bound = ("find: all label sequences of length 0..%d over {'',a,A,ab,Ba} x both tier classes x 8 plain queries (exact, substring) "
             "and 10 regexes; getNonEntries/timestamps: all interval tiers on %d cells of 0.5 s x maxTimestamp {hull, grid end, "
             "+0.25}, point tiers with repeated times, + %d random decimal tiers; getValuesInIntervals/getValuesAtPoints: ALL "
             "multisets of 0..%d sample times on {0,.5,1,1.5,2} (sorted and one shuffled order, ties, samples on boundaries) x all "
             "34 interval tiers on 4 cells / all point sets of <=3 points on a 0.25 grid x fuzzy {F,T}, + %d random decimal "
             "cases; intervalOverlapCheck: all pairs of the 10 intervals on {0..4} x percent {0,.25,.5,1} x time {0,1,2} x "
             "boundaryInclusive (only without thresholds) x tuple/Interval; invertIntervalList: all disjoint lists on %d unit "
             "cells (sorted and shuffled) x all enclosing bounds incl. None; equality: all tiers on %d cells x 2 labels (both "
             "classes) and textgrids of 0-2 tiers x every single-field change (name, type, label, count, timestamp by 0.25 and "
             "1e-6); validate: all entry lists of <=3 intervals / <=%d points over {0..3} (ordered or not, valid or not) x "
             "spans {0,1}x{2,3}, textgrids with 0-2 tiers x 3 spans each; seed=%d"
             % (nfind, 7 if thorough else 6, nr, nsamp, nr, 6 if thorough else 5, 4 if thorough else 3,
                5 if thorough else 4, seed))
    return _result("C15: find, getNonEntries, timestamps, getValuesInIntervals, getValuesAtPoints, intervalOverlapCheck, "
                   "invertIntervalList, tier/textgrid equality, validate() against their definitions in the property text",
                   bound, True, t0, driven)


# =========================================================================================
# C14  boundary adjusters
# =========================================================================================

BAND = Fr(1, 10 ** 12)  # relative band around "exactly maxDifference away" that rounding may decide either way


def _dejitter_choices(t, refs, maxdiff):
    """acceptable new values of timestamp t: the nearest reference timestamp iff within maxDifference
    (either of two equidistant candidates), otherwise t itself.  Floats first, exact fractions whenever a
    comparison is closer than 1e-9; differences below 1e-12 (relative to the operands: float subtraction
    noise) are treated as ties / as 'exactly maxDifference away' and leave both outcomes acceptable.
    On the dyadic grids every quantity is exact and no band ever applies."""
    if not refs:
        return [t]
    dmin = min(abs(r - t) for r in refs)
    near = [r for r in refs if abs(r - t) - dmin <= 1e-9 * (1 + dmin)]
    noise = Fr(1, 10 ** 12) * max(1, int(abs(t)) + 1)
    ft = Fr(t)
    if len(near) > 1:
        dist = min(abs(Fr(r) - ft) for r in near)
        near = sorted(set(r for r in near if abs(Fr(r) - ft) - dist <= noise))
    if abs(dmin - maxdiff) > 1e-9 * (maxdiff + abs(t) + 1):
        return near if dmin < maxdiff else [t]
    md = Fr(maxdiff)
    dists = [abs(Fr(r) - ft) for r in near]
    if all(d == md for d in dists):
        return near  # exactly maxDifference away: within
    if any(abs(d - md) <= max(noise, BAND * md) for d in dists):
        return sorted(set(near + [t]))  # rounding noise around the threshold
    return near if min(dists) <= md else [t]


def _ref_tier(refspec):
    times = refspec["times"]
    if refspec["type"] == "I":
        return mk_itier([[a, b, "r%d" % i] for i, (a, b) in enumerate(zip(times, times[1:]))],
                        refspec.get("lo", 0.0), refspec.get("hi"), name="ref")
    return mk_ptier([[t, "r%d" % i] for i, t in enumerate(times)], refspec.get("lo", 0.0), refspec.get("hi"), name="ref")


def _ref_times(refspec):
    times = refspec["times"]
    if refspec["type"] == "I" and len(times) < 2:
        return []
    return sorted(set(times))


def _dejitter_outcomes(ttype, entries, refs, maxdiff):
    """(list of acceptable well-formed results, exists an ill-formed acceptable outcome)"""
    if ttype == "P":
        per = [_dejitter_choices(e[0], refs, maxdiff) for e in entries]
        goods = []
        for combo in itertools.product(*per):
            goods.append(sorted([[t, e[1]] for t, e in zip(combo, entries)]))
        return goods, False
    per = []
    for e in entries:
        per.append(_dejitter_choices(e[0], refs, maxdiff))
        per.append(_dejitter_choices(e[1], refs, maxdiff))
    goods, ill = [], False
    for combo in itertools.product(*per):
        res = [[combo[2 * i], combo[2 * i + 1], e[2]] for i, e in enumerate(entries)]
        if wf_interval_entries(res, float("-inf"), float("inf")) is None:
            goods.append(res)
        else:
            ill = True
    return goods, ill


def _check_dejitter_result(prefix, ttype, entries, refs, maxdiff, result, exc):
    """result: tier or None; exc: exception or None"""
    goods, ill = _dejitter_outcomes(ttype, entries, refs, maxdiff)
    if not refs:
        # an empty reference is an error case of the property: a praatio error (or, harmlessly, an unchanged
        # tier) is fine, any other exception is not
        if exc is None or isinstance(exc, perrors.PraatioException):
            return []
        return [(prefix + ": raises a non-praatio exception", "praatio error", _exc(exc))]
    if exc is not None:
        if isinstance(exc, perrors.PraatioException):
            if ill:
                return []
            return [(prefix + ": raises a praatio error although the adjusted tier is well-formed", goods[:1], _exc(exc))]
        if not refs:
            return []  # empty reference: an error case
        return [(prefix + ": raises a non-praatio exception", (goods or ["praatio error"])[:1], _exc(exc))]
    got = plain(result.entries)
    if ttype == "P":
        got = sorted(got)
    if got in goods:
        bad = (wf_interval_entries if ttype == "I" else wf_point_entries)(got, result.minTimestamp, result.maxTimestamp)
        if bad:
            return [(prefix + ": result does not lie inside its own span", "well-formed tier", bad)]
        return []
    if len(got) != len(entries):
        return [(prefix + ": entry count changed", len(entries), got)]
    if [g[-1] for g in got] != [e[-1] for e in entries] and ttype == "I":
        return [(prefix + ": labels or their order changed", [e[-1] for e in entries], got)]
    if ttype == "I" and wf_interval_entries(got, float("-inf"), float("inf")):
        return [(prefix + ": returns an ill-formed tier instead of raising", "praatio error", got)]
    if not goods:
        return [(prefix + ": returns a tier although the adjustment collapses or crosses intervals", "praatio error", got)]
    # which way is it wrong?
    exp = goods[0]
    flat_e = [x for e in exp for x in e[:-1]]
    flat_g = [x for g in got for x in g[:-1]]
    flat_o = [x for e in (sorted(entries) if ttype == "P" else entries) for x in e[:-1]]
    moved_wrong = any(g != e and g != o for g, e, o in zip(flat_g, flat_e, flat_o))
    if moved_wrong:
        what = ": a timestamp is moved to something other than the nearest reference timestamp"
    elif any(g == o and e != o for g, e, o in zip(flat_g, flat_e, flat_o)):
        what = ": a timestamp within maxDifference of the reference is not moved"
    else:
        what = ": a timestamp further than maxDifference from the reference is moved"
    return [(prefix + what, exp, got)]


def ev_dejitter(case):
    ttype, entries, maxdiff = case["tier"], case["entries"], case["maxdiff"]
    tier = (mk_itier if ttype == "I" else mk_ptier)(entries, case.get("lo", 0.0), case.get("hi"))
    ref = _ref_tier(case["ref"])
    refs = _ref_times(case["ref"])
    result = exc = None
    try:
        result = tier.dejitter(ref, maxdiff)
    except Exception as e:
        exc = e
    prefix = ("IntervalTier" if ttype == "I" else "PointTier") + ".dejitter"
    return _check_dejitter_result(prefix, ttype, sorted(entries), refs, maxdiff, result, exc)


def _ref_specs(maxsize, grid):
    out = []
    for n in range(0, maxsize + 1):
        for c in itertools.combinations(grid, n):
            out.append(list(c))
    return out


def t_c14_dejitter_grid(acc, ttype, refsize, part=0, nparts=1):
    grid = [0.25 * i for i in range(17)]
    if ttype == "I":
        tiers = [[[e[0], e[1], "l%d" % i] for i, e in enumerate(es)] for es in interval_sets(4, ["x"], 1.0)]
    else:
        tiers = [[[float(t), "l%d" % i] for i, t in enumerate(c)] for n in range(0, 5)
                 for c in itertools.combinations(range(5), n)]
    for k, times in enumerate(itertools.combinations(grid, refsize)):
        if k % nparts != part:
            continue
        times = list(times)
        for rtype in ("P", "I"):
            if rtype == "I" and len(times) < 2:
                continue
            for entries in tiers:
                for md in (0.25, 0.5, 1.0):
                    case = {"k": "dejitter", "tier": ttype, "entries": entries, "hi": 4.0,
                            "ref": {"type": rtype, "times": times, "hi": 4.0}, "maxdiff": md}
                    acc.run(ev_dejitter, case)


def _rand_jitter_case(rng):
    """a tier, and a reference made of jittered copies of some of its timestamps"""
    ttype = rng.choice(["I", "P"])
    if ttype == "I":
        entries = _rand_interval_entries(rng, rng.randint(0, 5), decimals=3)
        stamps = [x for e in entries for x in e[:2]]
    else:
        stamps = sorted(set(round(rng.uniform(0, 10), 3) for _ in range(rng.randint(0, 5))))
        entries = [[t, rng.choice(["a", "b"])] for t in stamps]
    md = rng.choice([0.001, 0.005, 0.01, 0.05, 0.25, 1.0])
    refs = set()
    for t in stamps:
        u = rng.random()
        if u < 0.25:
            refs.add(round(t + rng.choice([-1, 1]) * md, 6))  # exactly maxDifference away (in decimals)
        elif u < 0.5:
            refs.add(round(t + rng.uniform(-md, md), 4))
        elif u < 0.6:
            refs.add(round(t - md / 2, 6))
            refs.add(round(t + md / 2, 6))  # equidistant candidates
        elif u < 0.8:
            refs.add(round(t + rng.choice([-1, 1]) * md * rng.uniform(1.01, 3), 4))
    for _ in range(rng.randint(0, 2)):
        refs.add(round(rng.uniform(0, 10), 2))
    refs = sorted(r for r in refs if r >= 0)
    rtype = rng.choice(["P", "I"])
    return ttype, entries, {"type": rtype, "times": refs, "hi": 12.0}, md


def t_c14_dejitter_rnd(acc, seed, count):
    rng = random.Random(seed)
    for _ in range(count):
        ttype, entries, ref, md = _rand_jitter_case(rng)
        case = {"k": "dejitter", "tier": ttype, "entries": entries, "hi": 12.0, "ref": ref, "maxdiff": md}
        acc.run(ev_dejitter, case)


def ev_align(case):
    """alignBoundariesAcrossTiers: dejitter on every non-reference tier, reference tier left alone"""
    md = case["maxdiff"]
    refs = _ref_times(case["ref"])
    tg = Textgrid(0.0, case["hi"])
    specs = []
    for i, ts in enumerate(case["tiers"]):
        if ts == "REF":
            t = _ref_tier(dict(case["ref"], hi=case["hi"]))
            specs.append(("REF", "ref", plain(t.entries), t.minTimestamp, t.maxTimestamp, type(t)))
        else:
            name = "t%d" % i
            t = (mk_itier if ts["type"] == "I" else mk_ptier)(ts["entries"], 0.0, case["hi"], name=name)
            specs.append((ts["type"], name, sorted(ts["entries"]), None, None, type(t)))
        tg.addTier(t, reportingMode="silence")
    gaps = [b - a for a, b in zip(refs, refs[1:])]
    guard = any(Fr(g) < Fr(md) for g in gaps)
    must_raise = may_raise = False
    for kind, name, entries, _lo, _hi, _cls in specs:
        if kind == "REF":
            continue
        goods, ill = _dejitter_outcomes(kind, entries, refs, md)
        may_raise = may_raise or ill
        must_raise = must_raise or not goods
    try:
        out = praatio_scripts.alignBoundariesAcrossTiers(tg, "ref", md)
    except perrors.ArgumentError as e:
        if guard or may_raise or not refs:  # an empty reference is an error case
            return []
        return [("alignBoundariesAcrossTiers: raises ArgumentError although the reference timestamps are at least "
                 "maxDifference apart", "aligned textgrid", _exc(e))]
    except perrors.PraatioException as e:
        if may_raise:
            return []
        return [("alignBoundariesAcrossTiers: raises a praatio error although every adjusted tier is well-formed",
                 "aligned textgrid", _exc(e))]
    except Exception as e:
        if not refs:
            return []
        return [("alignBoundariesAcrossTiers: raises a non-praatio exception", "aligned textgrid", _exc(e))]
    if out is None or list(out.tierNames) != [s[1] for s in specs]:
        return [("alignBoundariesAcrossTiers: tier names / order changed", [s[1] for s in specs],
                 None if out is None else list(out.tierNames))]
    res = []
    for kind, name, entries, lo, hi, cls in specs:
        t = out.getTier(name)
        if type(t) is not cls:
            res.append(("alignBoundariesAcrossTiers: tier class changed", cls.__name__, type(t).__name__))
        elif kind == "REF":
            if plain(t.entries) != entries or t.minTimestamp != lo or t.maxTimestamp != hi:
                res.append(("alignBoundariesAcrossTiers: the reference tier is modified", entries, plain(t.entries)))
        else:
            r1 = _check_dejitter_result("alignBoundariesAcrossTiers: non-reference %s tier" %
                                        ("interval" if kind == "I" else "point"), kind, entries, refs, md, t, None)
            if r1 and _only_float_noise(kind, entries, refs, md, plain(t.entries)):
                r1 = [(NOISE_CAT, r1[0][1], plain(t.entries))]
            res.extend(r1)
        if res:
            break
    return res


NOISE_CAT = ("alignBoundariesAcrossTiers: a non-reference tier within maxDifference was left un-aligned "
             "(timestamps differ only by float noise)")


def _only_float_noise(kind, entries, refs, md, got):
    """the tier came back unchanged, and what it should have become differs from it only by float noise
    (every expected timestamp within 1e-9 relative of the original one, at least one not bit-identical)"""
    orig = sorted(entries) if kind == "P" else entries
    if sorted(got) != sorted(orig):
        return False
    goods, _ill = _dejitter_outcomes(kind, entries, refs, md)
    for g in goods:
        fe = [x for e in g for x in e[:-1]]
        fo = [x for e in orig for x in e[:-1]]
        if len(fe) == len(fo) and fe != fo and all(math.isclose(a, b, rel_tol=1e-9, abs_tol=1e-12) for a, b in zip(fe, fo)):
            return True
    return False


def _noise_pairs():
    """(reference time, the 'same' time as another computation produces it): differences 1e-17 .. 1e-10"""
    cands = [(0.3, 0.1 + 0.2), (3.3, 1.1 + 2.2), (0.7, 0.1 * 7), (1.0, sum([0.1] * 10)), (0.6, 0.2 * 3), (1.2, 0.4 * 3),
             (2.4, 0.8 * 3), (4.35, 4.35 * 100 / 100), (5.1, 1.7 * 3), (1.9, 1.9 + 1e-12), (2.8, 2.8 * (1 + 1e-10)),
             (4.0, 4.0 - 1e-11), (0.0, 1e-13), (6.2, 6.2 - 3e-16 * 6.2), (7.3, 7.3 * (1 - 1e-10)), (8.1, 2.7 * 3)]
    out = [(r, n) for r, n in cands if r != n and abs(r - n) <= 1e-9 * max(1.0, abs(r))]
    return sorted(out)


def _noise_case(pairs, sel, rtype, md, shape, order):
    """sel: indices into pairs used as reference times.  Non-reference tiers:
    N_I / N_P: interval / point tier whose timestamps are the float-noise twins of the reference times;
    M_I: intervals with one float-noise boundary and one really jittered boundary;
    J_I / J_P: tiers that need a real adjustment (md/2 away) ; X: a tier far from every reference time."""
    chosen = [pairs[i] for i in sel]
    refs = [r for r, _n in chosen]
    noisy = [n for _r, n in chosen]
    hi = 10.0
    tiers = []
    for code in shape:
        if code == "N_I":
            ents = [[a, b, "w%d" % i] for i, (a, b) in enumerate(zip(noisy, noisy[1:]))]
            tiers.append({"type": "I", "entries": ents})
        elif code == "N_P":
            tiers.append({"type": "P", "entries": [[n, "m%d" % i] for i, n in enumerate(noisy)]})
        elif code == "M_I":
            ents = [[noisy[i], refs[i + 1] - md / 2, "v%d" % i] for i in range(0, len(refs) - 1, 2)]
            tiers.append({"type": "I", "entries": ents})
        elif code == "J_I":
            ents = [[a + md / 2, b - md / 2, "j%d" % i] for i, (a, b) in enumerate(zip(refs, refs[1:]))]
            tiers.append({"type": "I", "entries": ents})
        elif code == "J_P":
            tiers.append({"type": "P", "entries": [[r + md / 2, "k%d" % i] for i, r in enumerate(refs)]})
        elif code == "X":
            tiers.append({"type": "P", "entries": [[r + 0.45, "x%d" % i] for i, r in enumerate(refs)]})
    tiers.insert(order % (len(tiers) + 1), "REF")
    return {"k": "align", "tiers": tiers, "hi": hi, "ref": {"type": rtype, "times": refs}, "maxdiff": md, "noise": True}


NOISE_SHAPES = [["N_I"], ["N_P"], ["N_I", "N_P"], ["J_I", "N_I"], ["N_P", "J_P"], ["N_I", "J_P", "N_P"], ["M_I"],
                ["J_I", "M_I", "N_P"], ["X", "N_I", "J_I", "N_P"], ["N_P", "X"]]


def t_c14_align_noise(acc, maxsel):
    """every choice of 1..maxsel reference times among the noise pairs x reference class x maxDifference x tier shapes"""
    pairs = _noise_pairs()
    k = 0
    for n in range(1, maxsel + 1):
        for sel in itertools.combinations(range(len(pairs)), n):
            for rtype in ("P", "I"):
                if rtype == "I" and n < 2:
                    continue
                for md in (0.005, 0.05):
                    for shape in NOISE_SHAPES:
                        if n < 2 and any(c.endswith("_I") for c in shape):
                            continue
                        k += 1
                        case = _noise_case(pairs, sel, rtype, md, shape, k)
                        acc.run(ev_align, case)


def t_c14_align_noise_rnd(acc, seed, count):
    """random: reference times with 1-3 decimals, non-reference timestamps re-computed by a different float
    expression (sums of parts, scale and unscale) so that they differ by rounding only; mixed with real jitter"""
    rng = random.Random(seed)
    for _ in range(count):
        md = rng.choice([0.001, 0.005, 0.05])
        n = rng.randint(2, 6)
        refs = sorted(set(round(rng.uniform(0.2, 9.5), rng.choice([1, 2, 3])) for _ in range(n)))
        refs = [r for i, r in enumerate(refs) if i == 0 or r - refs[i - 1] > 4 * md]
        if len(refs) < 2:
            continue

        def twin(r):
            u = rng.randrange(5)
            if u == 0:
                a = round(r * rng.uniform(0.2, 0.8), 3)
                return a + (r - a)
            if u == 1:
                return r * 3 / 3
            if u == 2:
                return (r + 0.1) - 0.1
            if u == 3:
                return r * (1 + rng.choice([-1, 1]) * 1e-10)
            return r / 7 * 7

        tiers = []
        for _t in range(rng.randint(1, 4)):
            kind = rng.choice(["I", "P"])
            stamps = []
            for r in refs:
                u = rng.random()
                stamps.append(twin(r) if u < 0.6 else (r + rng.choice([-1, 1]) * md * rng.uniform(0.1, 0.9) if u < 0.85 else r))
            if kind == "I":
                ents = [[a, b, "w%d" % i] for i, (a, b) in enumerate(zip(stamps, stamps[1:])) if a < b and rng.random() < 0.8]
            else:
                ents = [[a, "m%d" % i] for i, a in enumerate(stamps) if rng.random() < 0.8]
            tiers.append({"type": kind, "entries": ents})
        tiers.insert(rng.randint(0, len(tiers)), "REF")
        case = {"k": "align", "tiers": tiers, "hi": 10.0, "ref": {"type": rng.choice(["P", "I"]), "times": refs},
                "maxdiff": md, "noise": True}
        acc.run(ev_align, case)


def t_c14_align_grid(acc, refsize, part=0, nparts=1):
    grid = [0.5 * i for i in range(9)]
    itiers = [[[e[0] + 0.25, e[1] + 0.25, "l%d" % i] for i, e in enumerate(es)] for es in interval_sets(3, ["x"], 1.0)]
    ptiers = [[[float(t) + 0.25, "m%d" % i] for i, t in enumerate(c)] for n in range(0, 3)
              for c in itertools.combinations(range(4), n)]
    k = 0
    for kk, times in enumerate(itertools.combinations(grid, refsize)):
        if kk % nparts != part:
            continue
        times = list(times)
        for rtype in ("P", "I"):
            if rtype == "I" and len(times) < 2:
                continue
            for ie in itiers:
                for pe in ptiers:
                    k += 1
                    it = {"type": "I", "entries": ie}
                    pt = {"type": "P", "entries": pe}
                    order = [["REF", it, pt], [it, "REF", pt], [pt, it, "REF"]][k % 3]
                    for md in (0.25, 0.5):
                        case = {"k": "align", "tiers": order, "hi": 4.5, "ref": {"type": rtype, "times": times},
                                "maxdiff": md}
                        acc.run(ev_align, case)


def t_c14_align_rnd(acc, seed, count):
    rng = random.Random(seed)
    for _ in range(count):
        ttype, entries, ref, md = _rand_jitter_case(rng)
        ref = {"type": ref["type"], "times": ref["times"]}
        tiers = [{"type": ttype, "entries": entries}]
        if rng.random() < 0.6:
            t2, e2, _r, _m = _rand_jitter_case(rng)
            tiers.append({"type": t2, "entries": e2})
        tiers.insert(rng.randint(0, len(tiers)), "REF")
        case = {"k": "align", "tiers": tiers, "hi": 12.0, "ref": ref, "maxdiff": md}
        acc.run(ev_align, case)


def ev_morph(case):
    """morph: selected intervals get the duration of their counterpart; labels, gaps between consecutive
    intervals, the first start and the trailing gap to the span end are preserved"""
    src, tgt, filt = sorted(case["src"]), sorted(case["tgt"]), case["filter"]
    tier = mk_itier(src, case.get("lo", 0.0), case["hi"] if (src or case["hi"] is not None) else 1.0)
    target = mk_itier(tgt, 0.0, case.get("thi") if tgt else 1.0, name="target")
    lo, hi = tier.minTimestamp, tier.maxTimestamp
    fn = None if filt is None else (lambda label: label in filt)
    result = exc = None
    try:
        result = tier.morph(target, fn)
    except Exception as e:
        exc = e
    if len(src) != len(tgt):
        if exc is None:
            return [("morph: tiers with different entry counts do not raise", "praatio error", plain(result.entries))]
        if not isinstance(exc, perrors.PraatioException):
            return [("morph: different entry counts raise a non-praatio exception", "praatio error", _exc(exc))]
        return []
    if not src:
        if exc is not None or (plain(result.entries) == [] and result.maxTimestamp == hi):
            return []  # empty tiers: an error case (or nothing to do)
        return [("morph: empty tiers give a changed tier", "error or unchanged", plain(result.entries))]
    if exc is not None:
        touching = any(a[1] == b[0] for a, b in zip(src, src[1:]))
        if isinstance(exc, perrors.TextgridStateError) and touching and case.get("tol"):
            return [("morph: rounding in the cumulative shift makes touching intervals overlap (TextgridStateError)",
                     "morphed tier", _exc(exc))]
        return [("morph: raises an exception on tiers with equal entry counts", "morphed tier", _exc(exc))]
    exp = []
    prev_src_end = prev_new_end = None
    for s, t in zip(src, tgt):
        fs, fe = Fr(s[0]), Fr(s[1])
        start = fs if prev_src_end is None else prev_new_end + (fs - prev_src_end)
        dur = (Fr(t[1]) - Fr(t[0])) if (filt is None or s[2] in filt) else (fe - fs)
        exp.append([start, start + dur, s[2]])
        prev_src_end, prev_new_end = fe, start + dur
    exp_hi = prev_new_end + (Fr(hi) - prev_src_end)
    got = plain(result.entries)
    tol = case.get("tol", 0)
    expf = [[float(a), float(b), l] for a, b, l in exp]

    def same(x, y):
        return x == y if tol == 0 else abs(x - y) <= tol

    if len(got) != len(exp):
        return [("morph: entry count changed", expf, got)]
    if [g[2] for g in got] != [e[2] for e in exp]:
        return [("morph: labels changed", expf, got)]
    if not same(got[0][0], float(exp[0][0])):
        return [("morph: first start not preserved", expf, got)]
    for i, (g, e) in enumerate(zip(got, exp)):
        if not same(g[1] - g[0] if tol else Fr(g[1]) - Fr(g[0]), float(e[1] - e[0]) if tol else e[1] - e[0]):
            sel = filt is None or e[2] in filt
            return [("morph: a selected interval does not get its counterpart's duration" if sel else
                     "morph: a non-selected interval changes duration", expf, got)]
    for g, e in zip(got, expf):
        if not (same(g[0], e[0]) and same(g[1], e[1])):
            return [("morph: gap between consecutive intervals not preserved", expf, got)]
    if not same(result.maxTimestamp, float(exp_hi)):
        return [("morph: trailing gap to the end of the span not preserved", float(exp_hi), result.maxTimestamp)]
    if result.minTimestamp != lo:
        return [("morph: span start changed", lo, result.minTimestamp)]
    return []


MORPH_FILTERS = [None, ["a"], ["b"], [], ["a", "b"]]


def t_c14_morph_grid(acc, part, nparts):
    srcs = interval_sets(4, ["a", "b"], 0.5)
    tgts = interval_sets(4, ["t"], 0.25)
    for i, src in enumerate(srcs):
        if i % nparts != part:
            continue
        for tgt in tgts:
            for filt in (MORPH_FILTERS if len(src) == len(tgt) else [None]):
                for hi in (2.0, 2.75):
                    case = {"k": "morph", "src": src, "tgt": tgt, "filter": filt, "hi": hi}
                    acc.run(ev_morph, case)
                # a source tier whose span does not start at 0 (e.g. an excerpt cropped without rebasing)
                if src and min(e[0] for e in src) >= 0.5:
                    case = {"k": "morph", "src": src, "tgt": tgt, "filter": filt, "hi": 2.75, "lo": 0.5}
                    acc.run(ev_morph, case)


def t_c14_morph_rnd(acc, seed, count):
    rng = random.Random(seed)
    for _ in range(count):
        src = _rand_interval_entries(rng, rng.randint(0, 6), labels=("a", "b", "c"), decimals=3)
        n = len(src) if rng.random() < 0.85 else rng.randint(0, 6)
        tgt = []
        while len(tgt) != n:
            tgt = _rand_interval_entries(rng, n, tmax=20.0, labels=("t",), decimals=3) if n else []
            if n and len(tgt) != n:
                n = len(tgt) if rng.random() < 0.9 else n
        filt = rng.choice([None, ["a"], ["a", "c"], []])
        case = {"k": "morph", "src": src, "tgt": tgt, "filter": filt, "hi": rng.choice([None, 10.5]), "tol": 1e-9}
        if src and rng.random() < 0.4:
            case["lo"] = round(rng.uniform(0.0, min(e[0] for e in src)), 3)
        acc.run(ev_morph, case)


def run_c14(tier, seed, jobs):
    t0 = time.time()
    thorough = tier == "thorough"
    tasks = []
    maxref = 3
    for n in range(maxref, -1, -1):
        np_ = {3: 24, 2: 6}.get(n, 1)
        for p in range(np_):
            tasks.append(("c14_dejitter_grid", ("I", n, p, np_)))
            tasks.append(("c14_dejitter_grid", ("P", n, p, np_)))
    maxaref = 3 if thorough else 2
    for n in range(maxaref, -1, -1):
        np_ = {3: 16, 2: 12}.get(n, 1)
        for p in range(np_):
            tasks.append(("c14_align_grid", (n, p, np_)))
    tasks.append(("c14_align_noise", (3 if thorough else 2,)))
    nn = 16000 if thorough else 1600
    for i in range(4):
        tasks.append(("c14_align_noise_rnd", (seed * 1000 + 70 + i, nn // 4)))
    parts = 8
    for p in range(parts):
        tasks.append(("c14_morph_grid", (p, parts)))
    nr = 40000 if thorough else 4000
    for i in range(8):
        tasks.append(("c14_dejitter_rnd", (seed * 1000 + i, nr // 8)))
        tasks.append(("c14_align_rnd", (seed * 1000 + 20 + i, nr // 16)))
        tasks.append(("c14_morph_rnd", (seed * 1000 + 40 + i, nr // 8)))
    driven = _drive(tasks, jobs)
    bound = ("dejitter: all interval tiers on 4 unit cells (<=4 entries) and all point tiers of <=4 points on {0..4} x ALL "
             "reference timestamp sets of 0..%d times on the 0.25 grid over [0,4] (as point tier and as interval tier) x "
             "maxDifference {0.25,0.5,1.0} (exactly maxDifference away, equidistant candidates, none in range, collapse and "
             "crossing all occur) + %d random decimal cases (references at exactly +-maxDifference, equidistant, outside); "
             "alignBoundariesAcrossTiers: textgrids {reference, interval tier on 3 cells, point tier of <=2 points} x all "
             "reference sets of 0..%d times on a 0.5 grid x maxDifference {0.25,0.5} x 3 tier orders (rotating) + %d random; "
             "float-noise alignment: all choices of 1..%d reference times among %d (reference, float-noise twin) pairs (0.1+0.2 vs "
             "0.3, 1.1+2.2 vs 3.3, x*(1+1e-10), ...; differences 1e-17..1e-10) x reference class x maxDifference {0.005,0.05} x "
             "10 textgrid shapes (1-4 non-reference interval/point tiers: noise-only, real jitter, mixed, far away; reference "
             "position rotating) + %d random textgrids, resulting timestamps compared bit-exactly (==); "
             "morph: all 153 source tiers on 4 cells of 0.5 x 2 labels x all 34 target tiers on 4 cells of 0.25 x filters "
             "{None,{a},{b},{},{a,b}} x 2 spans (mismatched counts and empty tiers as error cases) + %d random decimal pairs "
             "(tolerance 1e-9); seed=%d" % (maxref, nr, maxaref, nr // 2, 3 if thorough else 2, len(_noise_pairs()), nn, nr, seed))
    return _result("C14: dejitter (both tier classes), alignBoundariesAcrossTiers, IntervalTier.morph against the property text "
                   "(exact arithmetic on dyadic grids, fractions for the threshold)", bound, True, t0, driven)


# =========================================================================================
# C10  tier set operations
# =========================================================================================


SET_OPS = ("difference", "intersection", "union", "mergeLabels")


def _lab(entries, tau):
    """labelled-time view: label of the entry with start <= tau < end, if any"""
    for s, e, l in entries:
        if s <= tau < e:
            return l
    return None


def _ovl(a, b):
    return a[0] < b[1] and a[1] > b[0]


def _boundaries(*entry_lists):
    pts = set()
    for es in entry_lists:
        for e in es:
            pts.add(e[0])
            pts.add(e[1])
    return sorted(pts)


def _union_expected(A, B):
    """fused groups: connected components of the positive-overlap relation over the entries of both tiers;
    returns [start, end, set of acceptable labels] (labels in time order; equal starts may come either way)"""
    allE = sorted([list(e) + ["A"] for e in A] + [list(e) + ["B"] for e in B], key=lambda e: (e[0], e[1]))
    groups = []
    for e in allE:
        if groups and e[0] < groups[-1][1]:  # overlaps the running group (entries sorted by start)
            groups[-1][1] = max(groups[-1][1], e[1])
            groups[-1][2].append(e)
        else:
            groups.append([e[0], e[1], [e]])
    out = []
    for s, e, members in groups:
        # orderings compatible with time order: members with equal start may be permuted
        runs = []
        for m in members:
            if runs and runs[-1][0][0] == m[0]:
                runs[-1].append(m)
            else:
                runs.append([m])
        labels = [""]
        first = True
        for run in runs:
            alts = set("-".join(x[2] for x in perm) for perm in itertools.permutations(run))
            labels = [(l + ("" if first else "-") + a) for l in labels for a in alts]
            first = False
        out.append([s, e, set(labels)])
    return out


def ev_setop(case):
    res = _ev_setop(case)
    if res and case.get("sliver"):
        # Does the same order type with well-separated times pass?  Then the failure is due to the near-identical
        # neighbours: praatio's tolerant entry equality picks the wrong one to delete (one root cause, many symptoms).
        pts = _boundaries(case["A"], case["B"])
        rank = dict((t, float(i)) for i, t in enumerate(pts))
        twin = dict(case, A=[[rank[e[0]], rank[e[1]], e[2]] for e in case["A"]],
                    B=[[rank[e[0]], rank[e[1]], e[2]] for e in case["B"]], ahi=float(len(pts)), bhi=float(len(pts)))
        if not _ev_setop(twin):
            return [("%s on near-identical same-label neighbours: wrong entry deleted (tolerant entry equality)"
                     % case["op"], res[0][1], "%s | %s" % (res[0][0], res[0][2]))]
    return res


def _run_op(op, A, B, alo, ahi, blo, bhi, ta=None, tb=None):
    """-> ('ok', entries, min, max, operands_modified) | ('exc', text).  ta/tb: prebuilt operand tiers
    (reused across cases as long as no operation modifies them)"""
    if ta is None:
        ta = mk_itier(A, alo, ahi, name="A")
    if tb is None:
        tb = mk_itier(B, blo, bhi, name="B")
    try:
        r = getattr(ta, op)(tb)
    except Exception as e:
        return ("exc", _exc(e))
    mod = None
    if plain(ta._entries) != A or plain(tb._entries) != B:
        mod = [plain(ta._entries), plain(tb._entries)]
    return ("ok", plain(r._entries), r.minTimestamp, r.maxTimestamp, mod)


def _ev_setop(case):
    op, A, B = case["op"], sorted(case["A"]), sorted(case["B"])
    run = _run_op(op, A, B, case.get("alo", 0.0), case.get("ahi"), case.get("blo", 0.0), case.get("bhi"))
    return _check_op(op, A, B, run)


def _check_op(op, A, B, run):
    if run[0] == "exc":
        return [("%s: raises an exception" % op, "a tier", run[1])]
    _ok, R, rmin, rmax, mod = run
    out = []
    if mod is not None:
        out.append(("%s: an operand is modified" % op, [A, B], mod))
    bad = wf_interval_entries(R, rmin, rmax)
    if bad:
        return out + [("%s: result is not a well-formed tier" % op, "valid, ordered, inside its span", bad + " in " + str(R))]
    pts = _boundaries(A, B, R)
    la = [_lab(A, t) for t in pts]
    lb = [_lab(B, t) for t in pts]
    lr = [_lab(R, t) for t in pts]
    if op == "difference":
        exp = [a if b is None else None for a, b in zip(la, lb)]
        if lr != exp:
            if any(x is not None and a is None for x, a in zip(lr, la)):
                what = "difference: invents labelled time that A does not have"
            elif any(x is not None and b is not None for x, b in zip(lr, lb)):
                what = "difference: keeps labelled time that B covers"
            elif any(x is None and e is not None for x, e in zip(lr, exp)):
                what = "difference: loses labelled time of A that B does not cover"
            else:
                what = "difference: label differs from A's label"
            out.append((what, list(zip(pts, exp)), R))
    elif op == "intersection":
        exp = sorted([max(a[0], b[0]), min(a[1], b[1]), a[2] + "-" + b[2]] for a in A for b in B if _ovl(a, b))
        if R != exp:
            cover_ok = all((x is not None) == (a is not None and b is not None) for x, a, b in zip(lr, la, lb))
            what = ("intersection: not one entry 'a-b' per overlapping pair" if cover_ok else
                    "intersection: not labelled exactly where both tiers are")
            out.append((what, exp, R))
    elif op == "union":
        exp = _union_expected(A, B)
        ok = len(R) == len(exp) and all(g[0] == e[0] and g[1] == e[1] and g[2] in e[2] for g, e in zip(R, exp))
        if not ok:
            cover_ok = all((x is not None) == (a is not None or b is not None) for x, a, b in zip(lr, la, lb))
            if not cover_ok:
                what = "union: not labelled exactly where either tier is"
            elif [g[:2] for g in R] != [e[:2] for e in exp]:
                what = "union: overlapping entries are not fused into one entry (or non-overlapping ones are)"
            else:
                what = "union: label of a fused entry does not join the fused labels in time order"
            out.append((what, [[e[0], e[1], sorted(e[2])] for e in exp], R))
    elif op == "mergeLabels":
        exp = []
        for a in A:
            bl = [b[2] for b in B if _ovl(a, b)]
            if bl:
                exp.append([a[0], a[1], "%s(%s)" % (a[2], ",".join(bl))])
        if R != exp:
            if [g[:2] for g in R] != [e[:2] for e in exp]:
                what = "mergeLabels: does not keep exactly the intervals of A that overlap something in B"
            else:
                what = "mergeLabels: label is not A's label followed by B's labels in parentheses"
            out.append((what, exp, R))
    return out


def ev_partition(case):
    """difference and intersection partition A's labelled time; no operation invents labelled time"""
    A, B = sorted(case["A"]), sorted(case["B"])
    runs = {}
    for op in SET_OPS:
        runs[op] = _run_op(op, A, B, 0.0, case.get("ahi"), 0.0, case.get("bhi"))
    return _check_partition(A, B, runs)


def _check_partition(A, B, runs):
    if any(r[0] == "exc" for r in runs.values()):
        return SKIP  # reported by the per-operation check
    res = dict((op, r[1]) for op, r in runs.items())
    pts = _boundaries(A, B, *res.values())
    out = []
    for t in pts:
        a, b = _lab(A, t) is not None, _lab(B, t) is not None
        d, i = _lab(res["difference"], t) is not None, _lab(res["intersection"], t) is not None
        if a != (d != i) or (d and i) or ((d or i) and not a):
            out.append(("difference and intersection do not partition A's labelled time",
                        "at t=%r exactly one of them labelled iff A is" % t, [res["difference"], res["intersection"]]))
            break
    for op, R in res.items():
        for t in pts:
            if _lab(R, t) is not None and _lab(A, t) is None and _lab(B, t) is None:
                out.append(("%s: invents labelled time present in neither operand" % op, "unlabelled at t=%r" % t, R))
                break
    return out


def _pair_all(acc, A, B, ahi, bhi, ta=None, tb=None):
    """the four operations run once; per-operation checks and the partition consequence share the results.
    Returns False when a prebuilt operand must be rebuilt (it was modified or an operation raised)."""
    runs = {}
    clean = True
    for op in SET_OPS:
        case = {"k": "setop", "op": op, "A": A, "B": B, "ahi": ahi, "bhi": bhi}
        try:
            runs[op] = _run_op(op, A, B, 0.0, ahi, 0.0, bhi, ta if clean else None, tb if clean else None)
            res = _check_op(op, A, B, runs[op])
        except Exception as e:
            runs[op] = ("exc", _exc(e))
            res = [("harness: building the case or reading the result raised", "no exception", _exc(e))]
        if runs[op][0] == "exc" or runs[op][4] is not None:
            clean = False
        acc.add(case, res)
    case = {"k": "partition", "A": A, "B": B, "ahi": ahi, "bhi": bhi}
    acc.add(case, _check_partition(A, B, runs))
    return clean


def t_c10_pairs_grid(acc, ncells, part, nparts):
    tiers = [sorted(t) for t in interval_sets(ncells, ["a", "b"], 1.0)]
    hi = float(ncells)
    tbs = [mk_itier(B, 0.0, hi, name="B") for B in tiers]
    for i, A in enumerate(tiers):
        if i % nparts != part:
            continue
        ta = mk_itier(A, 0.0, hi, name="A")
        for j, B in enumerate(tiers):
            if not _pair_all(acc, A, B, hi, hi, ta, tbs[j]):
                ta = mk_itier(A, 0.0, hi, name="A")
                tbs[j] = mk_itier(B, 0.0, hi, name="B")


def _rand_pair(rng):
    pool = sorted(set(round(rng.uniform(0, 10), rng.choice([1, 2, 3])) for _ in range(rng.randint(4, 14))))

    def tier(n):
        out, pos = [], 0
        while pos + 1 < len(pool) and len(out) < n:
            j = min(len(pool) - 1, pos + rng.randint(1, 3))
            out.append([pool[pos], pool[j], rng.choice(["a", "b", "c"])])
            pos = j if rng.random() < 0.5 else j + 1  # touching or separated
        return out

    def skip(es):
        return es[rng.randint(0, max(0, len(es) - 1)):] if rng.random() < 0.3 else es

    style = rng.randrange(10)
    A = skip(tier(rng.randint(0, 8)))
    if style == 0:
        B = []
    elif style == 1:
        A, B = [], skip(tier(rng.randint(0, 8)))
    elif style == 2:
        B = [list(e) for e in A]  # identical tiers
    elif style == 3 and A:  # nested: B inside / around entries of A
        B = []
        for e in A:
            if rng.random() < 0.6:
                m1 = round(e[0] + (e[1] - e[0]) * 0.25, 6)
                m2 = round(e[0] + (e[1] - e[0]) * 0.75, 6)
                if e[0] < m1 < m2 < e[1]:
                    B.append([m1, m2, rng.choice(["a", "b"])])
    else:
        rng.shuffle(pool)
        pool.sort(key=lambda x: x if rng.random() < 0.8 else x)  # same pool: shared boundaries, touching
        pool.sort()
        B = skip(tier(rng.randint(0, 8)))
    return A, B


def t_c10_pairs_rnd(acc, seed, count):
    rng = random.Random(seed)
    for _ in range(count):
        A, B = _rand_pair(rng)
        ahi, bhi = rng.choice([(10.5, 10.5), (None, None), (10.5, 12.0), (None, 10.5)])
        if not A and ahi is None:
            ahi = 10.5
        if not B and bhi is None:
            bhi = 10.5
        _pair_all(acc, sorted(A), sorted(B), ahi, bhi)


def t_c10_slivers(acc, seed, count):
    """tiers with neighbouring same-label entries that praatio's tolerant entry equality cannot tell apart"""
    rng = random.Random(seed)
    for _ in range(count):
        base = float(rng.choice([1, 2, 3, 5]))
        w = rng.choice([2e-10, 3e-10, 4e-10]) * base
        n = rng.randint(2, 3)
        cuts = [base + k * w for k in range(n + 1)]
        lab = rng.choice(["a", "b"])
        A = [[cuts[k], cuts[k + 1], lab] for k in range(n)]
        if rng.random() < 0.5:
            A = [[0.0, 0.5, "c"]] + A
        k = rng.randrange(n)
        style = rng.randrange(3)
        if style == 0:
            B = [[cuts[k], cuts[k + 1], "x"]]  # exactly one sliver
        elif style == 1:
            B = [[cuts[k], base + 1.0, "x"]]  # from one sliver on
        else:
            B = [[(cuts[k] + cuts[k + 1]) / 2, cuts[k + 1], "x"]]  # half a sliver
        for op in SET_OPS:
            case = {"k": "setop", "op": op, "A": A, "B": B, "ahi": 10.0, "bhi": 10.0, "sliver": True}
            acc.run(ev_setop, case)
            case = {"k": "setop", "op": op, "A": B, "B": A, "ahi": 10.0, "bhi": 10.0, "sliver": True}
            acc.run(ev_setop, case)


def ev_punion(case):
    """point-tier union: exactly the union of the time points, labels of coinciding points joined"""
    A, B = sorted(case["A"]), sorted(case["B"])
    ta = mk_ptier(A, case.get("alo"), case.get("ahi"), name="A")
    tb = mk_ptier(B, case.get("blo"), case.get("bhi"), name="B")
    try:
        r = ta.union(tb)
    except Exception as e:
        return [("point union: raises an exception", "a tier", _exc(e))]
    out = []
    if plain(ta.entries) != A or plain(tb.entries) != B:
        out.append(("point union: an operand is modified", [A, B], [plain(ta.entries), plain(tb.entries)]))
    R = plain(r.entries)
    da, db = dict((t, l) for t, l in A), dict((t, l) for t, l in B)
    times = sorted(set(da) | set(db))
    if [g[0] for g in R] != times:
        out.append(("point union: time points are not exactly the union of both tiers' time points", times, R))
        return out
    for t, l in R:
        if t in da and t in db:
            ok = l in (da[t] + "-" + db[t], db[t] + "-" + da[t])
        else:
            ok = l == (da[t] if t in da else db[t])
        if not ok:
            out.append(("point union: label of a (coinciding) point is not the (joined) label of its sources",
                        [da.get(t), db.get(t)], R))
            break
    bad = wf_point_entries(R, r.minTimestamp, r.maxTimestamp)
    if bad:
        out.append(("point union: result's span does not grow to contain the added points (validate() is False)",
                    "span containing every point", "%s; span [%r, %r]; validate() -> %r"
                    % (bad, r.minTimestamp, r.maxTimestamp, r.validate("silence"))))
    return out


def t_c10_points_grid(acc, npoints, part, nparts):
    tiers = point_sets(npoints, ["a", "b"], 1.0)
    hi = float(npoints - 1)
    for i, A in enumerate(tiers):
        if i % nparts != part:
            continue
        for B in tiers:
            case = {"k": "punion", "A": A, "B": B, "alo": 0.0, "ahi": hi, "blo": 0.0, "bhi": hi}
            acc.run(ev_punion, case)
            if A and B:  # spans = hull of each tier's own points
                case = {"k": "punion", "A": A, "B": B}
                acc.run(ev_punion, case)


def t_c10_points_rnd(acc, seed, count):
    rng = random.Random(seed)
    for _ in range(count):
        pool = sorted(set(round(rng.uniform(0, 10), rng.choice([1, 2, 3])) for _ in range(rng.randint(1, 12))))
        A = [[t, rng.choice(["a", "b", "c"])] for t in pool if rng.random() < 0.5]
        B = [[t, rng.choice(["a", "b", "c"])] for t in pool if rng.random() < 0.5]
        if rng.random() < 0.1:
            B = [list(e) for e in A]
        spans = rng.choice([(0.0, 10.0, 0.0, 10.0), (None, None, None, None), (0.0, 5.0, 0.0, 10.0)])
        case = {"k": "punion", "A": A, "B": B, "alo": spans[0], "ahi": spans[1], "blo": spans[2], "bhi": spans[3]}
        if (not A and case["ahi"] is None) or (not B and case["bhi"] is None):
            case.update(alo=0.0, ahi=10.0, blo=0.0, bhi=10.0)
        acc.run(ev_punion, case)


def run_c10(tier, seed, jobs):
    t0 = time.time()
    thorough = tier == "thorough"
    npoints = 6 if thorough else 5
    tasks = []
    parts = 48
    base_cells = 5 if (thorough or jobs >= 8) else 4
    for p in range(parts):
        tasks.append(("c10_pairs_grid", (base_cells, p, parts)))
    for p in range(8):
        tasks.append(("c10_points_grid", (npoints, p, 8)))
    nr = 40000 if thorough else 3000
    for i in range(16):
        tasks.append(("c10_pairs_rnd", (seed * 1000 + i, nr // 16)))
        tasks.append(("c10_points_rnd", (seed * 1000 + 30 + i, nr // 16)))
    tasks.append(("c10_slivers", (seed * 1000 + 60, 400 if thorough else 100)))
    big_parts = 0
    if thorough and jobs >= 12:
        # the 6-cell domain (2131 x 2131 pairs, about 35 CPU-minutes) is run last, in slices under a wall-clock
        # deadline; slices that do not start before the deadline are skipped and the bound says so
        big_parts = 512
        for p in range(big_parts):
            tasks.append(("c10_pairs_grid", (6, p, big_parts), t0 + 235))
    driven = _drive(tasks, jobs)
    skipped = getattr(_drive, "skipped", 0)
    ntiers = len(interval_sets(base_cells, ["a", "b"], 1.0))
    big = ""
    if big_parts:
        if skipped == 0:
            big = "and on ALL 2131 x 2131 ordered pairs on 6 unit cells; "
        else:
            big = ("and on %d of %d equal slices (by first operand) of the 2131 x 2131 pairs on 6 unit cells (the rest did "
                   "not start before the 235 s deadline); " % (big_parts - skipped, big_parts))
    bound = ("difference / intersection / union / mergeLabels and the partition + no-invention consequences on ALL %d x %d ordered "
             "pairs of interval tiers = all subsets of non-overlapping (possibly touching) intervals on %d unit cells x 2 labels "
             "(empty, identical, touching, nested all included), span [0,%d]; %s+ %d random decimal pairs (shared boundary pool, "
             "empty / identical / nested styles, equal or different spans); + %d sliver pairs (same-label neighbours 2-4e-10 "
             "wide); point union on ALL pairs of point tiers on %d grid points x {absent,a,b} (full span and own-hull spans) + "
             "%d random pairs; seed=%d" % (ntiers, ntiers, base_cells, base_cells, big, nr, 2 * (400 if thorough else 100),
                                           npoints, nr, seed))
    return _result("C10: IntervalTier.difference/intersection/union/mergeLabels and PointTier.union against the labelled-time "
                   "algebra of the property text (entry lists and half-open labelled-time view)", bound, True, t0, driven)


# ==== REGISTRY ====
TASKS = {n[2:]: f for n, f in list(globals().items()) if n.startswith("t_") and callable(f)}
EVALS = {n[3:]: f for n, f in list(globals().items()) if n.startswith("ev_") and callable(f)}

CHECKS = {"c20_series": run_c20, "c15_queries": run_c15, "c14_adjusters": run_c14, "c10_setops": run_c10}


def replay(case):
    with _quiet():
        try:
            res = EVALS[case["k"]](case)
        finally:
            _cleanup_scratch()
    if res is SKIP or not res:
        return {"reproduced": False, "observed": "no violation"}
    return {"reproduced": True, "observed": "; ".join("%s [expected %s, observed %s]" % r for r in res)[:1000]}
