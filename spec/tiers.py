"""Specification vocabulary for tiers (DESIGN section 3).

Written from the property statements in /verif/properties.jsonl, not from praatIO's code.
The same text is executed symbolically by pyvc (proofs) and natively (replay / bounded).
Only the spec-language subset may be used here: expressions, if/return, comprehensions.
"""
from praatio.utilities.constants import Interval, Point
from praatio.utilities import errors


# ---- C05: well-formedness --------------------------------------------------------------


def valid(e):
    return e.start < e.end


def disjoint_ordered(a, b):
    """a comes before b without positive overlap"""
    return a.end <= b.start


def in_span_i(e, lo, hi):
    return lo <= e.start and e.end <= hi


def in_span_p(p, lo, hi):
    return lo <= p.time and p.time <= hi


# ---- C06: crop -------------------------------------------------------------------------


def overlaps(e, a, b):
    """positive-length overlap of interval e with the window [a, b]"""
    return e.start < b and e.end > a


def keep(e, a, b, mode):
    if mode == "strict":
        return a <= e.start and e.end <= b
    return overlaps(e, a, b)


def kept_value(e, a, b, mode):
    if mode == "truncated":
        return Interval(max(e.start, a), min(e.end, b), e.label)
    return e


CROP_MODES = ("strict", "lax", "truncated")


def getIntervalsInInterval(start, end, intervals, mode):
    if mode not in CROP_MODES:
        raise errors.WrongOption("mode", mode, CROP_MODES)
    return [kept_value(e, start, end, mode) for e in intervals if keep(e, start, end, mode)]


# ---- constructors (C05) ----------------------------------------------------------------
# Model of what a constructor builds: entries normalised and sorted, span = hull of the
# entries and the given bounds, TextgridStateError unless every interval is valid and no
# two overlap.

from praatio.utilities import utils
from spec.prims import forall, exists, pairwise, adjacent, strip, is_sorted


def norm_interval(e):
    return Interval(float(e[0]), float(e[1]), strip(e[2]))


def norm_point(e):
    return Point(float(e[0]), strip(e[1]))


def hull_lo(values, bound):
    if bound is None:
        if len(values) == 0:
            raise errors.TimelessTextgridTierException()
        return min(values)
    return min(values + [float(bound)])


def hull_hi(values, bound):
    if bound is None:
        if len(values) == 0:
            raise errors.TimelessTextgridTierException()
        return max(values)
    return max(values + [float(bound)])


def IntervalTier_init(self, name, entries, minT, maxT):
    E = sorted([norm_interval(e) for e in entries])
    lo = hull_lo([e.start for e in E], minT)
    hi = hull_hi([e.end for e in E], maxT)
    self.name = name
    self._entries = E
    self.minTimestamp = lo
    self.maxTimestamp = hi
    self.errorReporter = utils.reportWarning
    if not forall(E, valid):
        raise errors.TextgridStateError("")
    if not pairwise(E, disjoint_ordered):
        raise errors.TextgridStateError("")


def PointTier_init(self, name, entries, minT, maxT):
    E = sorted([norm_point(e) for e in entries])
    # a point tier takes the hull of the point times and of whichever bounds are given
    times = [e.time for e in E]
    if minT is not None:
        times = times + [float(minT)]
    if maxT is not None:
        times = times + [float(maxT)]
    if len(times) == 0:
        raise errors.TimelessTextgridTierException()
    lo = min(times)
    hi = max(times)
    self.name = name
    self._entries = E
    self.minTimestamp = lo
    self.maxTimestamp = hi
    self.errorReporter = utils.reportWarning


# ---- C06: crop of tiers ----------------------------------------------------------------
# "Without rebasing, timestamps are untouched and the span is [a,b]; with rebasing all
# timestamps are shifted so the window (or an earlier-starting lax interval) begins at 0 and
# the span is [0, b-a]; in lax mode either span is widened just enough to contain overhanging
# intervals.  A window containing no entries yields an empty tier with that span, never an
# error, whereas a window with a >= b is rejected with ArgumentError."

from praatio.data_classes.interval_tier import IntervalTier
from praatio.data_classes.point_tier import PointTier


def shift_interval(e, d):
    return Interval(e.start - d, e.end - d, e.label)


def IntervalTier_crop(self, cropStart, cropEnd, mode, rebaseToZero):
    if mode not in CROP_MODES:
        raise errors.WrongOption("mode", mode, CROP_MODES)
    if cropStart >= cropEnd:
        raise errors.ArgumentError("")
    K = [kept_value(e, cropStart, cropEnd, mode) for e in self.entries if keep(e, cropStart, cropEnd, mode)]
    if rebaseToZero is True:
        if len(K) == 0:
            d = cropStart
        else:
            d = min(cropStart, K[0].start)
        return IntervalTier(self.name, [shift_interval(e, d) for e in K], 0.0, cropEnd - cropStart)
    return IntervalTier(self.name, K, cropStart, cropEnd)


def PointTier_crop(self, cropStart, cropEnd, mode, rebaseToZero):
    if cropStart >= cropEnd:
        raise errors.ArgumentError("")
    K = [p for p in self.entries if cropStart <= p.time and p.time <= cropEnd]
    if rebaseToZero is True:
        return PointTier(self.name, [Point(p.time - cropStart, p.label) for p in K], 0.0, cropEnd - cropStart)
    return PointTier(self.name, K, cropStart, cropEnd)


# ---- C09: time shifting and concatenation -----------------------------------------------
# "editTimestamps(offset) moves every entry by exactly offset keeping labels and order; entries
# that end up wholly before time 0 are dropped and an interval crossing 0 is clipped to start at 0;
# the span grows to contain moved entries and never shrinks; leaving the old span is reported as
# the reportingMode says (nothing, a message, or an exception)."

REPORTING_MODES = ("silence", "warning", "error")


def IntervalTier_editTimestamps(self, offset, reportingMode):
    if reportingMode not in REPORTING_MODES:
        raise errors.WrongOption("reportingMode", reportingMode, REPORTING_MODES)
    if reportingMode == "error" and exists(
            self.entries, lambda e: offset + e.start < self.minTimestamp or offset + e.end > self.maxTimestamp):
        raise errors.OutOfBounds("")
    moved = [Interval(max(offset + e.start, 0), offset + e.end, e.label) for e in self.entries if offset + e.end > 0]
    # hull of the old span and the moved entries: grows to contain them, never shrinks
    return IntervalTier(self.name, moved, self.minTimestamp, self.maxTimestamp)


def PointTier_editTimestamps(self, offset, reportingMode):
    if reportingMode not in REPORTING_MODES:
        raise errors.WrongOption("reportingMode", reportingMode, REPORTING_MODES)
    if reportingMode == "error" and exists(
            self.entries, lambda p: p.time + offset < self.minTimestamp or p.time + offset > self.maxTimestamp):
        raise errors.OutOfBounds("")
    moved = [Point(p.time + offset, p.label) for p in self.entries if p.time + offset >= 0]
    return PointTier(self.name, moved, self.minTimestamp, self.maxTimestamp)


# "Appending tier B to A yields A's entries unchanged followed by B's entries shifted by A's end
# time, a span ending at the sum of both end times"


def shift_entry(e, d):
    if len(e) == 3:
        return Interval(e.start + d, e.end + d, e.label)
    return Point(e.time + d, e.label)


def TextgridTier_appendTier(self, tier):
    if self.tierType != tier.tierType:
        raise errors.ArgumentError("")
    shifted = [shift_entry(e, self.maxTimestamp) for e in tier.entries]
    return type(self)(self.name, list(self.entries) + shifted, self.minTimestamp,
                      self.maxTimestamp + tier.maxTimestamp)


# ---- C08: insertSpace ------------------------------------------------------------------
# "Inserting a blank of duration d at time s leaves every entry ending at or before s unchanged,
# moves every entry starting at or after s later by exactly d, lengthens the span by d, and treats
# an interval straddling s as selected: stretched by d, split into two same-labelled pieces around
# the gap, left as is, or rejected with an error; points at t <= s stay and later points move by d."

SPACE_MODES = ("stretch", "split", "no_change", "error")


def straddles(e, s):
    return e.start < s and s < e.end


def insert_space_elem(e, s, d, mode):
    if e.end <= s:
        return [e]
    if e.start >= s:
        return [Interval(e.start + d, e.end + d, e.label)]
    if mode == "stretch":
        return [Interval(e.start, e.end + d, e.label)]
    if mode == "split":
        return [Interval(e.start, s, e.label), Interval(s + d, e.end + d, e.label)]
    return [e]


def IntervalTier_insertSpace(self, start, duration, collisionMode):
    if collisionMode not in SPACE_MODES:
        raise errors.WrongOption("collisionMode", collisionMode, SPACE_MODES)
    if collisionMode == "error" and exists(self.entries, lambda e: straddles(e, start)):
        raise errors.ArgumentError("")
    out = [x for e in self.entries for x in insert_space_elem(e, start, duration, collisionMode)]
    return IntervalTier(self.name, out, self.minTimestamp, self.maxTimestamp + duration)


def PointTier_insertSpace(self, start, duration, _collisionMode):
    out = [p if p.time <= start else Point(p.time + duration, p.label) for p in self.entries]
    return PointTier(self.name, out, self.minTimestamp, self.maxTimestamp + duration)


# ---- C15: queries ----------------------------------------------------------------------


def getValuesInInterval(dataTupleList, start, end):
    return [d for d in dataTupleList if start <= d[0] and d[0] <= end]


# ---- C11: insertEntry / deleteEntry ------------------------------------------------------
# "Inserting an entry that collides with nothing adds it and nothing else changes. On collision,
# 'error' raises CollisionError, 'replace' removes exactly the colliding entries and inserts the new
# one, and 'merge' replaces them by one entry covering their joint extent whose label joins all labels
# with '-' in time order (old then new for points). Afterwards the tier is in time order and its span
# has grown just enough to contain the new entry; deleteEntry removes exactly the given entry and
# raises if it is absent."

from spec.prims import first_index, remove_at

COLLISION_MODES = ("replace", "merge", "error")


def TextgridTier_deleteEntry(self, entry):
    i = first_index(self._entries, lambda e: e == entry)
    if i < 0:
        raise ValueError("")
    self._entries = remove_at(self._entries, i)


def IntervalTier_insertEntry(self, entry, collisionMode, collisionReportingMode):
    if collisionMode not in COLLISION_MODES:
        raise errors.WrongOption("collisionMode", collisionMode, COLLISION_MODES)
    if collisionReportingMode not in REPORTING_MODES:
        raise errors.WrongOption("collisionReportingMode", collisionReportingMode, REPORTING_MODES)
    new = Interval(entry[0], entry[1], strip(entry[2]))
    if new.start >= new.end:
        raise errors.ArgumentError("")
    M = [e for e in self.entries if overlaps(e, new.start, new.end)]
    rest = [e for e in self.entries if not overlaps(e, new.start, new.end)]
    if len(M) == 0:
        E2 = sorted(list(self.entries) + [new])
    elif collisionMode == "replace":
        E2 = sorted(rest + [new])
    elif collisionMode == "merge":
        G = sorted(M + [new])
        merged = Interval(min([g.start for g in G]), max([g.end for g in G]), "-".join([g.label for g in G]))
        E2 = sorted(rest + [merged])
    else:
        raise errors.CollisionError("")
    self._entries = E2
    self.minTimestamp = min(self.minTimestamp, new.start)
    self.maxTimestamp = max(self.maxTimestamp, new.end)


# ---- C07: eraseRegion ---------------------------------------------------------------------
# "Erasing a region [a,b] lying inside a tier's span leaves the annotation outside it unchanged and leaves
# nothing inside it: 'truncate' cuts intervals that reach into the region at a and b, 'categorical' removes
# every interval that overlaps it, 'error' raises CollisionError if anything overlaps, and points with
# a <= t <= b are removed (a region with a >= b is rejected). ... without shrinking the span is unchanged."

ERASE_MODES = ("truncate", "categorical", "error")


def erase_pieces(e, a, b, mode):
    """what is left of entry e when [a,b] is blanked"""
    if not overlaps(e, a, b):
        return [e]
    if mode == "categorical":
        return []
    if e.start < a and e.end > b:
        return [Interval(e.start, a, e.label), Interval(b, e.end, e.label)]
    if e.start < a:
        return [Interval(e.start, a, e.label)]
    if e.end > b:
        return [Interval(b, e.end, e.label)]
    return []


def IntervalTier_eraseRegion_noshrink(self, start, end, collisionMode, doShrink):
    if collisionMode not in ERASE_MODES:
        raise errors.WrongOption("collisionMode", collisionMode, ERASE_MODES)
    if start >= end:
        raise errors.ArgumentError("")
    if collisionMode == "error" and exists(self.entries, lambda e: overlaps(e, start, end)):
        raise errors.CollisionError("")
    kept = [x for e in self.entries for x in erase_pieces(e, start, end, collisionMode)]
    return IntervalTier(self.name, kept, self.minTimestamp, self.maxTimestamp)


def PointTier_eraseRegion(self, start, end, collisionMode, doShrink):
    if start >= end:
        raise errors.ArgumentError("")
    kept = [p for p in self.entries if not (start <= p.time and p.time <= end)]
    if doShrink is True:
        d = end - start
        moved = [p if p.time < start else Point(p.time - d, p.label) for p in kept]
        return PointTier(self.name, moved, self.minTimestamp, self.maxTimestamp - d)
    return PointTier(self.name, kept, self.minTimestamp, self.maxTimestamp)


def PointTier_insertEntry(self, entry, collisionMode, collisionReportingMode):
    """C11 for point tiers: collision = a point at the same time; 'merge' joins the labels old-new"""
    if collisionMode not in COLLISION_MODES:
        raise errors.WrongOption("collisionMode", collisionMode, COLLISION_MODES)
    if collisionReportingMode not in REPORTING_MODES:
        raise errors.WrongOption("collisionReportingMode", collisionReportingMode, REPORTING_MODES)
    new = Point(entry[0], strip(entry[1]))
    i = first_index(self._entries, lambda p: p.time == new.time)
    if i < 0:
        E2 = sorted(list(self._entries) + [new])
    elif collisionMode == "replace":
        E2 = sorted(remove_at(self._entries, i) + [new])
    elif collisionMode == "merge":
        old = self._entries[i]
        E2 = sorted(remove_at(self._entries, i) + [Point(new.time, old.label + "-" + new.label)])
    else:
        raise errors.CollisionError("")
    self._entries = E2
    self.minTimestamp = min(self.minTimestamp, new.time)
    self.maxTimestamp = max(self.maxTimestamp, new.time)


# ---- C07 with shrinking: "everything after b moves earlier by exactly b-a, the span's end decreases by b-a,
# and an interval that straddled the region comes out as one interval shortened by b-a"

from spec.prims import insert_at


def shrink_shift(x, a, b):
    """an entry that survived the blanking of [a,b]: it lies wholly before a or wholly after b"""
    if x.end <= a:
        return [x]
    if x.start >= b:
        return [Interval(a + (x.start - b), a + (x.end - b), x.label)]
    return []


def fuse_at(L, t):
    """two touching same-label pieces meeting at time t become one entry (the two halves of a straddler)"""
    i = first_index(range(len(L) - 1),
                    lambda k: L[k].end == t and L[k + 1].start == t and L[k].label == L[k + 1].label)
    if i < 0:
        return L
    fused = Interval(L[i].start, L[i + 1].end, L[i].label)
    return insert_at(remove_at(remove_at(L, i + 1), i), i, fused)


def IntervalTier_eraseRegion(self, start, end, collisionMode, doShrink):
    if collisionMode not in ERASE_MODES:
        raise errors.WrongOption("collisionMode", collisionMode, ERASE_MODES)
    if start >= end:
        raise errors.ArgumentError("")
    if collisionMode == "error" and exists(self.entries, lambda e: overlaps(e, start, end)):
        raise errors.CollisionError("")
    kept = [x for e in self.entries for x in erase_pieces(e, start, end, collisionMode)]
    if doShrink is not True:
        return IntervalTier(self.name, kept, self.minTimestamp, self.maxTimestamp)
    moved = [y for x in kept for y in shrink_shift(x, start, end)]
    return IntervalTier(self.name, fuse_at(moved, start), self.minTimestamp, start + (self.maxTimestamp - end))


# ---- C05 as one predicate (used where a contract covers both tier classes)


def well_formed_interval(t):
    return (forall(t.entries, valid)
            and forall(t.entries, lambda e: t.minTimestamp <= e.start and e.end <= t.maxTimestamp)
            and forall(t.entries, lambda e: strip(e.label) == e.label)
            and pairwise(t.entries, disjoint_ordered)
            and is_sorted(t.entries))


def well_formed_point(t):
    return (forall(t.entries, lambda p: t.minTimestamp <= p.time and p.time <= t.maxTimestamp)
            and forall(t.entries, lambda p: strip(p.label) == p.label)
            and is_sorted(t.entries))


def well_formed(t):
    if t.tierType == "IntervalTier":
        return well_formed_interval(t)
    return well_formed_point(t)
