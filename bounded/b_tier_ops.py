"""Bounded stand-ins for C05, C07, C08, C09, C11, C12, C13 (tier and textgrid operations in
praatio/data_classes/*.py).

Every oracle below is a plain-list model written from the property text in /verif/properties.jsonl:

* a tier is (sorted list of entries, lo, hi); an interval is [start, end, label], a point [time, label];
* `overlaps(e, a, b)`  <=>  e.start < b and e.end > a   (positive length; touching does not overlap);
* the labelled-time view lab(T, tau) = label of the entry with start <= tau < end (half open), used where the
  property allows two touching same-label pieces to come out fused (eraseRegion with shrinking, the
  insertSpace;eraseRegion inverse law);
* a textgrid is an ordered list of (name, tier) with distinct names plus a span.

Exact arithmetic: all "grid" domains use dyadic times k/8 or k/16 (every float +,- on them is exact, so the
expected entries are compared with ==).  The "decimal" domains use 3-decimal timestamps; there the oracle is
evaluated with fractions.Fraction and compared within 1e-9, and an exception / a mis-joined piece that only
arises there is reported under its own "float rounding" category.

Nothing here looks at praatIO's implementation for an expected value.  Knowledge of suspected defects is used
only to give an already established mismatch a stable category string.
"""
import contextlib
import hashlib
import io
import itertools
import json
import os
import random
import shutil
import time
from fractions import Fraction as Fr

from praatio.data_classes.interval_tier import IntervalTier
from praatio.data_classes.point_tier import PointTier
from praatio.data_classes.textgrid import Textgrid
from praatio.utilities.constants import Interval, Point
from praatio.utilities import errors as perrors

ROOT = os.path.dirname(os.path.dirname(os.path.abspath(__file__)))
TMP_ROOT = os.path.join(ROOT, "out", "tmp", "b_tier_ops")

SKIP = "SKIP"  # evaluator result for a case the property does not speak about
MAX_PER_CAT = 5
U = 0.125  # grid unit
TOL = 1e-9

PraatioError = perrors.PraatioException


# =========================================================================================
# infrastructure
# =========================================================================================


class Acc:
    """Accumulates case counts and, per violation category, the few smallest failing cases."""

    def __init__(self, dedupe=False):
        self.cases = 0
        self.distinct = 0
        self.viol = {}
        self.samples = {}
        self.seen = set() if dedupe else None
        self.notes = {}

    def add(self, case, res):
        self.cases += 1
        if res is SKIP:
            return
        if self.seen is not None:
            h = hashlib.md5(json.dumps(case, sort_keys=True, default=str).encode()).digest()
            if h in self.seen:
                return
            self.seen.add(h)
        self.distinct += 1
        k = case.get("k")
        if k not in self.samples or (len(str(self.samples[k])) < 120 and len(str(case)) > len(str(self.samples[k]))):
            if self.distinct < 2000:
                self.samples[k] = case
        for what, exp, obs in res:
            self.addv(what, case, exp, obs)

    def run(self, ev, case, *extra):
        try:
            res = ev(case, *extra)
        except Exception as e:  # the harness itself (building the case, reading the result) failed
            res = [("harness: building the case or reading the result raised", "no exception", _exc(e))]
        self.add(case, res)
        return res

    def addv(self, what, case, exp, obs):
        js = json.dumps(case, sort_keys=True, default=str)
        L = self.viol.setdefault(what, [])
        L.append((len(js), js, str(exp)[:400], str(obs)[:400]))
        if len(L) > 4 * MAX_PER_CAT:
            L.sort()
            del L[MAX_PER_CAT:]

    def note(self, key, n=1):
        self.notes[key] = self.notes.get(key, 0) + n

    def dump(self):
        for L in self.viol.values():
            L.sort()
            del L[MAX_PER_CAT:]
        return (self.cases, self.distinct, self.viol, list(self.samples.values()), self.notes)


def _quiet():
    return contextlib.redirect_stdout(io.StringIO())


def _run_task(task):
    fname, args = task[0], task[1]
    acc = Acc(dedupe=fname.endswith("_rnd"))
    try:
        with _quiet():
            TASKS[fname](acc, *args)
    finally:
        _cleanup_scratch()
    return acc.dump()


def _pool_map(fn, tasks, jobs):
    if jobs <= 1 or len(tasks) <= 1:
        return [fn(t) for t in tasks]
    import multiprocessing as mp

    ctx = mp.get_context("fork")
    with ctx.Pool(min(jobs, len(tasks))) as pool:
        return pool.map(fn, tasks, chunksize=1)  # ordered: deterministic merge


def _merge(results):
    cases = distinct = 0
    viol, samples, notes = {}, [], {}
    for c, d, v, s, n in results:
        cases += c
        distinct += d
        for what, L in v.items():
            viol.setdefault(what, []).extend(L)
        samples.extend(s)
        for k, x in n.items():
            notes[k] = notes.get(k, 0) + x
    out = []
    for what in sorted(viol):
        for _, js, exp, obs in sorted(set(viol[what]))[:MAX_PER_CAT]:
            out.append({"what": what, "case": json.loads(js), "expected": exp, "observed": obs})
    picked, seen = [], set()
    for s in samples:
        if s.get("k") not in seen:
            seen.add(s.get("k"))
            picked.append(s)
    return cases, distinct, out, picked[:3], notes


def _drive(tasks, jobs):
    return _merge(_pool_map(_run_task, tasks, jobs))


def _result(what, bound, exhaustive, t0, driven):
    cases, distinct, viol, samples, _notes = driven
    return {
        "report": {"what": what, "bound": bound, "cases": cases, "distinct": distinct, "exhaustive": exhaustive,
                   "wall_s": round(time.time() - t0, 2), "samples": samples},
        "violations": viol,
    }


def _exc(e):
    return "%s: %s" % (type(e).__name__, " ".join(str(e).split())[:160])


def _scratch():
    d = os.path.join(TMP_ROOT, "p%d" % os.getpid())
    os.makedirs(d, exist_ok=True)
    return d


def _cleanup_scratch():
    shutil.rmtree(os.path.join(TMP_ROOT, "p%d" % os.getpid()), ignore_errors=True)
    try:
        os.rmdir(TMP_ROOT)
    except OSError:
        pass


# =========================================================================================
# plain-list views, constructors, domains
# =========================================================================================


def mk_itier(E, lo=None, hi=None, name="T"):
    return IntervalTier(name, [Interval(s, e, l) for s, e, l in E], lo, hi)


def mk_ptier(E, lo=None, hi=None, name="P"):
    return PointTier(name, [Point(t, l) for t, l in E], lo, hi)


def mk_tier(kind, E, lo=None, hi=None, name=None):
    if kind == "I":
        return mk_itier(E, lo, hi, name or "T")
    return mk_ptier(E, lo, hi, name or "P")


def plain(entries):
    """entries as plain lists (exact float comparison, never praatio's tolerant entry equality)"""
    return [list(e) for e in entries]


def view(tier):
    return {"E": plain(tier.entries), "lo": tier.minTimestamp, "hi": tier.maxTimestamp}


def kind_of(tier):
    return "I" if isinstance(tier, IntervalTier) else "P"


def interval_lists(npts, maxk):
    """ALL lists of at most maxk non-overlapping (possibly touching) intervals whose end points are grid indices
    0..npts-1, as lists of (start index, end index)"""
    out = []

    def rec(pos, cur):
        out.append(list(cur))
        if len(cur) == maxk:
            return
        for s in range(pos, npts - 1):
            for e in range(s + 1, npts):
                cur.append((s, e))
                rec(e, cur)
                cur.pop()

    rec(0, [])
    return out


def labelings(k, alphabet="ab"):
    """label assignments up to renaming: the first label is fixed"""
    if k == 0:
        return [()]
    return [(alphabet[0],) + rest for rest in itertools.product(alphabet, repeat=k - 1)]


def point_lists(npts, maxk):
    out = []
    for k in range(0, maxk + 1):
        out.extend(list(c) for c in itertools.combinations(range(npts), k))
    return out


def fuse_at(E, a, tol=0.0):
    """fuse the (at most one) pair of touching same-label neighbours whose common boundary is a"""
    E = [list(e) for e in E]
    for i in range(len(E) - 1):
        if abs(E[i][1] - a) <= tol and abs(E[i + 1][0] - a) <= tol and E[i][2] == E[i + 1][2]:
            return E[:i] + [[E[i][0], E[i + 1][1], E[i][2]]] + E[i + 2:]
    return E


def fuse_all(E, tol=0.0):
    """canonical form of the labelled-time view: every pair of touching same-label neighbours fused"""
    out = []
    for e in E:
        if out and abs(out[-1][1] - e[0]) <= tol and out[-1][2] == e[2]:
            out[-1] = [out[-1][0], e[1], e[2]]
        else:
            out.append(list(e))
    return out


def same_entries(exp, got, tol=0.0):
    if len(exp) != len(got):
        return False
    for x, y in zip(exp, got):
        if len(x) != len(y) or x[-1] != y[-1]:
            return False
        for u, v in zip(x[:-1], y[:-1]):
            if tol == 0.0:
                if u != v:
                    return False
            elif abs(u - v) > tol:
                return False
    return True


def same_num(x, y, tol=0.0):
    return x == y if tol == 0.0 else abs(x - y) <= tol


def ffl(E):
    """Fractions -> floats for printing"""
    return [[float(v) if not isinstance(v, str) else v for v in e] for e in E]


# well-formedness (C05), on the observable state of a real tier


def wf_problem(tier):
    """None if the tier is well-formed in the sense of C05, else the name of the first violated clause"""
    E = tier.entries
    lo, hi = tier.minTimestamp, tier.maxTimestamp
    if isinstance(tier, IntervalTier):
        for e in E:
            if not e[0] < e[1]:
                return "an interval has start >= end"
        for x, y in zip(E, E[1:]):
            if x[0] > y[0]:
                return "entries are not in time order"
            if x[1] > y[0]:
                return "two intervals overlap"
        for e in E:
            if e[0] < lo or e[1] > hi:
                return "an entry lies outside [minTimestamp, maxTimestamp]"
    else:
        for x, y in zip(E, E[1:]):
            if x[0] > y[0]:
                return "entries are not in time order"
        for e in E:
            if e[0] < lo or e[0] > hi:
                return "an entry lies outside [minTimestamp, maxTimestamp]"
    for e in E:
        if not isinstance(e[-1], str) or e[-1] != e[-1].strip():
            return "a label carries surrounding whitespace"
    try:
        ok = tier.validate("silence")
    except Exception as ex:
        return "validate() raises %s" % type(ex).__name__
    if ok is not True:
        return "validate() is not True although every stated clause holds"
    return None


# =========================================================================================
# C07  eraseRegion
# =========================================================================================

ERASE_MODES = ("truncate", "categorical", "error")


def erase_oracle_i(E, lo, hi, a, b, mode, shrink):
    """('raise', name) or ('ok', entries, lo, hi): written from C07.  Works on floats (dyadic) and Fractions."""
    if not a < b:
        return ("raise", "rejected")
    hit = [e for e in E if e[0] < b and e[1] > a]
    if mode == "error" and hit:
        return ("raise", "CollisionError")
    out = []
    for s, e, l in E:
        if not (s < b and e > a):
            out.append([s, e, l])  # annotation outside the region: unchanged
        elif mode == "truncate":
            if s < a:
                out.append([s, a, l])  # cut at a
            if e > b:
                out.append([b, e, l])  # cut at b
        # categorical: every overlapping interval goes
    if shrink:
        d = b - a
        out = [[s, e, l] if e <= a else [s - d, e - d, l] for s, e, l in out]
        hi = hi - d
    return ("ok", out, lo, hi)


def erase_oracle_p(E, lo, hi, a, b, shrink):
    if not a < b:
        return ("raise", "rejected")
    out = [[t, l] for t, l in E if not (a <= t <= b)]
    if shrink:
        d = b - a
        out = [[t, l] if t < a else [t - d, l] for t, l in out]
        hi = hi - d
    return ("ok", out, lo, hi)


def _check_erase_i(pre, E, lo, hi, a, b, mode, shrink, call, tol=0.0, frac=False):
    """compare one IntervalTier.eraseRegion call with the oracle; `call` performs it and returns the tier"""
    if frac:
        FE = [[Fr(s), Fr(e), l] for s, e, l in E]
        exp = erase_oracle_i(FE, Fr(lo), Fr(hi), Fr(a), Fr(b), mode, shrink)
        if exp[0] == "ok":
            exp = ("ok", ffl(exp[1]), float(exp[2]), float(exp[3]))
    else:
        exp = erase_oracle_i(E, lo, hi, a, b, mode, shrink)
    tag = "%s(%s, doShrink=%s)" % (pre, mode, shrink)
    try:
        got = call()
    except perrors.CollisionError as ex:
        if exp == ("raise", "CollisionError"):
            return []
        if exp[0] == "raise":
            return []  # a >= b rejected
        return [("%s: CollisionError although %s" % (tag, "no interval overlaps the region" if mode == "error"
                                                      else "the mode is not 'error'"), exp[1], _exc(ex))]
    except Exception as ex:
        if exp == ("raise", "rejected") and isinstance(ex, PraatioError):
            return []
        if exp == ("raise", "rejected"):
            return [("%s: region with a >= b raises a non-praatio exception" % pre, "praatio error", _exc(ex))]
        if frac and isinstance(ex, perrors.TextgridStateError):
            if shrink:
                return [("%s: TextgridStateError from float rounding in the shrink shift (decimal timestamps)" % pre,
                         exp[1:], _exc(ex))]
            return [("%s: TextgridStateError on decimal timestamps without shrinking" % pre, exp[1:], _exc(ex))]
        return [("%s: raises %s on a well-formed tier and an in-span region" % (tag, type(ex).__name__), exp[1:], _exc(ex))]
    if exp == ("raise", "CollisionError"):
        return [("%s: no CollisionError although an interval overlaps the region" % tag, "CollisionError",
                 plain(got.entries))]
    if exp == ("raise", "rejected"):
        return [("%s: region with a >= b is accepted" % pre, "rejected", plain(got.entries))]
    out = []
    gE = plain(got.entries)
    xE = exp[1]
    if shrink:
        # a pair of touching same-label pieces meeting at a may come out fused (same labelled-time view)
        ok = same_entries(fuse_at(xE, a, tol), fuse_at(gE, a, tol), tol)
    else:
        ok = same_entries(xE, gE, tol)
    if not ok:
        out.append(("%s: resulting annotation differs from the property's result" % tag, xE, gE))
    elif shrink and mode == "truncate":
        st = [e for e in E if e[0] < a and e[1] > b]
        if st:
            want = [st[0][0], float(Fr(st[0][1]) - (Fr(b) - Fr(a))) if frac else st[0][1] - (b - a), st[0][2]]
            if not any(same_entries([want], [g], tol) for g in gE):
                if frac:
                    out.append(("%s: straddling interval comes out in two pieces because the shifted piece misses a by "
                                "float rounding (decimal timestamps)" % pre, want, gE))
                else:
                    out.append(("%s: straddling interval does not come out as ONE interval shortened by b-a" % tag,
                                want, gE))
    if not (same_num(got.minTimestamp, exp[2], tol) and same_num(got.maxTimestamp, exp[3], tol)):
        out.append(("%s: span after the call is wrong (doShrink=%s)" % (pre, shrink), [exp[2], exp[3]],
                    [got.minTimestamp, got.maxTimestamp]))
    return out


def _check_erase_p(pre, E, lo, hi, a, b, mode, shrink, call, tol=0.0, frac=False):
    if frac:
        exp = erase_oracle_p([[Fr(t), l] for t, l in E], Fr(lo), Fr(hi), Fr(a), Fr(b), shrink)
        if exp[0] == "ok":
            exp = ("ok", ffl(exp[1]), float(exp[2]), float(exp[3]))
    else:
        exp = erase_oracle_p(E, lo, hi, a, b, shrink)
    tag = "%s(%s, doShrink=%s)" % (pre, mode, shrink)
    try:
        got = call()
    except Exception as ex:
        if exp[0] == "raise":
            if isinstance(ex, PraatioError):
                return []
            return [("%s: region with a >= b raises a non-praatio exception" % pre, "praatio error", _exc(ex))]
        if mode == "error" and isinstance(ex, perrors.CollisionError) and any(a <= t <= b for t, _l in E):
            return []  # the statement leaves open whether 'error' applies to points
        if frac and isinstance(ex, perrors.TextgridStateError):
            return [("%s: TextgridStateError from float rounding (decimal timestamps)" % pre, exp[1:], _exc(ex))]
        return [("%s: raises %s on a well-formed tier and an in-span region" % (tag, type(ex).__name__), exp[1:], _exc(ex))]
    if exp[0] == "raise":
        return [("%s: region with a >= b is accepted" % pre, "rejected", plain(got.entries))]
    out = []
    gE = plain(got.entries)
    if not same_entries(exp[1], gE, tol):
        out.append(("%s: resulting points differ from the property's result" % tag, exp[1], gE))
    if not (same_num(got.minTimestamp, exp[2], tol) and same_num(got.maxTimestamp, exp[3], tol)):
        out.append(("%s: span after the call is wrong (doShrink=%s)" % (pre, shrink), [exp[2], exp[3]],
                    [got.minTimestamp, got.maxTimestamp]))
    return out


def ev_erase_i(case, tier=None):
    E, lo, hi = case["E"], case["lo"], case["hi"]
    if tier is None:
        tier = mk_itier(E, lo, hi)
    a, b, mode, shrink = case["a"], case["b"], case["mode"], case["shrink"]
    frac = bool(case.get("dec"))
    return _check_erase_i("IntervalTier.eraseRegion", E, lo, hi, a, b, mode, shrink,
                          lambda: tier.eraseRegion(a, b, mode, shrink), TOL if frac else 0.0, frac)


def ev_erase_p(case, tier=None):
    E, lo, hi = case["E"], case["lo"], case["hi"]
    if tier is None:
        tier = mk_ptier(E, lo, hi)
    a, b, mode, shrink = case["a"], case["b"], case["mode"], case["shrink"]
    frac = bool(case.get("dec"))
    return _check_erase_p("PointTier.eraseRegion", E, lo, hi, a, b, mode, shrink,
                          lambda: tier.eraseRegion(a, b, mode, shrink), TOL if frac else 0.0, frac)


def build_tg(spec):
    """spec: {"lo","hi","tiers":[{"t":"I"/"P","name","E", optional "lo","hi"}]}"""
    tg = Textgrid(spec["lo"], spec["hi"])
    for ts in spec["tiers"]:
        tg.addTier(mk_tier(ts["t"], ts["E"], ts.get("lo", spec["lo"]), ts.get("hi", spec["hi"]), ts["name"]),
                   reportingMode="silence")
    return tg


def ev_erase_tg(case):
    spec, a, b, shrink = case["tg"], case["a"], case["b"], case["shrink"]
    tg = build_tg(spec)
    frac = bool(case.get("dec"))
    tol = TOL if frac else 0.0
    try:
        got = tg.eraseRegion(a, b, shrink)
    except Exception as ex:
        if not a < b:
            if isinstance(ex, PraatioError):
                return []
            return [("Textgrid.eraseRegion: region with a >= b raises a non-praatio exception", "praatio error", _exc(ex))]
        if frac and isinstance(ex, perrors.TextgridStateError):
            return [("Textgrid.eraseRegion: TextgridStateError from float rounding in the shrink shift (decimal timestamps)",
                     "a textgrid", _exc(ex))]
        return [("Textgrid.eraseRegion: raises %s on a valid textgrid and an in-span region" % type(ex).__name__,
                 "a textgrid", _exc(ex))]
    if not a < b:
        return [("Textgrid.eraseRegion: region with a >= b is accepted", "rejected", list(got.tierNames))]
    out = []
    names = [t["name"] for t in spec["tiers"]]
    if list(got.tierNames) != names:
        return [("Textgrid.eraseRegion: tier names / order changed", names, list(got.tierNames))]
    for ts in spec["tiers"]:
        rt = got.getTier(ts["name"])
        lo, hi = ts.get("lo", spec["lo"]), ts.get("hi", spec["hi"])
        if ts["t"] == "I":
            out += _check_erase_i("Textgrid.eraseRegion/interval tier", ts["E"], lo, hi, a, b, "truncate", shrink,
                                  lambda: rt, tol, frac)
        else:
            out += _check_erase_p("Textgrid.eraseRegion/point tier", ts["E"], lo, hi, a, b, "truncate", shrink,
                                  lambda: rt, tol, frac)
    xhi = float(Fr(spec["hi"]) - (Fr(b) - Fr(a))) if shrink else spec["hi"]
    if not (same_num(got.minTimestamp, spec["lo"], tol) and same_num(got.maxTimestamp, xhi, tol)):
        out.append(("Textgrid.eraseRegion: textgrid span after the call is wrong (doShrink=%s)" % shrink,
                    [spec["lo"], xhi], [got.minTimestamp, got.maxTimestamp]))
    return out


def _grid_itiers(npts, maxk, part, nparts):
    """(E, lo, hi) for every labelled interval list of the domain, slice `part` of `nparts`"""
    hi = (npts - 1) * U
    i = 0
    for ivs in interval_lists(npts, maxk):
        for labs in labelings(len(ivs)):
            i += 1
            if i % nparts != part:
                continue
            yield [[s * U, e * U, l] for (s, e), l in zip(ivs, labs)], 0.0, hi


def t_c07_grid_i(acc, npts, maxk, part, nparts):
    pts = [i * U for i in range(npts)]
    regions = [(a, b) for a in pts for b in pts if a < b]
    for E, lo, hi in _grid_itiers(npts, maxk, part, nparts):
        tier = mk_itier(E, lo, hi)
        for a, b in regions:
            for mode in ERASE_MODES:
                for shrink in (False, True):
                    case = {"k": "erase_i", "E": E, "lo": lo, "hi": hi, "a": a, "b": b, "mode": mode, "shrink": shrink}
                    acc.run(ev_erase_i, case, tier)
        if len(E) <= 1:
            for a, b in ((pts[1], pts[1]), (pts[2], pts[1])):
                for mode in ERASE_MODES:
                    case = {"k": "erase_i", "E": E, "lo": lo, "hi": hi, "a": a, "b": b, "mode": mode, "shrink": True}
                    acc.run(ev_erase_i, case, tier)


def t_c07_grid_p(acc, npts, maxk, part, nparts):
    pts = [i * U for i in range(npts)]
    hi = pts[-1]
    regions = [(a, b) for a in pts for b in pts if a < b]
    for i, idx in enumerate(point_lists(npts, maxk)):
        if i % nparts != part:
            continue
        E = [[j * U, "ab"[n % 2]] for n, j in enumerate(idx)]
        tier = mk_ptier(E, 0.0, hi)
        for a, b in regions:
            for mode in ERASE_MODES:
                for shrink in (False, True):
                    case = {"k": "erase_p", "E": E, "lo": 0.0, "hi": hi, "a": a, "b": b, "mode": mode, "shrink": shrink}
                    acc.run(ev_erase_p, case, tier)
        if len(E) <= 1:
            for a, b in ((pts[1], pts[1]), (pts[2], pts[1])):
                case = {"k": "erase_p", "E": E, "lo": 0.0, "hi": hi, "a": a, "b": b, "mode": "truncate", "shrink": True}
                acc.run(ev_erase_p, case, tier)


def t_c07_grid_tg(acc, npts, part, nparts):
    """textgrids of one interval tier (<= 2 entries) + one point tier (<= 2 points) + a second interval tier"""
    pts = [i * U for i in range(npts)]
    hi = pts[-1]
    regions = [(a, b) for a in pts for b in pts if a < b] + [(pts[1], pts[1])]
    itiers = [E for E, _lo, _hi in _grid_itiers(npts, 2, 0, 1)]
    ptiers = [[[j * U, "p"] for j in idx] for idx in point_lists(npts, 2)]
    n = 0
    for i, E1 in enumerate(itiers):
        # pair every interval tier with a few point tiers / second interval tiers (deterministic stride)
        for j in range(3):
            n += 1
            if n % nparts != part:
                continue
            P = ptiers[(i * 7 + j * 13) % len(ptiers)]
            E2 = itiers[(i * 11 + j * 17 + 5) % len(itiers)]
            spec = {"lo": 0.0, "hi": hi, "tiers": [{"t": "I", "name": "words", "E": E1}, {"t": "P", "name": "pts", "E": P},
                                                    {"t": "I", "name": "phones", "E": E2}]}
            for a, b in regions:
                for shrink in (False, True):
                    case = {"k": "erase_tg", "tg": spec, "a": a, "b": b, "shrink": shrink}
                    acc.run(ev_erase_tg, case)


def rand_dec_intervals(rng, n, tmax=10.0, labels=("a", "b"), touch=0.5):
    """n non-overlapping intervals in [0,tmax] with 3-decimal end points; neighbours touch with prob `touch`"""
    cuts = sorted(set(round(rng.uniform(0, tmax), 3) for _ in range(2 * n + 2)))
    out, i = [], 0
    while i + 1 < len(cuts) and len(out) < n:
        out.append([cuts[i], cuts[i + 1], rng.choice(labels)])
        i += 1 if rng.random() < touch else 2
    return out


def rand_dec_points(rng, n, tmax=10.0, labels=("a", "b")):
    ts = sorted(set(round(rng.uniform(0, tmax), 3) for _ in range(n)))
    return [[t, rng.choice(labels)] for t in ts]


def _rand_region(rng, bounds, lo, hi):
    while True:
        a = rng.choice(bounds) if bounds and rng.random() < 0.5 else round(rng.uniform(lo, hi), 3)
        b = rng.choice(bounds) if bounds and rng.random() < 0.5 else round(rng.uniform(lo, hi), 3)
        if a > b:
            a, b = b, a
        if a < b:
            return a, b


def t_c07_dec_rnd(acc, seed, count):
    rng = random.Random(seed)
    for _ in range(count):
        hi = rng.choice([10.0, 10.5, 12.345])
        if rng.random() < 0.7:
            E = rand_dec_intervals(rng, rng.randint(1, 6))
            bounds = [e[0] for e in E] + [e[1] for e in E]
            a, b = _rand_region(rng, bounds, 0.0, hi)
            wide = [e for e in E if e[1] - e[0] > 0.01]
            if wide and rng.random() < 0.35:  # a region strictly inside one interval: a straddler
                e = rng.choice(wide)
                a = round(rng.uniform(e[0] + 0.001, e[1] - 0.004), 3)
                b = round(rng.uniform(a + 0.001, e[1] - 0.001), 3)
            case = {"k": "erase_i", "dec": 1, "E": E, "lo": 0.0, "hi": hi, "a": a, "b": b,
                    "mode": rng.choice(ERASE_MODES[:2]) if rng.random() < 0.9 else "error", "shrink": rng.random() < 0.7}
            run_min(acc, ev_erase_i, case)
        elif rng.random() < 0.5:
            E = rand_dec_points(rng, rng.randint(1, 6))
            a, b = _rand_region(rng, [e[0] for e in E], 0.0, hi)
            case = {"k": "erase_p", "dec": 1, "E": E, "lo": 0.0, "hi": hi, "a": a, "b": b,
                    "mode": rng.choice(ERASE_MODES), "shrink": rng.random() < 0.7}
            run_min(acc, ev_erase_p, case)
        else:
            E = rand_dec_intervals(rng, rng.randint(1, 4))
            P = rand_dec_points(rng, rng.randint(0, 3))
            bounds = [e[0] for e in E] + [e[1] for e in E] + [p[0] for p in P]
            a, b = _rand_region(rng, bounds, 0.0, hi)
            spec = {"lo": 0.0, "hi": hi, "tiers": [{"t": "I", "name": "words", "E": E}, {"t": "P", "name": "pts", "E": P}]}
            case = {"k": "erase_tg", "dec": 1, "tg": spec, "a": a, "b": b, "shrink": rng.random() < 0.7}
            run_min(acc, ev_erase_tg, case, paths=(("tg", "tiers", 0, "E"), ("tg", "tiers", 1, "E")))


def run_c07(tier, seed, jobs):
    t0 = time.time()
    thorough = tier == "thorough"
    npts, maxk = (10, 4) if thorough else (8, 4)
    parts = 64 if thorough else 32
    tasks = [("c07_grid_i", (npts, maxk, p, parts)) for p in range(parts)]
    tasks += [("c07_grid_p", (npts, maxk, p, 8)) for p in range(8)]
    tasks += [("c07_grid_tg", (7, p, 16)) for p in range(16)]
    nr = 200000 if thorough else 20000
    tasks += [("c07_dec_rnd", (seed * 1000 + i, nr // 16)) for i in range(16)]
    driven = _drive(tasks, jobs)
    ntiers = sum(len(labelings(len(x))) for x in interval_lists(npts, maxk))
    bound = ("IntervalTier.eraseRegion on ALL %d interval tiers with <= %d non-overlapping (possibly touching) intervals on the "
             "%d grid points k/8 (labels over {a,b} up to renaming, span [0,%g]) x ALL %d regions a<b on the grid x "
             "{truncate,categorical,error} x doShrink {T,F} (%s) + a>=b rejected; PointTier.eraseRegion on all point tiers "
             "with <= %d points on the grid x the same; Textgrid.eraseRegion on 3-tier textgrids (interval<=2 entries, point<=2, "
             "interval<=2) on 7 grid points x all regions x doShrink; + %d random 3-decimal cases (tiers of 1-6 entries in "
             "[0,10], region edges on entry boundaries or random, interval / point / textgrid); seed=%d"
             % (ntiers, maxk, npts, (npts - 1) * U, npts * (npts - 1) // 2,
                "all order types of <= 4 intervals against the region edges need 10 points" if thorough else
                "8 points realise every order type of <= 3 intervals against the two region edges, and those of 4 intervals "
                "with >= 2 coincidences; the thorough tier uses 10 points = all order types of 4 intervals",
                maxk, nr, seed))
    return _result("C07: IntervalTier/PointTier/Textgrid.eraseRegion against the list model of the property text (exact on the "
                   "dyadic grid; Fraction oracle within 1e-9 on decimals, rounding failures as their own categories)",
                   bound, True, t0, driven)


def minimise_entries(ev, case, res, paths=("E",)):
    """greedy: drop entries of the lists at `paths` (keys, or (key, index, key) for textgrid specs) while the first
    violation category stays; returns (case, res)"""
    if not res or res is SKIP:
        return case, res
    what = res[0][0]

    def get(c, path):
        for k in (path if isinstance(path, tuple) else (path,)):
            c = c[k]
        return c

    case = json.loads(json.dumps(case))
    for path in paths:
        try:
            L = get(case, path)
        except (KeyError, IndexError):
            continue
        i = len(L) - 1
        while i >= 0:
            x = L.pop(i)
            try:
                with _quiet():
                    r2 = ev(case)
            except Exception:
                r2 = []
            if r2 and r2 is not SKIP and any(r[0] == what for r in r2):
                res = [r for r in r2 if r[0] == what]
            else:
                L.insert(i, x)
            i -= 1
    return case, res


def run_min(acc, ev, case, paths=("E",), budget=None):
    """run; when it fails re-run minimised (only the minimised case is recorded)"""
    try:
        res = ev(case)
    except Exception as e:
        res = [("harness: building the case or reading the result raised", "no exception", _exc(e))]
    if res and res is not SKIP:
        n = acc.notes.get("minimised", 0)
        if n < 60:
            acc.note("minimised")
            seen = set()
            allres = []
            for r in res:
                if r[0] in seen:
                    continue
                seen.add(r[0])
                c2, r2 = minimise_entries(ev, case, [r], paths)
                allres.append((c2, r2))
            acc.cases += 1
            acc.distinct += 1
            for c2, r2 in allres:
                for what, exp, obs in r2:
                    acc.addv(what, c2, exp, obs)
            return res
    acc.add(case, res)
    return res


# =========================================================================================
# C08  insertSpace and the inverse law
# =========================================================================================

SPACE_MODES = ("stretch", "split", "no_change", "error")


def space_oracle_i(E, lo, hi, s, d, mode):
    out = []
    for st, en, l in E:
        if en <= s:
            out.append([st, en, l])  # ends at or before s: unchanged
        elif st >= s:
            out.append([st + d, en + d, l])  # starts at or after s: later by exactly d
        elif mode == "stretch":
            out.append([st, en + d, l])
        elif mode == "split":
            out.append([st, s, l])
            out.append([s + d, en + d, l])
        elif mode == "no_change":
            out.append([st, en, l])
        else:
            return ("raise", "rejected")
    return ("ok", out, lo, hi + d)


def space_oracle_p(E, lo, hi, s, d):
    return ("ok", [[t, l] if t <= s else [t + d, l] for t, l in E], lo, hi + d)


def _check_space(pre, kind, E, lo, hi, s, d, mode, call, tol=0.0, frac=False):
    if frac:
        if kind == "I":
            exp = space_oracle_i([[Fr(a), Fr(b), l] for a, b, l in E], Fr(lo), Fr(hi), Fr(s), Fr(d), mode)
        else:
            exp = space_oracle_p([[Fr(t), l] for t, l in E], Fr(lo), Fr(hi), Fr(s), Fr(d))
        if exp[0] == "ok":
            exp = ("ok", ffl(exp[1]), float(exp[2]), float(exp[3]))
    else:
        exp = space_oracle_i(E, lo, hi, s, d, mode) if kind == "I" else space_oracle_p(E, lo, hi, s, d)
    tag = "%s(%s)" % (pre, mode) if kind == "I" else pre
    try:
        got = call()
    except Exception as ex:
        if exp[0] == "raise":
            if isinstance(ex, PraatioError):
                return [], None
            return [("%s: straddling interval in 'error' mode raises a non-praatio exception" % pre, "praatio error",
                     _exc(ex))], None
        if frac and isinstance(ex, perrors.TextgridStateError):
            return [("%s: TextgridStateError from float rounding (decimal timestamps)" % tag, exp[1:], _exc(ex))], None
        return [("%s: raises %s on a well-formed tier, in-span s and d>0" % (tag, type(ex).__name__), exp[1:],
                 _exc(ex))], None
    if exp[0] == "raise":
        return [("%s: an interval straddling s is not rejected in 'error' mode" % pre, "an error", plain(got.entries))], None
    out = []
    gE = plain(got.entries)
    if not same_entries(exp[1], gE, tol):
        out.append(("%s: resulting entries differ from the property's result" % tag, exp[1], gE))
    if not (same_num(got.minTimestamp, exp[2], tol) and same_num(got.maxTimestamp, exp[3], tol)):
        out.append(("%s: span is not lengthened by exactly d" % pre, [exp[2], exp[3]], [got.minTimestamp, got.maxTimestamp]))
    return out, got


def ev_space(case, tier=None):
    kind, E, lo, hi = case["t"], case["E"], case["lo"], case["hi"]
    if tier is None:
        tier = mk_tier(kind, E, lo, hi)
    s, d, mode = case["s"], case["d"], case["mode"]
    frac = bool(case.get("dec"))
    tol = TOL if frac else 0.0
    pre = "IntervalTier.insertSpace" if kind == "I" else "PointTier.insertSpace"
    out, got = _check_space(pre, kind, E, lo, hi, s, d, mode, lambda: tier.insertSpace(s, d, mode), tol, frac)
    if out or got is None or kind != "I" or mode not in ("stretch", "split"):
        return out
    # inverse law: erasing the inserted region with shrinking restores the labelled-time view and the span
    try:
        back = got.eraseRegion(s, s + d, "truncate", True)
    except Exception as ex:
        if frac and isinstance(ex, perrors.TextgridStateError):
            return [("insertSpace(%s) then eraseRegion (inverse law): TextgridStateError from float rounding in the shrink "
                     "shift (decimal timestamps)" % mode, fuse_all(E), _exc(ex))]
        return [("insertSpace(%s) then eraseRegion (inverse law): raises %s" % (mode, type(ex).__name__), fuse_all(E),
                 _exc(ex))]
    bE = plain(back.entries)
    if not same_entries(fuse_all(E, tol), fuse_all(bE, tol), tol):
        out.append(("insertSpace(%s) then eraseRegion(s, s+d, truncate, shrink): labelled-time view not restored" % mode,
                    fuse_all(E), bE))
    if not (same_num(back.minTimestamp, lo, tol) and same_num(back.maxTimestamp, hi, tol)):
        out.append(("insertSpace(%s) then eraseRegion(s, s+d, truncate, shrink): span not restored" % mode, [lo, hi],
                    [back.minTimestamp, back.maxTimestamp]))
    return out


def ev_space_tg(case):
    spec, s, d, mode = case["tg"], case["s"], case["d"], case["mode"]
    frac = bool(case.get("dec"))
    tol = TOL if frac else 0.0
    tg = build_tg(spec)
    rejected = mode == "error" and any(ts["t"] == "I" and any(e[0] < s < e[1] for e in ts["E"]) for ts in spec["tiers"])
    try:
        got = tg.insertSpace(s, d, mode)
    except Exception as ex:
        if rejected:
            if isinstance(ex, PraatioError):
                return []
            return [("Textgrid.insertSpace: straddling interval in 'error' mode raises a non-praatio exception",
                     "praatio error", _exc(ex))]
        if frac and isinstance(ex, perrors.TextgridStateError):
            return [("Textgrid.insertSpace(%s): TextgridStateError from float rounding (decimal timestamps)" % mode,
                     "a textgrid", _exc(ex))]
        return [("Textgrid.insertSpace(%s): raises %s on a valid textgrid" % (mode, type(ex).__name__), "a textgrid", _exc(ex))]
    if rejected:
        return [("Textgrid.insertSpace: an interval straddling s is not rejected in 'error' mode", "an error",
                 list(got.tierNames))]
    names = [t["name"] for t in spec["tiers"]]
    if list(got.tierNames) != names:
        return [("Textgrid.insertSpace: tier names / order changed", names, list(got.tierNames))]
    out = []
    for ts in spec["tiers"]:
        rt = got.getTier(ts["name"])
        o, _g = _check_space("Textgrid.insertSpace/%s tier" % ("interval" if ts["t"] == "I" else "point"), ts["t"], ts["E"],
                             ts.get("lo", spec["lo"]), ts.get("hi", spec["hi"]), s, d, mode, lambda: rt, tol, frac)
        out += o
    xhi = float(Fr(spec["hi"]) + Fr(d))
    if not (same_num(got.minTimestamp, spec["lo"], tol) and same_num(got.maxTimestamp, xhi, tol)):
        out.append(("Textgrid.insertSpace: textgrid span is not lengthened by exactly d", [spec["lo"], xhi],
                    [got.minTimestamp, got.maxTimestamp]))
    return out


GRID_DURS = (U, 2 * U, 5 * U, U / 2)


def t_c08_grid_i(acc, npts, maxk, part, nparts):
    pts = [i * U for i in range(npts)]
    for E, lo, hi in _grid_itiers(npts, maxk, part, nparts):
        tier = mk_itier(E, lo, hi)
        for s in pts:
            for d in GRID_DURS:
                for mode in SPACE_MODES:
                    case = {"k": "space", "t": "I", "E": E, "lo": lo, "hi": hi, "s": s, "d": d, "mode": mode}
                    acc.run(ev_space, case, tier)
        if len(E) <= 2:  # s strictly between grid points
            for s in (pts[1] + U / 2, pts[-2] + U / 2):
                for mode in SPACE_MODES:
                    case = {"k": "space", "t": "I", "E": E, "lo": lo, "hi": hi, "s": s, "d": U, "mode": mode}
                    acc.run(ev_space, case, tier)


def t_c08_grid_p(acc, npts, maxk, part, nparts):
    pts = [i * U for i in range(npts)]
    hi = pts[-1]
    for i, idx in enumerate(point_lists(npts, maxk)):
        if i % nparts != part:
            continue
        E = [[j * U, "ab"[n % 2]] for n, j in enumerate(idx)]
        tier = mk_ptier(E, 0.0, hi)
        for s in pts + [pts[1] + U / 2]:
            for d in GRID_DURS:
                for mode in SPACE_MODES:
                    case = {"k": "space", "t": "P", "E": E, "lo": 0.0, "hi": hi, "s": s, "d": d, "mode": mode}
                    acc.run(ev_space, case, tier)


def t_c08_grid_tg(acc, npts, part, nparts):
    pts = [i * U for i in range(npts)]
    hi = pts[-1]
    itiers = [E for E, _lo, _hi in _grid_itiers(npts, 2, 0, 1)]
    ptiers = [[[j * U, "p"] for j in idx] for idx in point_lists(npts, 2)]
    n = 0
    for i, E1 in enumerate(itiers):
        for j in range(3):
            n += 1
            if n % nparts != part:
                continue
            P = ptiers[(i * 7 + j * 13) % len(ptiers)]
            E2 = itiers[(i * 11 + j * 17 + 5) % len(itiers)]
            spec = {"lo": 0.0, "hi": hi, "tiers": [{"t": "I", "name": "words", "E": E1}, {"t": "P", "name": "pts", "E": P},
                                                    {"t": "I", "name": "phones", "E": E2}]}
            for s in pts:
                for d in (U, 3 * U):
                    for mode in SPACE_MODES:
                        case = {"k": "space_tg", "tg": spec, "s": s, "d": d, "mode": mode}
                        acc.run(ev_space_tg, case)


def t_c08_dec_rnd(acc, seed, count):
    rng = random.Random(seed)
    for _ in range(count):
        hi = rng.choice([10.0, 10.5, 12.345])
        d = round(rng.uniform(0.001, 5.0), 3)
        u = rng.random()
        if u < 0.75:
            E = rand_dec_intervals(rng, rng.randint(1, 6))
            bounds = [e[0] for e in E] + [e[1] for e in E]
            s = rng.choice(bounds) if rng.random() < 0.3 else round(rng.uniform(0, hi), 3)
            case = {"k": "space", "dec": 1, "t": "I", "E": E, "lo": 0.0, "hi": hi, "s": s, "d": d,
                    "mode": rng.choice(SPACE_MODES[:3]) if rng.random() < 0.95 else "error"}
            run_min(acc, ev_space, case)
        elif u < 0.85:
            E = rand_dec_points(rng, rng.randint(1, 6))
            s = rng.choice([e[0] for e in E]) if rng.random() < 0.3 else round(rng.uniform(0, hi), 3)
            case = {"k": "space", "dec": 1, "t": "P", "E": E, "lo": 0.0, "hi": hi, "s": s, "d": d, "mode": rng.choice(SPACE_MODES)}
            run_min(acc, ev_space, case)
        else:
            E = rand_dec_intervals(rng, rng.randint(1, 4))
            P = rand_dec_points(rng, rng.randint(0, 3))
            s = round(rng.uniform(0, hi), 3)
            spec = {"lo": 0.0, "hi": hi, "tiers": [{"t": "I", "name": "words", "E": E}, {"t": "P", "name": "pts", "E": P}]}
            case = {"k": "space_tg", "dec": 1, "tg": spec, "s": s, "d": d, "mode": rng.choice(SPACE_MODES[:3])}
            run_min(acc, ev_space_tg, case, paths=(("tg", "tiers", 0, "E"), ("tg", "tiers", 1, "E")))


def run_c08(tier, seed, jobs):
    t0 = time.time()
    thorough = tier == "thorough"
    npts, maxk = (10, 4) if thorough else (8, 4)
    parts = 64 if thorough else 32
    tasks = [("c08_grid_i", (npts, maxk, p, parts)) for p in range(parts)]
    tasks += [("c08_grid_p", (npts, maxk, p, 8)) for p in range(8)]
    tasks += [("c08_grid_tg", (7, p, 16)) for p in range(16)]
    nr = 200000 if thorough else 20000
    tasks += [("c08_dec_rnd", (seed * 1000 + 100 + i, nr // 16)) for i in range(16)]
    driven = _drive(tasks, jobs)
    ntiers = sum(len(labelings(len(x))) for x in interval_lists(npts, maxk))
    bound = ("IntervalTier.insertSpace on ALL %d interval tiers with <= %d non-overlapping (possibly touching) intervals on the %d "
             "grid points k/8 (labels over {a,b} up to renaming, span [0,%g]) x s on every grid point (span edges included; two "
             "off-grid s for tiers of <= 2 entries) x d in {1/8, 2/8, 5/8, 1/16} x {stretch,split,no_change,error}; for "
             "stretch/split additionally insertSpace;eraseRegion(s,s+d,truncate,shrink) compared by labelled-time view and "
             "span; PointTier.insertSpace on all point tiers with <= %d grid points x the same; Textgrid.insertSpace on 3-tier "
             "textgrids on 7 grid points x s x d in {1/8,3/8} x 4 modes; + %d random 3-decimal cases (1-6 entries in [0,10], "
             "s on a boundary or random, d in [0.001,5]); seed=%d"
             % (ntiers, maxk, npts, (npts - 1) * U, maxk, nr, seed))
    return _result("C08: IntervalTier/PointTier/Textgrid.insertSpace against the list model of the property text and the "
                   "inverse law insertSpace;eraseRegion (exact on the dyadic grid; Fraction oracle within 1e-9 on decimals)",
                   bound, True, t0, driven)


# =========================================================================================
# C09  editTimestamps, appendTier, appendTextgrid
# =========================================================================================

REPORT_MODES = ("silence", "warning", "error")


def shift_oracle(kind, E, lo, hi, o):
    """(kept entries, leaving?)   moved by exactly o; wholly before 0 dropped; an interval crossing 0 starts at 0"""
    kept, leaving = [], False
    if kind == "I":
        for s, e, l in E:
            ns, ne = s + o, e + o
            if ns < lo or ne > hi:
                leaving = True
            if ne <= 0:
                continue
            kept.append([ns if ns >= 0 else ns * 0, ne, l])
    else:
        for t, l in E:
            nt = t + o
            if nt < lo or nt > hi:
                leaving = True
            if nt < 0:
                continue
            kept.append([nt, l])
    return kept, leaving


def _call_captured(fn):
    buf = io.StringIO()
    with contextlib.redirect_stdout(buf):
        r = fn()
    return r, buf.getvalue()


def _frac_entries(E):
    return [[Fr(v) if not isinstance(v, str) else v for v in e] for e in E]


def _check_shift(pre, kind, E, lo, hi, o, mode, call, tol=0.0, frac=False):
    if frac:
        kept, leaving = shift_oracle(kind, _frac_entries(E), Fr(lo), Fr(hi), Fr(o))
        kept = ffl(kept)
    else:
        kept, leaving = shift_oracle(kind, E, lo, hi, o)
    try:
        got, printed = _call_captured(call)
    except perrors.OutOfBounds as ex:
        if mode == "error" and leaving:
            return []
        return [("%s(%s): OutOfBounds although %s" % (pre, mode, "no entry leaves the old span" if mode == "error" else
                                                     "the mode is not 'error'"), kept, _exc(ex))]
    except Exception as ex:
        if mode == "error" and leaving and isinstance(ex, PraatioError):
            return []  # "an exception": the statement does not name its type
        if not kept and E and isinstance(ex, ValueError):
            return [("%s: %s when no entry remains after the shift" % (pre, type(ex).__name__), kept, _exc(ex))]
        return [("%s(%s): raises %s" % (pre, mode, type(ex).__name__), kept, _exc(ex))]
    out = []
    if mode == "error" and leaving:
        return [("%s(error): no exception although an entry leaves the old span" % pre, "OutOfBounds", plain(got.entries))]
    if mode == "silence" and printed.strip():
        out.append(("%s(silence): something is printed" % pre, "", printed[:100]))
    if mode == "warning" and leaving and not printed.strip():
        out.append(("%s(warning): no message although an entry leaves the old span" % pre, "a message", ""))
    if mode in ("warning", "error") and not leaving and printed.strip():
        out.append(("%s(%s): a message is printed although no entry leaves the old span" % (pre, mode), "", printed[:100]))
    gE = plain(got.entries)
    if not same_entries(kept, gE, tol):
        if len(gE) == len(E) and len(kept) < len(E):
            what = "%s: an entry wholly before time 0 is not dropped" % pre
        elif len(gE) != len(kept):
            what = "%s: wrong entries dropped" % pre
        else:
            what = "%s: entries are not moved by exactly the offset (or not clipped to 0)" % pre
        out.append((what, kept, gE))
    glo, ghi = got.minTimestamp, got.maxTimestamp
    if glo > lo + tol or ghi < hi - tol:
        out.append(("%s: the span shrinks" % pre, "contains [%r, %r]" % (lo, hi), [glo, ghi]))
    elif any(e[0] < glo - tol or e[-2] > ghi + tol for e in gE):
        out.append(("%s: the span does not grow to contain the moved entries" % pre, gE, [glo, ghi]))
    return out


def ev_shift(case, tier=None):
    kind, E, lo, hi, o, mode = case["t"], case["E"], case["lo"], case["hi"], case["o"], case["mode"]
    if tier is None:
        tier = mk_tier(kind, E, lo, hi)
    lo, hi = tier.minTimestamp, tier.maxTimestamp  # (None, None) -> hull
    frac = bool(case.get("dec"))
    pre = ("IntervalTier" if kind == "I" else "PointTier") + ".editTimestamps"
    return _check_shift(pre, kind, E, lo, hi, o, mode, lambda: tier.editTimestamps(o, mode), TOL if frac else 0.0, frac)


def ev_shift_rt(case, tier=None):
    """+x then -x restores every entry when nothing was clipped"""
    kind, E, lo, hi, x = case["t"], case["E"], case["lo"], case["hi"], case["x"]
    if any(e[0] + x < 0 or e[0] < 0 for e in E):
        return SKIP
    if tier is None:
        tier = mk_tier(kind, E, lo, hi)
    tol = TOL if case.get("dec") else 0.0
    try:
        back = tier.editTimestamps(x, "silence").editTimestamps(-x, "silence")
    except Exception as ex:
        return [("editTimestamps(+x) then (-x): raises %s" % type(ex).__name__, E, _exc(ex))]
    if not same_entries(E, plain(back.entries), tol):
        return [("editTimestamps(+x) then (-x): entries not restored although nothing was clipped", E, plain(back.entries))]
    return []


def ev_append(case):
    kind, A, B = case["t"], case["A"], case["B"]
    ta = mk_tier(kind, A["E"], A["lo"], A["hi"], "A")
    tb = mk_tier(kind, B["E"], B["lo"], B["hi"], "B")
    alo, ahi, bhi = ta.minTimestamp, ta.maxTimestamp, tb.maxTimestamp
    frac = bool(case.get("dec"))
    tol = TOL if frac else 0.0
    add = (lambda v: float(Fr(v) + Fr(ahi))) if frac else (lambda v: v + ahi)
    exp = [list(e) for e in A["E"]] + [[add(v) if not isinstance(v, str) else v for v in e] for e in B["E"]]
    pre = ("IntervalTier" if kind == "I" else "PointTier") + ".appendTier"
    try:
        got = ta.appendTier(tb)
    except Exception as ex:
        if not A["E"] or not B["E"]:
            return [("%s: raises %s when one operand has no entries" % (pre, type(ex).__name__), exp, _exc(ex))]
        return [("%s: raises %s" % (pre, type(ex).__name__), exp, _exc(ex))]
    out = []
    gE = plain(got.entries)
    if kind == "P":  # points at one and the same time have no time order among themselves
        exp, gE = sorted(exp), sorted(gE)
    if not same_entries(exp, gE, tol):
        if same_entries(exp[:len(A["E"])], gE[:len(A["E"])], tol) and len(gE) == len(exp):
            what = "%s: the appended entries are not shifted by exactly the end time of the receiver" % pre
        else:
            what = "%s: result is not the receiver's entries followed by the shifted entries of the argument" % pre
        out.append((what, exp, gE))
    xs = [alo, add(bhi)]
    if not same_num(got.maxTimestamp, xs[1], tol) or got.minTimestamp > alo + tol:
        out.append(("%s: span does not end at the sum of both end times" % pre, xs, [got.minTimestamp, got.maxTimestamp]))
    return out


def ev_append_tg(case):
    A, B, only = case["A"], case["B"], case["only"]
    tga, tgb = build_tg(A), build_tg(B)
    an, bn = [t["name"] for t in A["tiers"]], [t["name"] for t in B["tiers"]]
    names = [n for n in an if n in bn] if only else an + [n for n in bn if n not in an]
    ahi = A["hi"]
    try:
        got = tga.appendTextgrid(tgb, only)
    except Exception as ex:
        empties = any(not t["E"] for t in A["tiers"] + B["tiers"])
        if empties:
            return [("Textgrid.appendTextgrid: raises %s when a tier has no entries" % type(ex).__name__, names, _exc(ex))]
        return [("Textgrid.appendTextgrid: raises %s" % type(ex).__name__, names, _exc(ex))]
    if list(got.tierNames) != names:
        return [("Textgrid.appendTextgrid(onlyMatchingNames=%s): tier set / order is not the documented one" % only, names,
                 list(got.tierNames))]
    out = []
    for n in names:
        ea = [list(e) for t in A["tiers"] if t["name"] == n for e in t["E"]]
        eb = [[v + ahi if not isinstance(v, str) else v for v in e] for t in B["tiers"] if t["name"] == n for e in t["E"]]
        gE = plain(got.getTier(n).entries)
        if len(gE) and len(gE[0]) == 2:  # points at one and the same time have no time order among themselves
            gE, ea, eb = sorted(gE), sorted(ea + eb), []
        if not same_entries(ea + eb, gE):
            where = "both" if (n in an and n in bn) else ("the receiver only" if n in an else "the argument only")
            out.append(("Textgrid.appendTextgrid: entries of a tier present in %s are not A's entries followed by B's "
                        "shifted by A's end time" % where, {n: ea + eb}, {n: gE}))
    if got.minTimestamp > A["lo"] or got.maxTimestamp != ahi + B["hi"]:
        out.append(("Textgrid.appendTextgrid: span does not end at the sum of both end times", [A["lo"], ahi + B["hi"]],
                    [got.minTimestamp, got.maxTimestamp]))
    return out


def ev_shift_tg(case):
    spec, o, mode = case["tg"], case["o"], case["mode"]
    tg = build_tg(spec)
    lo, hi = spec["lo"], spec["hi"]
    exp, leaving = {}, False
    for ts in spec["tiers"]:
        exp[ts["name"]], lv = shift_oracle(ts["t"], ts["E"], lo, hi, o)
        leaving = leaving or lv
    try:
        got, printed = _call_captured(lambda: tg.editTimestamps(o, mode))
    except PraatioError as ex:
        if mode == "error" and leaving:
            return []
        return [("Textgrid.editTimestamps(%s): %s although %s" % (mode, type(ex).__name__, "no entry leaves the old span"
                                                                 if mode == "error" else "the mode is not 'error'"),
                 exp, _exc(ex))]
    except Exception as ex:
        return [("Textgrid.editTimestamps(%s): raises %s" % (mode, type(ex).__name__), exp, _exc(ex))]
    if mode == "error" and leaving:
        return [("Textgrid.editTimestamps(error): no exception although an entry leaves the old span", "an exception",
                 list(got.tierNames))]
    out = []
    names = [t["name"] for t in spec["tiers"]]
    if list(got.tierNames) != names:
        return [("Textgrid.editTimestamps: tier names / order changed", names, list(got.tierNames))]
    if mode == "silence" and printed.strip():
        out.append(("Textgrid.editTimestamps(silence): something is printed", "", printed[:100]))
    if mode == "warning" and leaving and not printed.strip():
        out.append(("Textgrid.editTimestamps(warning): no message although an entry leaves the old span", "a message", ""))
    for n in names:
        gE = plain(got.getTier(n).entries)
        if not same_entries(exp[n], gE):
            out.append(("Textgrid.editTimestamps: a tier's entries are not moved by exactly the offset / dropped / clipped "
                        "as the property says", {n: exp[n]}, {n: gE}))
    if got.minTimestamp > lo or got.maxTimestamp < hi:
        out.append(("Textgrid.editTimestamps: the span shrinks", [lo, hi], [got.minTimestamp, got.maxTimestamp]))
    else:
        allE = [e for n in names for e in plain(got.getTier(n).entries)]
        if any(e[0] < got.minTimestamp or e[-2] > got.maxTimestamp for e in allE):
            out.append(("Textgrid.editTimestamps: the span does not grow to contain the moved entries", allE,
                        [got.minTimestamp, got.maxTimestamp]))
    return out


def _small_tiers(kind, npts, maxk):
    """entry lists of every tier of the small grid domain"""
    if kind == "I":
        return [E for E, _lo, _hi in _grid_itiers(npts, maxk, 0, 1)]
    return [[[j * U, "ab"[n % 2]] for n, j in enumerate(idx)] for idx in point_lists(npts, maxk)]


def t_c09_shift_grid(acc, kind, npts, maxk, part, nparts):
    hi = (npts - 1) * U
    offsets = [k * U for k in range(-(npts + 1), 5)] + [-U / 2, U / 2, -hi + U / 2]
    for i, E in enumerate(_small_tiers(kind, npts, maxk)):
        if i % nparts != part:
            continue
        spans = [(0.0, hi), (0.0, hi + U)]
        if E:
            spans.append((None, None))
            if E[0][0] >= U:
                spans.append((U, hi))
        for lo, hi_ in spans:
            tier = mk_tier(kind, E, lo, hi_)
            for o in offsets:
                for mode in REPORT_MODES:
                    case = {"k": "shift", "t": kind, "E": E, "lo": lo, "hi": hi_, "o": o, "mode": mode}
                    acc.run(ev_shift, case, tier)
                if o > 0 or (E and E[0][0] + o >= 0):
                    case = {"k": "shift_rt", "t": kind, "E": E, "lo": lo, "hi": hi_, "x": o}
                    acc.run(ev_shift_rt, case, tier)


def t_c09_append_grid(acc, kind, npts, maxk, part, nparts):
    hi = (npts - 1) * U
    tiers = _small_tiers(kind, npts, maxk)
    for i, EA in enumerate(tiers):
        if i % nparts != part:
            continue
        for EB in tiers:
            for (alo, ahi), (blo, bhi) in (((0.0, hi), (0.0, hi)), ((0.0, hi + U), (0.0, hi + 2 * U)), ((None, None), (None, None)),
                                           ((U, hi + U), (U, hi + 2 * U))):
                if (alo is None and not EA) or (blo is None and not EB):
                    continue
                if alo == U and ((EA and EA[0][0] < U) or (EB and EB[0][0] < U)):
                    continue  # spans that start later than 0 need entries that do
                case = {"k": "append", "t": kind, "A": {"E": EA, "lo": alo, "hi": ahi}, "B": {"E": EB, "lo": blo, "hi": bhi}}
                acc.run(ev_append, case)


TG_NAMES = (("x", "I"), ("y", "P"), ("z", "I"), ("w", "P"))


def _tg_from(names, variant, hi, ipool, ppool):
    tiers = []
    for j, (n, t) in enumerate(TG_NAMES):
        if n in names:
            pool = ipool if t == "I" else ppool
            tiers.append({"t": t, "name": n, "E": pool[(variant * 5 + j * 3) % len(pool)] if (variant + j) % 4 else []})
    return {"lo": 0.0, "hi": hi, "tiers": tiers}


def t_c09_append_tg(acc, part, nparts):
    npts = 5
    hi = (npts - 1) * U
    ipool = _small_tiers("I", npts, 2)
    ppool = _small_tiers("P", npts, 2)
    subsets_a = [c for k in range(0, 4) for c in itertools.combinations("xyz", k)]
    subsets_b = [c for k in range(0, 5) for c in itertools.combinations("xyzw", k)]
    n = 0
    for sa in subsets_a:
        for sb in subsets_b:
            for variant in range(8):
                n += 1
                if n % nparts != part:
                    continue
                A = _tg_from(sa, variant, hi, ipool, ppool)
                B = _tg_from(sb, variant + 3, hi + (U if variant % 2 else 0.0), ipool, ppool)
                # order of the argument's tiers reversed in half of the cases
                if variant % 3 == 0:
                    B["tiers"] = B["tiers"][::-1]
                for only in (True, False):
                    case = {"k": "append_tg", "A": A, "B": B, "only": only}
                    acc.run(ev_append_tg, case)


def t_c09_shift_tg(acc, part, nparts):
    npts = 5
    hi = (npts - 1) * U
    ipool = _small_tiers("I", npts, 2)
    ppool = _small_tiers("P", npts, 2)
    offsets = [k * U for k in range(-(npts + 1), 4)] + [U / 2, -U / 2]
    subsets = [c for k in range(0, 5) for c in itertools.combinations("xyzw", k)]
    n = 0
    for sa in subsets:
        for variant in range(12):
            n += 1
            if n % nparts != part:
                continue
            spec = _tg_from(sa, variant, hi, ipool, ppool)
            for o in offsets:
                for mode in REPORT_MODES:
                    case = {"k": "shift_tg", "tg": spec, "o": o, "mode": mode}
                    acc.run(ev_shift_tg, case)


def t_c09_dec_rnd(acc, seed, count):
    rng = random.Random(seed)
    for _ in range(count):
        kind = "I" if rng.random() < 0.6 else "P"
        mk = rand_dec_intervals if kind == "I" else rand_dec_points
        E = mk(rng, rng.randint(0, 6))
        hi = rng.choice([10.0, 10.5, 12.345])
        u = rng.random()
        if u < 0.5:
            bounds = [v for e in E for v in e[:-1]]
            o = -rng.choice(bounds) if bounds and rng.random() < 0.3 else round(rng.uniform(-11, 5), 3)
            case = {"k": "shift", "dec": 1, "t": kind, "E": E, "lo": 0.0, "hi": hi, "o": o, "mode": rng.choice(REPORT_MODES)}
            run_min(acc, ev_shift, case)
        elif u < 0.75:
            x = round(rng.uniform(-3, 8), 3)
            case = {"k": "shift_rt", "dec": 1, "t": kind, "E": E, "lo": 0.0, "hi": hi, "x": x}
            run_min(acc, ev_shift_rt, case)
        else:
            EB = mk(rng, rng.randint(0, 4))
            case = {"k": "append", "dec": 1, "t": kind, "A": {"E": E, "lo": 0.0, "hi": hi},
                    "B": {"E": EB, "lo": 0.0, "hi": rng.choice([10.0, 11.111])}}
            acc.run(ev_append, case)


def run_c09(tier, seed, jobs):
    t0 = time.time()
    thorough = tier == "thorough"
    npts, maxk = (9, 4) if thorough else (8, 4)
    anpts = 7 if thorough else 6
    tasks = []
    for kind in ("I", "P"):
        tasks += [("c09_shift_grid", (kind, npts, maxk, p, 16)) for p in range(16)]
        tasks += [("c09_append_grid", (kind, anpts, 2, p, 8)) for p in range(8)]
    tasks += [("c09_append_tg", (p, 8)) for p in range(8)]
    tasks += [("c09_shift_tg", (p, 8)) for p in range(8)]
    nr = 100000 if thorough else 16000
    tasks += [("c09_dec_rnd", (seed * 1000 + 200 + i, nr // 16)) for i in range(16)]
    driven = _drive(tasks, jobs)
    bound = ("editTimestamps on ALL interval tiers with <= %d intervals ({a,b} labels up to renaming) and all point tiers with <= %d "
             "points on %d grid points k/8 (empty tiers included) x spans {[0,H],[0,H+1/8],hull,[1/8,H]} x offsets k/8 for k in "
             "-%d..4 and -1/16, 1/16, -H+1/16 (none / some / all entries dropped or clipped) x {silence,warning,error}, stdout "
             "captured; +x then -x for every offset that clips nothing; appendTier on ALL ordered pairs of tiers with <= 2 "
             "entries on %d grid points x up to 4 span settings (span starts 0 and 1/8, hull; empty operands included), both tier types; appendTextgrid on all "
             "pairs of tier-name subsets A of {x,y,z}, B of {x,y,z,w} (equal, overlapping, disjoint, empty) x 8 content variants "
             "(some tiers empty, argument order reversed) x onlyMatchingNames {T,F}; Textgrid.editTimestamps on 16 name subsets x "
             "12 variants x 11 offsets x 3 modes; + %d random 3-decimal cases (shift / round trip / append); seed=%d"
             % (maxk, maxk, npts, npts + 1, anpts, nr, seed))
    return _result("C09: editTimestamps / appendTier / appendTextgrid / Textgrid.editTimestamps against the list model of the "
                   "property text (moved by exactly the offset, drop / clip at 0, span, reporting, tier set)", bound, True, t0,
                   driven)


# =========================================================================================
# C11  insertEntry / deleteEntry against a list model
# =========================================================================================

INSERT_MODES = ("error", "replace", "merge")


def model_step(kind, st, step):
    """list model written from C11.  st = {"E","lo","hi"}; returns (outcome, [acceptable successor states])
    outcome: "ok" | "CollisionError" | "absent" """
    E, lo, hi = st["E"], st["lo"], st["hi"]
    if step["op"] == "del":
        e = step["e"]
        if e in E:
            E2 = list(E)
            E2.remove(e)  # exactly the given entry
            return "ok", [{"E": E2, "lo": lo, "hi": hi}]
        return "absent", [st]
    e, mode = step["e"], step["mode"]
    if kind == "I":
        hit = [x for x in E if x[0] < e[1] and x[1] > e[0]]  # positive-length overlap
        nlo, nhi = min(lo, e[0]), max(hi, e[1])  # grown just enough to contain the new entry
    else:
        hit = [x for x in E if x[0] == e[0]]  # a point at the same time
        nlo, nhi = min(lo, e[0]), max(hi, e[0])
    if not hit:
        return "ok", [{"E": sorted(E + [e]), "lo": nlo, "hi": nhi}]
    if mode == "error":
        return "CollisionError", [st]
    rest = [x for x in E if x not in hit]
    if mode == "replace":
        return "ok", [{"E": sorted(rest + [e]), "lo": nlo, "hi": nhi}]
    if kind == "P":
        labels = ["-".join([x[1] for x in hit] + [e[1]])]  # old then new
        merged = [[e[0], lab] for lab in labels]
    else:
        group = sorted(hit)  # old entries are disjoint: their time order is their order by start
        orders = []
        pos = [i for i in range(len(group) + 1) if (i == 0 or group[i - 1][0] <= e[0]) and (i == len(group) or e[0] <= group[i][0])]
        for i in pos:  # the new entry in time order among the old ones (a shared start leaves two orders open)
            orders.append(group[:i] + [e] + group[i:])
        merged = []
        for o in orders:
            m = [min(x[0] for x in o), max(x[1] for x in o), "-".join(x[2] for x in o)]
            if m not in merged:
                merged.append(m)
    return "ok", [{"E": sorted(rest + [m]), "lo": nlo, "hi": nhi} for m in merged]


def real_step(kind, tier, step):
    """apply the step to the real tier; returns the exception or None"""
    mk = (lambda e: Interval(*e)) if kind == "I" else (lambda e: Point(*e))
    try:
        if step["op"] == "del":
            tier.deleteEntry(mk(step["e"]))
        else:
            tier.insertEntry(mk(step["e"]), step["mode"], step["rep"])
    except Exception as ex:
        return ex
    return None


def compare_step(kind, step, outcome, succ, tier, exc, sliver=False):
    """-> (violations, matched model state or None)"""
    cls = "IntervalTier" if kind == "I" else "PointTier"
    got = view(tier)
    if step["op"] == "del":
        pre = "%s.deleteEntry" % cls
        if outcome == "absent":
            if exc is None:
                return [("%s: no exception although the entry is absent" % pre, "an exception", got["E"])], None
            if got != succ[0]:
                return [("%s: raises for an absent entry but the tier changed" % pre, succ[0], got)], None
            return [], succ[0]
        if exc is not None:
            return [("%s: raises %s although the entry is present" % (pre, type(exc).__name__), succ[0]["E"], _exc(exc))], None
        if got != succ[0]:
            if sliver:
                return [("deleteEntry by tolerant equality removes a neighbouring near-identical sliver", succ[0]["E"],
                         got["E"])], None
            return [("%s: does not remove exactly the given entry" % pre, succ[0], got)], None
        return [], succ[0]
    mode = step["mode"]
    pre = "%s.insertEntry(%s)" % (cls, mode)
    if outcome == "CollisionError":
        if exc is None:
            return [("%s: no CollisionError although the new entry collides" % pre, "CollisionError", got["E"])], None
        if not isinstance(exc, perrors.CollisionError):
            return [("%s: collision raises %s instead of CollisionError" % (pre, type(exc).__name__), "CollisionError",
                     _exc(exc))], None
        if got != succ[0]:
            return [("%s: CollisionError raised but the tier changed" % pre, succ[0], got)], None
        return [], succ[0]
    if exc is not None:
        if sliver:
            return [("insertEntry on near-identical slivers: raises %s" % type(exc).__name__, succ[0], _exc(exc))], None
        return [("%s: raises %s" % (pre, type(exc).__name__), succ[0]["E"], _exc(exc))], None
    for s in succ:
        if got == s:
            return [], s
    s = succ[0]
    if sliver:
        return [("insertEntry(%s) on near-identical slivers: the wrong one of two near-identical entries is removed "
                 "(tolerant equality in deleteEntry)" % mode, s, got)], None
    if any(got["E"] == x["E"] for x in succ):
        if got["lo"] > s["lo"] or got["hi"] < s["hi"]:
            return [("%s.insertEntry: span does not grow to contain the new entry" % cls, [s["lo"], s["hi"]],
                     [got["lo"], got["hi"]])], None
        return [("%s.insertEntry: span grows more than needed / changes otherwise" % cls, [s["lo"], s["hi"]],
                 [got["lo"], got["hi"]])], None
    if sorted(got["E"]) == s["E"] and got["E"] != s["E"]:
        return [("%s: entries not in time order afterwards" % pre, s["E"], got["E"])], None
    return [("%s: entries differ from the list model" % pre, [x["E"] for x in succ] if len(succ) > 1 else s["E"], got["E"])], None


def ev_hist11(case):
    kind, init = case["t"], case["init"]
    tier = mk_tier(kind, init["E"], init["lo"], init["hi"])
    st = {"E": [list(e) for e in init["E"]], "lo": tier.minTimestamp, "hi": tier.maxTimestamp}
    for i, step in enumerate(case["steps"]):
        outcome, succ = model_step(kind, st, step)
        exc = real_step(kind, tier, step)
        v, st2 = compare_step(kind, step, outcome, succ, tier, exc, bool(case.get("sliver")))
        if v:
            return [(w, "step %d: %s" % (i, x), o) for w, x, o in v]
        st = st2
    return []


def minimise_steps(ev, case, res):
    """drop steps (and initial entries) while the first violation category stays"""
    if not res or res is SKIP:
        return case, res
    what = res[0][0]
    case = json.loads(json.dumps(case))

    def still(c):
        try:
            with _quiet():
                r = ev(c)
        except Exception:
            return None
        if r and r is not SKIP and any(x[0] == what for x in r):
            return [x for x in r if x[0] == what]
        return None

    for key in ("steps",):
        i = len(case[key]) - 1
        while i >= 0:
            x = case[key].pop(i)
            r = still(case)
            if r:
                res = r
            else:
                case[key].insert(i, x)
            i -= 1
    lists = []
    if isinstance(case.get("init"), dict) and "E" in case["init"]:
        lists.append(case["init"]["E"])
    lists += [s["E"] for s in case["steps"] if isinstance(s.get("E"), list)]
    for L in lists:
        i = len(L) - 1
        while i >= 0:
            x = L.pop(i)
            r = still(case)
            if r:
                res = r
            else:
                L.insert(i, x)
            i -= 1
    return case, res


def run_min_steps(acc, ev, case):
    try:
        res = ev(case)
    except Exception as e:
        res = [("harness: building the case or reading the result raised", "no exception", _exc(e))]
    if res and res is not SKIP:
        key = "min:" + res[0][0]
        if acc.notes.get(key, 0) < 8:
            acc.note(key)
            case2, res2 = minimise_steps(ev, case, res[:1])
            acc.add(case2, res2)
            return res
    acc.add(case, res)
    return res


def _clone(kind, tier):
    if kind == "I":
        return IntervalTier(tier.name, list(tier._entries), tier.minTimestamp, tier.maxTimestamp)
    return PointTier(tier.name, list(tier._entries), tier.minTimestamp, tier.maxTimestamp)


def _ops11(kind, npts):
    ops = []
    if kind == "I":
        ents = [[s * U, e * U, "x"] for s in range(npts) for e in range(s + 1, npts)]
    else:
        ents = [[s * U, "x"] for s in range(npts)]
    for n, e in enumerate(ents):
        for m, mode in enumerate(INSERT_MODES):
            ops.append({"op": "ins", "e": e, "mode": mode, "rep": "warning" if (n + m) % 2 else "silence"})
    for e in ents:
        ops.append({"op": "del", "e": e})
    return ops


def t_c11_exh(acc, kind, npts, depth, wide, part, nparts):
    """ALL histories of length <= depth over the op universe, by depth-first search with shared prefixes; a
    history is cut at its first violation"""
    ops = _ops11(kind, npts)
    lo, hi = (0.0, (npts - 1) * U) if wide else (U, 2 * U)
    init = {"E": [], "lo": lo, "hi": hi}
    root = mk_tier(kind, [], lo, hi)
    st0 = {"E": [], "lo": lo, "hi": hi}

    def rec(tier, st, path, first):
        for i, op in enumerate(ops):
            if first and i % nparts != part:
                continue
            t2 = _clone(kind, tier)
            outcome, succ = model_step(kind, st, op)
            exc = real_step(kind, t2, op)
            v, st2 = compare_step(kind, op, outcome, succ, t2, exc)
            steps = path + [op]
            case = {"k": "hist11", "t": kind, "init": init, "steps": steps}
            if v:
                key = "min:" + v[0][0]
                if acc.notes.get(key, 0) < 8:
                    acc.note(key)
                    case, v = minimise_steps(ev_hist11, case, [(v[0][0], "step %d: %s" % (len(path), v[0][1]), v[0][2])])
                acc.add(case, v)
                continue
            acc.add(case, [])
            if len(steps) < depth:
                # a merged label only lengthens; the op universe keeps inserting "x"
                rec(t2, st2, steps, False)

    rec(root, st0, [], True)


def _rand_tier_grid(rng, kind, nidx, maxn, labels="abc"):
    if kind == "I":
        cuts = sorted(rng.sample(range(nidx), min(nidx, 2 * maxn)))
        E, i = [], 0
        while i + 1 < len(cuts) and len(E) < maxn:
            E.append([cuts[i] * U, cuts[i + 1] * U, rng.choice(labels)])
            i += 1 if rng.random() < 0.4 else 2
        return E
    return [[j * U, rng.choice(labels)] for j in sorted(rng.sample(range(nidx), rng.randint(0, maxn)))]


def t_c11_hist_rnd(acc, seed, count, maxlen):
    rng = random.Random(seed)
    for _ in range(count):
        kind = "I" if rng.random() < 0.55 else "P"
        dec = rng.random() < 0.3
        nidx = 17
        conv = (lambda v: round(v * 8 * 0.617 + 0.003, 3)) if dec else (lambda v: v)  # strictly monotone: order types kept
        E = _rand_tier_grid(rng, kind, nidx, rng.randint(0, 4))
        if rng.random() < 0.6:
            lo, hi = 0.0, (nidx - 1) * U
        elif E:
            lo, hi = None, None
        else:
            lo, hi = 4 * U, 6 * U
        steps = []
        present = [list(e) for e in E]
        for _s in range(rng.randint(1, maxlen)):
            if rng.random() < 0.7 or not present:
                if kind == "I":
                    s = rng.randrange(nidx - 1)
                    e = min(nidx - 1, s + rng.choice([1, 1, 2, 3, 6, 12]))
                    if present and rng.random() < 0.3:  # share a boundary / the extent of an existing entry
                        x = rng.choice(present)
                        s, e = rng.choice([(round(x[0] / U), round(x[1] / U)), (round(x[1] / U), min(nidx - 1, round(x[1] / U) + 2)),
                                           (round(x[0] / U), min(nidx - 1, round(x[1] / U) + 1))])
                        if s >= e:
                            s, e = 0, 1
                    ent = [s * U, e * U, rng.choice("abc")]
                else:
                    ent = [rng.randrange(nidx) * U, rng.choice("abc")]
                    if present and rng.random() < 0.4:
                        ent[0] = rng.choice(present)[0]
                steps.append({"op": "ins", "e": ent, "mode": rng.choice(INSERT_MODES), "rep": rng.choice(["silence", "warning"])})
                present.append(ent)
            else:
                ent = list(rng.choice(present))
                if rng.random() < 0.15:
                    ent[-1] = ent[-1] + "q"  # absent
                steps.append({"op": "del", "e": ent})
        if dec:
            E = [[conv(v) if not isinstance(v, str) else v for v in e] for e in E]
            for s in steps:
                s["e"] = [conv(v) if not isinstance(v, str) else v for v in s["e"]]
            lo, hi = (None if lo is None else conv(lo)), (None if hi is None else conv(hi))
        case = {"k": "hist11", "t": kind, "init": {"E": E, "lo": lo, "hi": hi}, "steps": steps}
        if dec:
            case["dec"] = 1
        run_min_steps(acc, ev_hist11, case)


def t_c11_slivers(acc, seed, count):
    """near-identical same-label neighbours (times differing by ~1e-10 relative): its own categories"""
    rng = random.Random(seed)
    for n in range(count):
        t = round(rng.uniform(0.5, 9.0), 3)
        w = t * rng.choice([1e-10, 2e-10, 4e-10])
        lab = rng.choice("ab")
        if n % 2 == 0:
            E = [[t, t + w, lab], [t + w, t + 2 * w, lab]]
            kind = "I"
            far = [t + 2 * w, t + 1.0, "n"]
            part = [t + w, t + 1.0, "n"]
        else:
            E = [[t, lab], [t + w, lab]]
            kind = "P"
            far = [t + 1.0, "n"]
            part = [t + w, "n"]
        which = rng.randrange(5)
        if which <= 1:
            steps = [{"op": "del", "e": E[1]}]
        elif which == 2:
            steps = [{"op": "del", "e": E[0]}]
        elif which == 3:
            steps = [{"op": "ins", "e": far, "mode": "error", "rep": "silence"}, {"op": "del", "e": E[1]}]
        else:
            steps = [{"op": "ins", "e": part, "mode": rng.choice(["replace", "merge"]), "rep": "silence"}]
        case = {"k": "hist11", "sliver": 1, "t": kind, "init": {"E": E, "lo": 0.0, "hi": 12.0}, "steps": steps}
        acc.run(ev_hist11, case)


def run_c11(tier, seed, jobs):
    t0 = time.time()
    thorough = tier == "thorough"
    depth_i, depth_p = (5, 6) if thorough else (4, 5)
    if thorough:
        depth_p = 5
    tasks = []
    for wide in (False, True):
        tasks += [("c11_exh", ("I", 4, depth_i, wide, p, 24)) for p in range(24)]
        tasks += [("c11_exh", ("P", 5 if thorough else 4, depth_p, wide, p, 20 if thorough else 16)) for p in range(20 if thorough else 16)]
    nr = 160000 if thorough else 16000
    tasks += [("c11_hist_rnd", (seed * 1000 + 300 + i, nr // 16, 6)) for i in range(16)]
    tasks.append(("c11_slivers", (seed * 1000 + 350, 400 if thorough else 100)))
    driven = _drive(tasks, jobs)
    bound = ("step-by-step comparison with the list model: ALL histories of length <= %d (interval tier: 6 intervals on 4 grid "
             "points x {error,replace,merge} inserts with label x, reporting silence/warning alternating, + 6 deletes = 24 "
             "operations per step) and length <= %d (point tier: %d times x 3 modes + deletes = %d operations), each from an "
             "empty tier spanning [1/8,2/8] (inserts leave the span) and [0,3/8], histories cut at their first violation; "
             "+ %d random histories of 1..6 steps on 17 grid points k/8 (30%% mapped to 3-decimal times), labels {a,b,c}, "
             "initial tiers of 0-4 entries, inserts disjoint / touching / overlapping one or several / containing / contained / "
             "outside the span, deletes of present and absent entries; + %d sliver cases (two same-label neighbours 1-4e-10 "
             "relative apart) reported under their own categories; collisionReportingMode 'error' is not exercised; seed=%d"
             % (depth_i, depth_p, 5 if thorough else 4, 20 if thorough else 16, nr, 400 if thorough else 100, seed))
    return _result("C11: insertEntry (3 collision modes x silence/warning) and deleteEntry on IntervalTier and PointTier compared "
                   "after every step with a plain list model written from the property text (entries, order, span)", bound,
                   True, t0, driven)


# =========================================================================================
# C05  every reachable tier is well-formed (random histories)
# =========================================================================================

CROP_MODES = ("strict", "lax", "truncated")


class InvalidCase(Exception):
    """a stored history refers to a tier that does not exist (only arises while minimising)"""


def _mk_entry(kind, e, how):
    if how == "named":
        return Interval(*e) if kind == "I" else Point(*e)
    if how == "list":
        return list(e)
    return tuple(e)


def apply05(pool, step):
    """perform one step on the pool {id: tier}; returns the tier that was created or mutated (or None).
    Exceptions of the library propagate."""
    op = step["op"]
    if op == "construct":
        cls = IntervalTier if step["t"] == "I" else PointTier
        t = cls(step.get("name", "T"), [tuple(e) for e in step["E"]], step["lo"], step["hi"])
        pool[step["id"]] = t
        return t
    try:
        tier = pool[step["on"]]
        other = pool[step["other"]] if "other" in step else None
    except KeyError:
        raise InvalidCase()
    kind = kind_of(tier)
    a = step.get("args", [])
    if op == "insertEntry":
        tier.insertEntry(_mk_entry(kind, a[0], step.get("as", "named")), a[1], a[2])
        return tier
    if op == "deleteEntry":
        tier.deleteEntry(_mk_entry(kind, a[0], "named"))
        return tier
    if op == "crop":
        r = tier.crop(a[0], a[1], a[2], a[3])
    elif op == "eraseRegion":
        r = tier.eraseRegion(a[0], a[1], a[2], a[3])
    elif op == "insertSpace":
        r = tier.insertSpace(a[0], a[1], a[2])
    elif op == "editTimestamps":
        r = tier.editTimestamps(a[0], a[1])
    elif op == "dejitter":
        r = tier.dejitter(other, a[0])
    elif op == "morph":
        flt = None if a[0] is None else (lambda label, keep=a[0]: label == keep)
        r = tier.morph(other, flt)
    elif op == "new":
        ents = None if a[1] is None else [tuple(e) for e in a[1]]
        r = tier.new(a[0], ents, a[2], a[3])
    elif op in ("union", "difference", "intersection", "mergeLabels", "appendTier"):
        r = getattr(tier, op)(other)
    else:
        raise InvalidCase()
    pool[step["id"]] = r
    return r


def check05(pool, step):
    """-> violation list for this step (the step is applied to the pool)"""
    op = step["op"]
    if op == "construct":
        cls = "IntervalTier" if step["t"] == "I" else "PointTier"
    else:
        if step["on"] not in pool:
            raise InvalidCase()
        cls = type(pool[step["on"]]).__name__
    try:
        res = apply05(pool, step)
    except InvalidCase:
        raise
    except PraatioError:
        return []  # the operation refuses with a praatio error: allowed
    except Exception as ex:
        return [("%s.%s: raises %s (not a praatio error)" % (cls, op, type(ex).__name__), "a well-formed tier or a praatio error",
                 _exc(ex))]
    if res is None:
        return []
    bad = wf_problem(res)
    if bad:
        return [("%s.%s: resulting tier is not well-formed: %s" % (cls, op, bad), "well-formed tier",
                 "%r" % (view(res),))]
    return []


def ev_hist05(case):
    pool = {}
    try:
        for i, step in enumerate(case["steps"]):
            v = check05(pool, step)
            if v:
                return [(w, x, "step %d: %s" % (i, o)) for w, x, o in v]
    except InvalidCase:
        return SKIP
    return []


class Gen05:
    def __init__(self, rng, dec):
        self.rng, self.dec = rng, dec
        self.nid = 0

    def time(self, pool, wide=False):
        rng = self.rng
        if pool and rng.random() < 0.45:
            t = rng.choice(list(pool.values()))
            vals = [v for e in t.entries for v in e[:-1]] + [t.minTimestamp, t.maxTimestamp]
            return rng.choice(vals)
        if self.dec:
            return round(rng.uniform(-0.5 if wide else 0.0, 12.0), 3)
        return rng.randint(-2 if wide else 0, 18) * U

    def dur(self, signed=False):
        rng = self.rng
        if signed and rng.random() < 0.45:
            return -self.dur()
        if self.dec:
            return round(rng.uniform(0.001, 4.0), 3)
        return rng.choice([U / 2, U, U, 2 * U, 3 * U, 8 * U])

    def label(self, messy=0.1):
        rng = self.rng
        l = rng.choice(["a", "b", "c", "", "x y"])
        if rng.random() < messy:
            l = rng.choice([" ", "\t", "\n"]) * rng.randint(0, 1) + l + rng.choice([" ", "  ", "\n"])
        return l

    def entries(self, kind, n, messy=0.1, sloppy=0.12):
        rng = self.rng
        if kind == "I":
            cuts = sorted(set(self.time(None) for _ in range(2 * n + 1)))
            E, i = [], 0
            while i + 1 < len(cuts) and len(E) < n:
                E.append([cuts[i], cuts[i + 1], self.label(messy)])
                i += 1 if rng.random() < 0.4 else 2
            if E and rng.random() < sloppy:  # an overlapping / degenerate entry: the constructor must refuse
                x = rng.choice(E)
                E.append(rng.choice([[x[0], x[1] + self.dur(), "o"], [x[1], x[1], "z"], [x[1], x[0], "r"]]))
        else:
            E = [[self.time(None), self.label(messy)] for _ in range(n)]
        if rng.random() < 0.5:
            rng.shuffle(E)
        if not self.dec and rng.random() < 0.2:  # ints where the value is integral
            E = [[int(v) if not isinstance(v, str) and float(v).is_integer() else v for v in e] for e in E]
        return E

    def option(self, options):
        if self.rng.random() < 0.02:
            return "bogus"
        return self.rng.choice(options)

    def construct(self, kind=None):
        rng = self.rng
        kind = kind or ("I" if rng.random() < 0.6 else "P")
        E = self.entries(kind, rng.randint(0, 5))
        u = rng.random()
        if u < 0.5 or not E:
            lo, hi = 0.0, (12.0 if self.dec else 18 * U)
            if rng.random() < 0.3:
                hi = self.time(None)  # possibly inside the entries: the span is the hull
        elif u < 0.8:
            lo, hi = None, None
        else:
            lo, hi = self.time(None), None
        self.nid += 1
        return {"op": "construct", "id": self.nid, "t": kind, "name": "t%d" % self.nid, "E": E, "lo": lo, "hi": hi}

    def step(self, pool):
        rng = self.rng
        if not pool or rng.random() < 0.08:
            return self.construct()
        on = rng.choice(list(pool.keys()))
        tier = pool[on]
        kind = kind_of(tier)
        same = [k for k, t in pool.items() if kind_of(t) == kind]
        ops = ["crop", "eraseRegion", "insertSpace", "editTimestamps", "insertEntry", "insertEntry", "insertEntry",
               "deleteEntry", "union", "appendTier", "dejitter", "new"]
        if kind == "I":
            ops += ["difference", "intersection", "mergeLabels", "morph"]
        op = rng.choice(ops)
        self.nid += 1
        st = {"op": op, "on": on, "id": self.nid}
        if op in ("crop", "eraseRegion"):
            a, b = self.time(pool, True), self.time(pool, True)
            if a > b and rng.random() < 0.9:
                a, b = b, a
            if op == "crop":
                st["args"] = [a, b, self.option(CROP_MODES), rng.random() < 0.5]
            else:
                st["args"] = [a, b, self.option(ERASE_MODES), rng.random() < 0.6]
        elif op == "insertSpace":
            d = self.dur()
            if rng.random() < 0.06:
                d = rng.choice([0.0, -d])
            st["args"] = [self.time(pool, True), d, self.option(SPACE_MODES)]
        elif op == "editTimestamps":
            st["args"] = [self.dur(True) if rng.random() < 0.7 else -self.time(pool), self.option(REPORT_MODES)]
        elif op == "insertEntry":
            if kind == "I":
                s = self.time(pool, True)
                e = s + self.dur() if rng.random() < 0.5 else self.time(pool, True)
                if s > e:
                    s, e = e, s
                if s == e and rng.random() < 0.8:
                    e = s + self.dur()
                if rng.random() < 0.03:
                    s, e = e, s
                ent = [s, e, self.label(0.12)]
            else:
                ent = [self.time(pool, True), self.label(0.12)]
            if not self.dec and rng.random() < 0.15:
                ent = [int(v) if not isinstance(v, str) and float(v).is_integer() else v for v in ent]
            st["args"] = [ent, self.option(INSERT_MODES), rng.choice(["silence", "warning"])]
            st["as"] = rng.choice(["named", "named", "tuple", "list"])
        elif op == "deleteEntry":
            if not tier.entries:
                return self.construct()
            st["args"] = [list(rng.choice(tier.entries))]
        elif op == "dejitter":
            st["other"] = rng.choice(list(pool.keys()))
            st["args"] = [rng.choice([0.001, 0.05, 0.2]) if self.dec else rng.choice([U / 2, U, 0.001])]
        elif op == "morph":
            eq = [k for k in same if len(pool[k].entries) == len(tier.entries)]
            st["other"] = rng.choice(eq) if eq and rng.random() < 0.85 else rng.choice(same)
            st["args"] = [rng.choice([None, None, "a", "b"])]
        elif op == "new":
            u = rng.random()
            ents = None if u < 0.5 else self.entries(kind, rng.randint(0, 4))
            st["args"] = [rng.choice([None, "renamed"]), ents,
                          None if rng.random() < 0.6 else self.time(pool), None if rng.random() < 0.6 else self.time(pool)]
        else:
            st["other"] = rng.choice(same)
        return st


def t_c05_hist_rnd(acc, seed, count, maxlen):
    rng = random.Random(seed)
    for _ in range(count):
        dec = rng.random() < 0.5
        g = Gen05(rng, dec)
        pool, steps, res = {}, [], []
        n = rng.randint(2, maxlen)
        first = [g.construct("I" if rng.random() < 0.6 else "P")]
        if rng.random() < 0.7:
            first.append(g.construct(first[0]["t"]))
        for i in range(n):
            st = first[i] if i < len(first) else g.step(pool)
            steps.append(st)
            try:
                v = check05(pool, st)
            except Exception as e:
                v = [("harness: building the case or reading the result raised", "no exception", _exc(e))]
            if v:
                res = [(w, x, "step %d: %s" % (i, o)) for w, x, o in v]
                break
        case = {"k": "hist05", "dec": int(dec), "steps": steps}
        if res:
            key = "min:" + res[0][0]
            if acc.notes.get(key, 0) < 6:
                acc.note(key)
                case, res = minimise_steps(ev_hist05, case, res)
        acc.cases += len(steps) - 1  # every step is an evaluated (operation, arguments, receiver state) case
        acc.add(case, res)


def run_c05(tier, seed, jobs):
    t0 = time.time()
    thorough = tier == "thorough"
    nr = 640000 if thorough else 96000
    chunks = 64 if thorough else 32
    tasks = [("c05_hist_rnd", (seed * 1000 + 400 + i, nr // chunks, 12)) for i in range(chunks)]
    driven = _drive(tasks, jobs)
    bound = ("%d random histories of 2..12 steps (cases = steps executed; a history is cut at its first violation) over a pool of "
             "tiers: construct (0-5 raw entries, unsorted, labels with surrounding whitespace, ints, 12%% with an overlapping / "
             "degenerate entry, span given / hull / partly given), crop, eraseRegion, insertSpace (6%% d<=0), editTimestamps, "
             "insertEntry (3 modes, named tuple / tuple / list, 12%% labels with surrounding whitespace, ints, 3%% start>end), "
             "deleteEntry (present entry), union, difference, intersection, mergeLabels, appendTier, dejitter, morph (with and "
             "without filter), new (entries / span overridden); binary operations take a second pool tier of the same type "
             "(dejitter: any); times: half of the histories on the dyadic grid k/8 in [-2/8, 18/8] (+ 1/16 durations), half "
             "3-decimal numbers in [-0.5, 12], 45%% of all times re-use a boundary of a pool tier; option strings 2%% invalid; "
             "after every step the created / mutated tier must be well-formed (time order, start<end, no overlap, inside "
             "[min,max], labels stripped, validate('silence') True) unless the step raised a PraatioException; seed=%d"
             % (nr, seed))
    return _result("C05: well-formedness of every tier obtained along random operation histories; any non-praatio exception is "
                   "a violation of its own category", bound, False, t0, driven)


# =========================================================================================
# C12  a Textgrid is an ordered, uniquely named tier map; edits act tier-wise
# =========================================================================================

# the five tier slots of the small universe: (type, name, entries, lo, hi)
SLOTS = (
    ("I", "a", [[0.0, U, "x"]], 0.0, 4 * U),
    ("P", "b", [[U, "p"]], 0.0, 4 * U),
    ("I", "c", [[U, 3 * U, "y"]], 0.0, 6 * U),  # ends later than the others: widens the span
    ("P", "a", [], U, 3 * U),  # same name as slot 0, empty
    ("I", "d", [[2 * U, 3 * U, "z"]], U, 4 * U),
)
NAMES = ("a", "b", "c", "d")
TG_INITS = ((None, None), (U, 3 * U))


def slot_tier(k, name=None):
    t, n, E, lo, hi = SLOTS[k]
    return mk_tier(t, E, lo, hi, name or n)


def tg_view(tg):
    tiers = []
    for n in tg.tierNames:
        t = tg.getTier(n)
        tiers.append([kind_of(t), plain(t.entries), t.minTimestamp, t.maxTimestamp, t.name])
    return {"names": list(tg.tierNames), "tiers": tiers, "lo": tg.minTimestamp, "hi": tg.maxTimestamp,
            "order": [t.name for t in tg.tiers]}


def model_view(st):
    tiers = [[SLOTS[k][0], SLOTS[k][2], SLOTS[k][3], SLOTS[k][4], n] for n, k in zip(st["names"], st["slots"])]
    return {"names": list(st["names"]), "tiers": tiers, "lo": st["lo"], "hi": st["hi"], "order": list(st["names"])}


def _hull(lo, hi, tlo, thi):
    return (tlo if lo is None else min(lo, tlo)), (thi if hi is None else max(hi, thi))


def tg_model_step(st, op):
    """ordered-list model of C12.  -> (outcome, [acceptable successor states]); outcome 'ok' | 'reject' |
    'ok_or_reject' (the statement leaves both open)"""
    names, slots = st["names"], st["slots"]
    kind = op[0]
    if kind == "add":
        k, idx = op[1], op[2]
        n = SLOTS[k][1]
        if n in names:
            return "reject", [st]  # a duplicate name is rejected
        nn, ns = list(names), list(slots)
        if idx is None:
            nn.append(n)
            ns.append(k)
        else:
            nn.insert(idx, n)  # plain ordered list
            ns.insert(idx, k)
        lo, hi = _hull(st["lo"], st["hi"], SLOTS[k][3], SLOTS[k][4])  # the span only widens, to cover the added tier
        new = {"names": nn, "slots": ns, "lo": lo, "hi": hi}
        if idx is not None and (idx > len(names) or idx < -len(names)):
            return "ok_or_reject", [new, st]  # an index outside the list: clamped like list.insert, or refused
        return "ok", [new]
    if kind == "remove":
        if op[1] not in names:
            return "reject", [st]
        i = names.index(op[1])
        return "ok", [{"names": names[:i] + names[i + 1:], "slots": slots[:i] + slots[i + 1:], "lo": st["lo"], "hi": st["hi"]}]
    if kind == "rename":
        old, new = op[1], op[2]
        if old not in names:
            return "reject", [st]
        if new == old:
            return "ok_or_reject", [st, st]
        if new in names:
            return "reject", [st]
        i = names.index(old)
        return "ok", [{"names": names[:i] + [new] + names[i + 1:], "slots": list(slots), "lo": st["lo"], "hi": st["hi"]}]
    if kind == "replace":
        name, k = op[1], op[2]
        if name not in names:
            return "reject", [st]
        n = SLOTS[k][1]
        if n != name and n in names:
            return "reject", [st]
        i = names.index(name)
        lo, hi = _hull(st["lo"], st["hi"], SLOTS[k][3], SLOTS[k][4])
        return "ok", [{"names": names[:i] + [n] + names[i + 1:], "slots": slots[:i] + [k] + slots[i + 1:], "lo": lo, "hi": hi}]
    raise ValueError(op)


def tg_real_step(tg, op):
    try:
        if op[0] == "add":
            tg.addTier(slot_tier(op[1]), op[2], "silence")
        elif op[0] == "remove":
            r = tg.removeTier(op[1])
            return None, r
        elif op[0] == "rename":
            tg.renameTier(op[1], op[2])
        else:
            tg.replaceTier(op[1], slot_tier(op[2]), "silence")
    except Exception as ex:
        return ex, None
    return None, None


_TGOP_NAMES = {"add": "addTier", "remove": "removeTier", "rename": "renameTier", "replace": "replaceTier"}


def tg_compare(st, op, outcome, succ, tg, exc, ret):
    """-> (violations, matched successor or None)"""
    fn = _TGOP_NAMES[op[0]]
    got = tg_view(tg)
    why = {"add": "a tier with the same name is present", "remove": "no tier has that name",
           "rename": "the old name is absent / the new name is used by another tier",
           "replace": "the name is absent / the new tier's name is used by another tier"}[op[0]]
    if outcome == "reject":
        if exc is None:
            return [("%s: accepted although %s" % (fn, why), model_view(st), got)], None
        if got != model_view(st):
            lost = len(got["names"]) < len(st["names"])
            return [("%s: rejected (%s) but the textgrid changed%s" % (fn, why, " (a tier is lost)" if lost else ""),
                     model_view(st), got)], None
        return [], st
    if exc is not None:
        if outcome == "ok_or_reject" and got == model_view(st):
            return [], st
        return [("%s: raises %s on a valid call" % (fn, type(exc).__name__), model_view(succ[0]), _exc(exc))], None
    for s in succ:
        if got == model_view(s):
            return [], s
    x = model_view(succ[0])
    if got["names"] != x["names"] or got["order"] != x["order"]:
        if sorted(got["names"]) == sorted(x["names"]):
            what = "%s%s: tier order differs from the ordered-list model" % (fn, "(tierIndex)" if op[0] == "add" else "")
        else:
            what = "%s: tier names differ from the ordered-list model" % fn
    elif [t[:2] for t in got["tiers"]] != [t[:2] for t in x["tiers"]]:
        what = "%s: a name maps to the wrong tier" % fn
    elif [t[4] for t in got["tiers"]] != [t[4] for t in x["tiers"]]:
        what = "%s: a tier is stored under a name different from its own name" % fn
    elif (got["lo"], got["hi"]) != (x["lo"], x["hi"]):
        what = "%s: textgrid span is not the old span widened to cover the added tier" % fn
    else:
        what = "%s: a tier's own span changed" % fn
    return [(what, x, got)], None


def _tg_init(i):
    lo, hi = TG_INITS[i]
    return Textgrid(lo, hi), {"names": [], "slots": [], "lo": lo, "hi": hi}


def ev_tgops(case, check_from=0):
    """replay `path` then `op` on a fresh textgrid, comparing with the model after every step >= check_from"""
    tg, st = _tg_init(case["init"])
    ops = [list(o) for o in case["path"]] + [list(case["op"])]
    for i, op in enumerate(ops):
        outcome, succ = tg_model_step(st, op)
        exc, ret = tg_real_step(tg, op)
        if i >= check_from:
            v, st2 = tg_compare(st, op, outcome, succ, tg, exc, ret)
            if v:
                return [(w, "step %d %s: %s" % (i, op, x), o) for w, x, o in v]
            st = st2
        else:  # already verified when the path was first found
            st = succ[0] if exc is None or outcome == "reject" else st
            if outcome == "ok_or_reject" and exc is not None:
                st = succ[-1]
    ev_tgops.last_state = st
    return []


def tg_ops_for(st):
    n = len(st["names"])
    ops = []
    for k in range(len(SLOTS)):
        for idx in [None] + list(range(-2, n + 3)):
            ops.append(["add", k, idx])
    for name in NAMES:
        ops.append(["remove", name])
    for old in NAMES:
        for new in NAMES:
            ops.append(["rename", old, new])
    for name in NAMES:
        for k in range(len(SLOTS)):
            ops.append(["replace", name, k])
    return ops


def _state_key(st):
    return json.dumps([st["names"], st["slots"], st["lo"], st["hi"]])


def _c12_expand(task):
    """apply every operation to every given (init, path, state); returns (acc dump, successors)"""
    acc = Acc()
    succs = []
    with _quiet():
        for init, path, st in task:
            for op in tg_ops_for(st):
                case = {"k": "tgops", "init": init, "path": path, "op": op}
                try:
                    res = ev_tgops(case, check_from=len(path))
                except Exception as e:
                    res = [("harness: building the case or reading the result raised", "no exception", _exc(e))]
                acc.add(case, res)
                if not res:
                    s2 = ev_tgops.last_state
                    succs.append((_state_key(s2), init, path + [op], s2))
    return acc.dump(), succs


def _c12_graph(depth, jobs):
    """breadth first over the model states reachable in < depth operations; every operation is applied to every such
    state (rebuilt on the real Textgrid by the first path found to it)"""
    seen = {}
    frontier = []
    for i in range(len(TG_INITS)):
        _tg, st = _tg_init(i)
        seen[(i, _state_key(st))] = True
        frontier.append((i, [], st))
    dumps, nstates = [], 0
    for _level in range(depth):
        if not frontier:
            break
        nstates += len(frontier)
        nchunks = max(1, min(len(frontier), 64))  # independent of `jobs`: same merge order
        chunks = [frontier[c::nchunks] for c in range(nchunks)]
        results = _pool_map(_c12_expand, chunks, jobs)
        allsucc = []
        for d, succs in results:
            dumps.append(d)
            allsucc.extend(succs)
        # deterministic choice of the first path (plain appends preferred)
        allsucc.sort(key=lambda x: (len(x[2]), [[o[0], str(o[1]), -100 if o[2] is None else o[2]] if o[0] == "add" else
                                                  [o[0], str(o[1]), str(o[2:])] for o in x[2]], x[1]))
        frontier = []
        for key, init, path, st in allsucc:
            if (init, key) not in seen:
                seen[(init, key)] = True
                frontier.append((init, path, st))
    return dumps, nstates


# ---- tier-wise edits ----------------------------------------------------------------------


def _tier_call(tier, op, args):
    try:
        return getattr(tier, op)(*args), None
    except Exception as ex:
        return None, ex


def ev_tgedit(case):
    spec, op, args = case["tg"], case["op"], case["args"]
    tg = build_tg(spec)
    targs = list(args)
    if op == "eraseRegion":
        targs = [args[0], args[1], "truncate", args[2]]  # the textgrid-level operation truncates
    per = []
    for ts in spec["tiers"]:
        t = mk_tier(ts["t"], ts["E"], ts.get("lo", spec["lo"]), ts.get("hi", spec["hi"]), ts["name"])
        if op == "editTimestamps" and not ts["E"]:
            per.append((t, None))  # nothing to move
            continue
        per.append(_tier_call(t, op, targs))
    tier_raises = [ex for _r, ex in per if ex is not None]
    got, exc = _tier_call(tg, op, args)
    pre = "Textgrid.%s" % op
    if exc is not None:
        if tier_raises or not spec["tiers"]:
            return []
        if op == "editTimestamps" and args[1] == "error" and isinstance(exc, PraatioError):
            # leaving the old span is an exception in 'error' mode: at the tier level (OutOfBounds) or at the textgrid level
            lo, hi = spec["lo"], spec["hi"]
            if any(shift_oracle(ts["t"], ts["E"], lo, hi, args[0])[1] for ts in spec["tiers"]):
                return []
        if isinstance(exc, PraatioError) and ((op in ("crop", "eraseRegion") and not args[0] < args[1])):
            return []
        return [("%s: raises %s although the operation succeeds on every tier" % (pre, type(exc).__name__), "a textgrid",
                 _exc(exc))]
    if tier_raises:
        return [("%s: succeeds although the same operation raises on one of its tiers" % pre, _exc(tier_raises[0]),
                 list(got.tierNames))]
    names = [t["name"] for t in spec["tiers"]]
    if list(got.tierNames) != names or [t.name for t in got.tiers] != names:
        return [("%s: tier names / order changed" % pre, names, list(got.tierNames))]
    out = []
    for (r, _e), n in zip(per, names):
        g = got.getTier(n)
        if kind_of(g) != kind_of(r) or plain(g.entries) != plain(r.entries):
            out.append(("%s: a tier's entries differ from the same operation applied to the tier" % pre, {n: plain(r.entries)},
                        {n: plain(g.entries)}))
        elif (g.minTimestamp, g.maxTimestamp) != (r.minTimestamp, r.maxTimestamp):
            out.append(("%s: a tier's span differs from the same operation applied to the tier" % pre,
                        {n: [r.minTimestamp, r.maxTimestamp]}, {n: [g.minTimestamp, g.maxTimestamp]}))
    if out:
        return out
    shares = op in ("eraseRegion", "insertSpace") or (op == "crop" and args[2] in ("strict", "truncated"))
    if shares:
        for n in names:
            g = got.getTier(n)
            if (g.minTimestamp, g.maxTimestamp) != (got.minTimestamp, got.maxTimestamp):
                what = "%s: a tier does not share the textgrid's span" % pre
                if case.get("dec") and abs(g.minTimestamp - got.minTimestamp) <= TOL and abs(g.maxTimestamp - got.maxTimestamp) <= TOL:
                    what += " (they differ by float rounding of the new end time, decimal timestamps; validate() is False)"
                out.append((what, [got.minTimestamp, got.maxTimestamp], {n: [g.minTimestamp, g.maxTimestamp]}))
                break
        try:
            ok = got.validate("silence")
        except Exception as ex:
            ok = _exc(ex)
        if ok is not True and not out:
            out.append(("%s: validate() of the result is not True" % pre, True, ok))
    return out


def ev_tgmerge(case):
    spec, sel, preserve = case["tg"], case["names"], case["preserve"]
    tg = build_tg(spec)
    names = [t["name"] for t in spec["tiers"]]
    chosen = names if sel is None else list(sel)
    exp = {}
    for kind in ("I", "P"):
        ts = [t for n in chosen for t in spec["tiers"] if t["name"] == n and t["t"] == kind]
        if ts:
            acc_t = mk_tier(kind, ts[0]["E"], spec["lo"], spec["hi"], ts[0]["name"])
            try:
                for t in ts[1:]:
                    acc_t = acc_t.union(mk_tier(kind, t["E"], spec["lo"], spec["hi"], t["name"]))
            except Exception:
                return SKIP  # union itself fails: C10's business
            exp[kind] = plain(acc_t.entries)
    others = [t for t in spec["tiers"] if t["name"] not in chosen] if preserve else []
    try:
        got = tg.mergeTiers(sel, preserve)
    except Exception as ex:
        return [("Textgrid.mergeTiers: raises %s" % type(ex).__name__, exp, _exc(ex))]
    gt = list(got.tiers)
    onames = [t["name"] for t in others]
    kept = [t for t in gt if t.name in onames]
    if [t.name for t in kept] != onames or any(plain(k.entries) != [list(e) for e in o["E"]] for k, o in zip(kept, others)):
        return [("Textgrid.mergeTiers: the tiers that are not merged are not preserved (preserveOtherTiers=%s)" % preserve,
                 onames, [t.name for t in gt])]
    merged = [t for t in gt if t.name not in onames]
    if not preserve and len(gt) != len(merged):
        return [("Textgrid.mergeTiers: unselected tiers appear although preserveOtherTiers is False", sorted(exp),
                 [t.name for t in gt])]
    out = []
    if sorted(kind_of(t) for t in merged) != sorted(exp):
        return [("Textgrid.mergeTiers: result does not hold exactly one tier per merged tier type", sorted(exp),
                 [[t.name, kind_of(t)] for t in merged])]
    for t in merged:
        if plain(t.entries) != exp[kind_of(t)]:
            out.append(("Textgrid.mergeTiers: merged %s tier is not the union of the selected tiers"
                        % ("interval" if kind_of(t) == "I" else "point"), exp[kind_of(t)], plain(t.entries)))
    return out


def _rand_tg(rng, dec):
    hi = rng.choice([10.0, 12.345]) if dec else 16 * U
    ntiers = rng.randint(1, 4)
    tiers = []
    for i in range(ntiers):
        kind = "I" if rng.random() < 0.6 else "P"
        n = rng.randint(0, 4)
        if dec:
            E = rand_dec_intervals(rng, n) if kind == "I" else rand_dec_points(rng, n)
        else:
            E = _rand_tier_grid(rng, kind, 17, n)
        tiers.append({"t": kind, "name": "t%d" % i, "E": E})
    return {"lo": 0.0, "hi": hi, "tiers": tiers}


def t_c12_edits_rnd(acc, seed, count):
    rng = random.Random(seed)
    for _ in range(count):
        dec = rng.random() < 0.4
        spec = _rand_tg(rng, dec)
        hi = spec["hi"]
        bounds = [v for t in spec["tiers"] for e in t["E"] for v in e[:-1]] + [0.0, hi]

        def tm():
            if rng.random() < 0.5:
                return rng.choice(bounds)
            return round(rng.uniform(0, hi), 3) if dec else rng.randint(0, 16) * U

        op = rng.choice(["crop", "eraseRegion", "insertSpace", "editTimestamps", "mergeTiers"])
        if op == "mergeTiers":
            names = [t["name"] for t in spec["tiers"]]
            sel = None if rng.random() < 0.3 else [n for n in names if rng.random() < 0.6]
            if sel is not None and rng.random() < 0.5:
                rng.shuffle(sel)
            case = {"k": "tgmerge", "tg": spec, "names": sel, "preserve": rng.random() < 0.5}
            acc.run(ev_tgmerge, case)
            continue
        if op in ("crop", "eraseRegion"):
            a, b = tm(), tm()
            if a > b:
                a, b = b, a
            if a == b and rng.random() < 0.9:
                a, b = 0.0, hi  # regions stay inside the span (C07's precondition)
            args = [a, b, rng.choice(CROP_MODES), rng.random() < 0.5] if op == "crop" else [a, b, rng.random() < 0.5]
        elif op == "insertSpace":
            args = [tm(), round(rng.uniform(0.001, 3), 3) if dec else rng.choice([U / 2, U, 3 * U]), rng.choice(SPACE_MODES)]
        else:
            o = round(rng.uniform(-6, 4), 3) if dec else rng.randint(-12, 8) * U
            args = [o, rng.choice(REPORT_MODES)]
        case = {"k": "tgedit", "tg": spec, "op": op, "args": args}
        if dec:
            case["dec"] = 1
        acc.run(ev_tgedit, case)


def run_c12(tier, seed, jobs):
    t0 = time.time()
    thorough = tier == "thorough"
    depth = 6 if thorough else 5
    dumps, nstates = _c12_graph(depth, jobs)
    nr = 200000 if thorough else 24000
    tasks = [("c12_edits_rnd", (seed * 1000 + 500 + i, nr // 16)) for i in range(16)]
    dumps += _pool_map(_run_task, tasks, jobs)
    driven = _merge(dumps)
    bound = ("ALL sequences of <= %d operations over the universe {addTier(one of 5 tier slots: interval a, point b, interval c "
             "ending later, empty point tier also named a, interval d; tierIndex None or -2..len+2; reportingMode silence), "
             "removeTier(name), renameTier(old,new), replaceTier(name, slot)} with names from {a,b,c,d}, from Textgrid() and "
             "Textgrid(1/8,3/8), explored as a graph: every model state reachable in < %d operations (%d states) is rebuilt on "
             "the real Textgrid by the first path found to it and EVERY operation of the universe (absent names, clashes, "
             "out-of-range indices included) is applied and compared with the ordered-list model (names, order, name->tier, "
             "tier.name, spans); tierIndex beyond the list: clamped like list.insert or refused without change; + %d random "
             "textgrids of 1-4 tiers x 0-4 entries (60%% dyadic grid k/8, 40%% 3-decimal) x random arguments of crop (3 modes, "
             "rebase T/F), eraseRegion, insertSpace (4 modes), editTimestamps (3 modes) compared tier by tier with the tier-level "
             "operation, shared span + validate() for crop(strict/truncated)/eraseRegion/insertSpace, and mergeTiers (random "
             "selection, order, preserveOtherTiers) against the fold of union; seed=%d" % (depth, depth, nstates, nr, seed))
    return _result("C12: addTier/removeTier/renameTier/replaceTier against an ordered-list model along all short operation "
                   "sequences; Textgrid.crop/eraseRegion/insertSpace/editTimestamps/mergeTiers against the tier-level operations",
                   bound, True, t0, driven)


# =========================================================================================
# C13  copies never mutate; failed mutations change nothing; a failing save leaves the file alone
# =========================================================================================


def snap_tier(t):
    return [type(t).__name__, t.name, [list(e) for e in t._entries], repr(t.minTimestamp), repr(t.maxTimestamp),
            [type(v).__name__ for e in t._entries for v in e]]


def snap_tg(tg):
    return [list(tg.tierNames), [snap_tier(t) for t in tg.tiers], repr(tg.minTimestamp), repr(tg.maxTimestamp)]


MUTATORS05 = ("insertEntry", "deleteEntry")
QUERIES = ("find", "getNonEntries", "getValuesInIntervals", "getValuesAtPoints", "timestamps", "validate", "eq", "entries",
           "len", "iter")


def apply_query(pool, call):
    tier = pool[call["on"]]
    q, a = call["op"], call.get("args", [])
    if q == "find":
        return tier.find(a[0], a[1], a[2])
    if q == "getNonEntries":
        return tier.getNonEntries()
    if q == "getValuesInIntervals":
        return tier.getValuesInIntervals(call["_data"])
    if q == "getValuesAtPoints":
        return tier.getValuesAtPoints(call["_data"], a[1])
    if q == "timestamps":
        return tier.timestamps
    if q == "validate":
        return tier.validate(a[0])
    if q == "eq":
        return tier == pool[call["other"]]
    if q == "entries":
        return tier.entries
    if q == "len":
        return len(tier)
    return [e for e in tier]


def ev_nomut(case):
    pool = {}
    try:
        for step in case["steps"]:
            try:
                apply05(pool, step)
            except InvalidCase:
                raise
            except Exception:
                pass  # a step that fails contributes nothing; the receivers are whatever the history produced
        call = dict(case["call"])
        if call["on"] not in pool or ("other" in call and call["other"] not in pool):
            raise InvalidCase()
    except InvalidCase:
        return SKIP
    op = call["op"]
    cls = type(pool[call["on"]]).__name__
    before = {k: snap_tier(t) for k, t in pool.items()}
    data = None
    if op in ("getValuesInIntervals", "getValuesAtPoints"):
        data = [tuple(r) for r in call["args"][0]]
        call["_data"] = data
        data_before = list(data)
    exc = None
    try:
        with _quiet():
            if op in QUERIES:
                apply_query(pool, call)
            else:
                apply05(pool, call)
    except InvalidCase:
        return SKIP
    except Exception as ex:
        exc = ex
    out = []
    for k, s in before.items():
        now = snap_tier(pool[k])
        if now == s:
            continue
        if k == call["on"]:
            if op in MUTATORS05:
                if exc is not None:
                    out.append(("%s.%s raising %s: the tier is not exactly as before the call" % (cls, op, type(exc).__name__),
                                s, now))
                continue
            out.append(("%s.%s: the receiver is changed by the call" % (cls, op), s, now))
        elif k == call.get("other"):
            out.append(("%s.%s: the argument tier is changed by the call" % (cls, op), s, now))
        else:
            out.append(("%s.%s: an unrelated tier is changed by the call" % (cls, op), s, now))
    if data is not None and data != data_before:
        out.append(("%s.%s: the data list passed in is changed by the call" % (cls, op), data_before, data))
    return out


def _gen_query(g, pool, rng):
    on = rng.choice(list(pool.keys()))
    tier = pool[on]
    kind = kind_of(tier)
    qs = ["find", "timestamps", "validate", "eq", "entries", "len", "iter"]
    qs += ["getNonEntries", "getValuesInIntervals"] if kind == "I" else ["getValuesAtPoints"]
    q = rng.choice(qs)
    call = {"op": q, "on": on}
    if q == "find":
        call["args"] = [rng.choice(["a", "b", "", "x"]), rng.random() < 0.5, rng.random() < 0.3]
    elif q == "validate":
        call["args"] = [rng.choice(REPORT_MODES + ("bogus",))]
    elif q == "eq":
        call["other"] = rng.choice(list(pool.keys()))
    elif q in ("getValuesInIntervals", "getValuesAtPoints"):
        data = [[g.time(pool), rng.randint(0, 9)] for _ in range(rng.randint(0, 6))]
        if rng.random() < 0.5:
            data.sort()
        call["args"] = [data, rng.random() < 0.5]
    return call


def _gen_failing_mutation(g, pool, rng):
    on = rng.choice(list(pool.keys()))
    tier = pool[on]
    kind = kind_of(tier)
    u = rng.random()
    g.nid += 1
    if tier.entries and u < 0.45:  # collision in error mode
        x = list(rng.choice(tier.entries))
        if kind == "I" and rng.random() < 0.5:
            x[1] = x[1] + g.dur()
        x[-1] = "new"
        return {"op": "insertEntry", "on": on, "id": g.nid, "args": [x, "error", rng.choice(["silence", "warning"])],
                "as": rng.choice(["named", "tuple", "list"])}
    if u < 0.7:  # invalid option value
        ent = [g.time(pool), g.time(pool) + 100.0, "n"] if kind == "I" else [g.time(pool), "n"]
        bad_first = rng.random() < 0.5
        return {"op": "insertEntry", "on": on, "id": g.nid,
                "args": [ent, "bogus" if bad_first else rng.choice(INSERT_MODES), "silence" if bad_first else "bogus"], "as": "named"}
    if u < 0.8 and kind == "I":  # not an interval
        t = g.time(pool)
        return {"op": "insertEntry", "on": on, "id": g.nid, "args": [[t, t, "n"], rng.choice(INSERT_MODES), "silence"], "as": "named"}
    ent = list(rng.choice(tier.entries)) if tier.entries else ([1.0, 2.0, "a"] if kind == "I" else [1.0, "a"])
    ent[-1] = ent[-1] + "?"  # missing entry
    return {"op": "deleteEntry", "on": on, "id": g.nid, "args": [ent]}


def t_c13_tiers_rnd(acc, seed, count):
    rng = random.Random(seed)
    for _ in range(count):
        dec = rng.random() < 0.4
        g = Gen05(rng, dec)
        pool, steps = {}, []
        first = g.construct("I" if rng.random() < 0.6 else "P")
        for i in range(rng.randint(2, 6)):
            st = first if i == 0 else (g.construct(first["t"]) if i == 1 else g.step(pool))
            steps.append(st)
            try:
                with _quiet():
                    apply05(pool, st)
            except Exception:
                pass
        if not pool:
            continue
        u = rng.random()
        if u < 0.25:
            call = _gen_query(g, pool, rng)
        elif u < 0.5:
            call = _gen_failing_mutation(g, pool, rng)
        else:
            call = g.step(pool)
            if call["op"] == "construct":
                continue
        case = {"k": "nomut", "dec": int(dec), "steps": steps, "call": call}
        try:
            res = ev_nomut(case)
        except Exception as e:
            res = [("harness: building the case or reading the result raised", "no exception", _exc(e))]
        if res and res is not SKIP:
            key = "min:" + res[0][0]
            if acc.notes.get(key, 0) < 6:
                acc.note(key)
                case, res = minimise_steps(ev_nomut, case, res)
        acc.add(case, res)


# ---- textgrids -----------------------------------------------------------------------------

SENTINEL = b"previous content of the destination file\n"
_FILE_COUNTER = [0]


def _tier_from_spec(ts, lo, hi):
    return mk_tier(ts["t"], ts["E"], ts.get("lo", lo), ts.get("hi", hi), ts["name"])


def ev_tgnomut(case):
    spec, call = case["tg"], case["call"]
    tg = build_tg(spec)
    other = build_tg(case["other"]) if case.get("other") else None
    b_tg, b_other = snap_tg(tg), (snap_tg(other) if other is not None else None)
    fn, a = call[0], call[1:]
    exc, path, file_after = None, None, None
    try:
        with _quiet():
            if fn == "appendTextgrid":
                tg.appendTextgrid(other, a[0])
            elif fn == "eq":
                tg == (other if other is not None else tg)
            elif fn == "new":
                tg.new()
            elif fn == "tierNames":
                tg.tierNames, tg.tiers, len(tg), [t for t in tg]
            elif fn == "getTier":
                tg.getTier(a[0])
            elif fn == "save":
                _FILE_COUNTER[0] += 1
                path = os.path.join(_scratch(), "dest%d.TextGrid" % _FILE_COUNTER[0])
                with open(path, "wb") as fd:
                    fd.write(SENTINEL)
                try:
                    tg.save(path, a[0], a[1], a[2], a[3], a[4], a[5])
                finally:
                    with open(path, "rb") as fd:
                        file_after = fd.read()
                    os.remove(path)
            else:
                getattr(tg, fn)(*a)
    except Exception as ex:
        exc = ex
    out = []
    if snap_tg(tg) != b_tg:
        out.append(("Textgrid.%s%s: the receiver is changed by the call" % (fn, " (raising)" if exc is not None else ""), b_tg,
                    snap_tg(tg)))
    if other is not None and snap_tg(other) != b_other:
        out.append(("Textgrid.%s: the argument textgrid is changed by the call" % fn, b_other, snap_tg(other)))
    if fn == "save" and exc is not None and file_after is not None and file_after != SENTINEL:
        out.append(("Textgrid.save raising %s: the existing destination file is modified" % type(exc).__name__, SENTINEL,
                    file_after[:80]))
    return out


def ev_tgfail(case):
    spec, call, reason = case["tg"], case["call"], case["reason"]
    tg = build_tg(spec)
    fn = call[0]
    arg_tier = None
    before = snap_tg(tg)
    try:
        with _quiet():
            if fn == "addTier":
                arg_tier = _tier_from_spec(call[1], spec["lo"], spec["hi"])
                b_arg = snap_tier(arg_tier)
                tg.addTier(arg_tier, call[2], call[3])
            elif fn == "removeTier":
                tg.removeTier(call[1])
            elif fn == "renameTier":
                tg.renameTier(call[1], call[2])
            else:
                arg_tier = _tier_from_spec(call[2], spec["lo"], spec["hi"])
                b_arg = snap_tier(arg_tier)
                tg.replaceTier(call[1], arg_tier, call[3])
    except Exception as ex:
        out = []
        after = snap_tg(tg)
        if after != before:
            detail = ""
            if len(after[0]) < len(before[0]):
                detail = " (a tier is lost)"
            elif len(after[0]) > len(before[0]):
                detail = " (the tier is stored although the call raised)"
            elif after[0] != before[0] or after[1] != before[1]:
                detail = " (a tier is swapped)"
            out.append(("%s failing with %s: the textgrid is not exactly as before the call%s" % (fn, reason, detail), before,
                        "%s; now %r" % (type(ex).__name__, after)))
        if arg_tier is not None and snap_tier(arg_tier) != b_arg:
            out.append(("%s failing with %s: the tier passed in is changed" % (fn, reason), b_arg, snap_tier(arg_tier)))
        return out
    return SKIP  # the call did not fail: all-or-nothing says nothing about it


def _small_tg_specs():
    """valid textgrids of 1-3 tiers on the grid, span [1/8, 1]"""
    lo, hi = U, 8 * U
    T = {"w": {"t": "I", "name": "w", "E": [[U, 2 * U, "a"], [3 * U, 5 * U, "b"]]},
         "p": {"t": "P", "name": "p", "E": [[2 * U, "x"], [6 * U, "y"]]},
         "e": {"t": "I", "name": "e", "E": []}}
    out = []
    for names in (("w",), ("w", "p"), ("p", "w"), ("w", "p", "e"), ("e", "w", "p"), ("p", "e", "w")):
        out.append({"lo": lo, "hi": hi, "tiers": [T[n] for n in names]})
    return out


def t_c13_tgfail(acc):
    for spec in _small_tg_specs():
        names = [t["name"] for t in spec["tiers"]]
        lo, hi = spec["lo"], spec["hi"]
        fresh = {"t": "I", "name": "n", "E": [[2 * U, 3 * U, "q"]]}
        wider = [dict(fresh, hi=hi + U), dict(fresh, lo=0.0), {"t": "P", "name": "n", "E": [[hi + U, "late"]]},
                 {"t": "I", "name": "n", "E": [[0.0, U, "early"]]}]
        idxs = [None] + list(range(-1, len(names) + 1))
        for idx in idxs:
            for mode in REPORT_MODES:
                for n in names:
                    clash = dict(fresh, name=n)
                    acc.run(ev_tgfail, {"k": "tgfail", "tg": spec, "call": ["addTier", clash, idx, mode], "reason": "a name clash"})
            for w in wider:
                acc.run(ev_tgfail, {"k": "tgfail", "tg": spec, "call": ["addTier", w, idx, "error"],
                                    "reason": "a span change under reportingMode='error'"})
            acc.run(ev_tgfail, {"k": "tgfail", "tg": spec, "call": ["addTier", fresh, idx, "bogus"],
                                "reason": "an invalid option value"})
        for n in ("n", "", "W"):
            acc.run(ev_tgfail, {"k": "tgfail", "tg": spec, "call": ["removeTier", n], "reason": "a missing name"})
            acc.run(ev_tgfail, {"k": "tgfail", "tg": spec, "call": ["renameTier", n, "z"], "reason": "a missing name"})
            for mode in REPORT_MODES:
                acc.run(ev_tgfail, {"k": "tgfail", "tg": spec, "call": ["replaceTier", n, fresh, mode], "reason": "a missing name"})
        for old in names:
            for new in names:
                if new != old:
                    acc.run(ev_tgfail, {"k": "tgfail", "tg": spec, "call": ["renameTier", old, new], "reason": "a name clash"})
                    for mode in REPORT_MODES:
                        acc.run(ev_tgfail, {"k": "tgfail", "tg": spec, "call": ["replaceTier", old, dict(fresh, name=new), mode],
                                            "reason": "a name clash"})
            for w in wider:
                for nm in ("n", old):
                    acc.run(ev_tgfail, {"k": "tgfail", "tg": spec, "call": ["replaceTier", old, dict(w, name=nm), "error"],
                                        "reason": "a span change under reportingMode='error'"})
            acc.run(ev_tgfail, {"k": "tgfail", "tg": spec, "call": ["replaceTier", old, dict(fresh, name=old), "bogus"],
                                "reason": "an invalid option value"})


FORMATS = ("short_textgrid", "long_textgrid", "json", "textgrid_json")


def t_c13_tgs_rnd(acc, seed, count):
    rng = random.Random(seed)
    for _ in range(count):
        dec = rng.random() < 0.4
        spec = _rand_tg(rng, dec)
        hi = spec["hi"]
        invalid = rng.random() < 0.25
        if invalid:  # a tier whose span differs from the textgrid's: validate() False
            t = rng.choice(spec["tiers"])
            if rng.random() < 0.5:
                t["hi"] = hi - (0.5 if dec else 2 * U) if not t["E"] else hi + 1.0
            else:
                t["lo"] = -1.0
        bounds = [v for t in spec["tiers"] for e in t["E"] for v in e[:-1]] + [0.0, hi]

        def tm():
            if rng.random() < 0.5:
                return rng.choice(bounds)
            return round(rng.uniform(0, hi), 3) if dec else rng.randint(0, 16) * U

        fn = rng.choice(["appendTextgrid", "crop", "eraseRegion", "editTimestamps", "insertSpace", "mergeTiers", "new", "validate",
                         "eq", "tierNames", "getTier", "save", "save", "save"])
        other = None
        if fn in ("appendTextgrid", "eq"):
            other = _rand_tg(rng, dec)
            if rng.random() < 0.3:
                other = json.loads(json.dumps(spec))
        if fn == "appendTextgrid":
            call = [fn, rng.random() < 0.5]
        elif fn == "crop":
            call = [fn, tm(), tm(), rng.choice(CROP_MODES + ("bogus",)), rng.random() < 0.5]
        elif fn == "eraseRegion":
            call = [fn, tm(), tm(), rng.random() < 0.5]
        elif fn == "editTimestamps":
            call = [fn, round(rng.uniform(-6, 4), 3) if dec else rng.randint(-12, 8) * U, rng.choice(REPORT_MODES + ("bogus",))]
        elif fn == "insertSpace":
            call = [fn, tm(), round(rng.uniform(0.001, 3), 3) if dec else rng.choice([U, 3 * U]), rng.choice(SPACE_MODES + ("bogus",))]
        elif fn == "mergeTiers":
            names = [t["name"] for t in spec["tiers"]]
            call = [fn, None if rng.random() < 0.3 else [n for n in names if rng.random() < 0.6], rng.random() < 0.5]
        elif fn == "validate":
            call = [fn, rng.choice(REPORT_MODES + ("bogus",))]
        elif fn == "getTier":
            call = [fn, rng.choice([t["name"] for t in spec["tiers"]] + ["missing"])]
        elif fn == "save":
            u = rng.random()
            fmt, mode, minT, maxT = rng.choice(FORMATS), rng.choice(["silence", "warning"]), None, None
            if u < 0.2:
                fmt = "bogus"
            elif u < 0.3:
                mode = "bogus"
            elif u < 0.5:
                mode = "error"  # raises when the textgrid is invalid
            elif u < 0.65:
                minT = tm() + (1.0 if rng.random() < 0.5 else 0.0)  # possibly later than the first entry
            elif u < 0.8:
                maxT = tm() / 2  # possibly earlier than the last entry
            call = [fn, fmt, rng.random() < 0.5, minT, maxT, rng.choice([1e-8, None, 0.5]), mode]
        else:
            call = [fn]
        case = {"k": "tgnomut", "tg": spec, "call": call}
        if other is not None:
            case["other"] = other
        acc.run(ev_tgnomut, case)


def run_c13(tier, seed, jobs):
    t0 = time.time()
    thorough = tier == "thorough"
    nr = 320000 if thorough else 48000
    ng = 160000 if thorough else 24000
    tasks = [("c13_tiers_rnd", (seed * 1000 + 600 + i, nr // 32)) for i in range(32)]
    tasks += [("c13_tgs_rnd", (seed * 1000 + 700 + i, ng // 16)) for i in range(16)]
    tasks.append(("c13_tgfail", ()))
    try:
        driven = _drive(tasks, jobs)
    finally:
        _cleanup_scratch()
    bound = ("snapshot (class, name, entries with value types, spans; for textgrids names, order, tiers, span) of every tier of "
             "the pool before and after ONE call: %d random receivers reached by histories of 2-6 steps of C05's operation "
             "universe (dyadic k/8 and 3-decimal times) x a call drawn from {crop, eraseRegion, insertSpace, editTimestamps, "
             "union, difference, intersection, mergeLabels, morph, dejitter, appendTier, new} (50%%), the queries {find, "
             "getNonEntries, getValuesInIntervals, getValuesAtPoints, timestamps, validate, ==, entries, len, iteration} (25%%), "
             "and failing mutations (25%%: insertEntry colliding in 'error' mode, invalid collisionMode / "
             "collisionReportingMode value, start=end entry, deleteEntry of a missing entry), success and exception paths; "
             "%d random textgrids (1-4 tiers, 25%% invalid) x {appendTextgrid, crop, eraseRegion, editTimestamps, insertSpace, "
             "mergeTiers, new, validate, ==, tierNames/tiers, getTier, save (4 formats; failing format / reportingMode values, "
             "reportingMode='error' on invalid textgrids, min/max overrides inside the annotation; destination file pre-filled "
             "under /verif/out/tmp and compared byte for byte after a raising save)}; failing addTier / removeTier / renameTier "
             "/ replaceTier on 6 textgrids of 1-3 tiers x every name clash, missing name, span change under "
             "reportingMode='error' (4 wider tiers), invalid option value x tierIndex None,-1..len; collisionReportingMode="
             "'error' of insertEntry is outside the documented options and not exercised; seed=%d" % (nr, ng, seed))
    return _result("C13: receiver and arguments unchanged by every copy-returning operation, query, validate and save; failing "
                   "mutators leave the object exactly as before; a raising save leaves an existing destination file untouched",
                   bound, False, t0, driven)


# ==== REGISTRY ====
TASKS = {n[2:]: f for n, f in list(globals().items()) if n.startswith("t_") and callable(f)}
EVALS = {n[3:]: f for n, f in list(globals().items()) if n.startswith("ev_") and callable(f)}

CHECKS = {"c07_erase": run_c07, "c08_insert_space": run_c08, "c09_shift_append": run_c09, "c11_list_model": run_c11, "c05_histories": run_c05, "c12_textgrid_model": run_c12, "c13_no_mutation": run_c13}


def replay(case):
    with _quiet():
        try:
            res = EVALS[case["k"]](case)
        except Exception as e:
            res = [("harness: building the case or reading the result raised", "no exception", _exc(e))]
        finally:
            _cleanup_scratch()
    if res is SKIP or not res:
        return {"reproduced": False, "observed": "no violation"}
    return {"reproduced": True, "observed": "; ".join("%s [expected %s, observed %s]" % tuple(r) for r in res)[:1000]}
