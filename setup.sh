#!/bin/sh
# offline setup: nothing to build; verify the tools the checks need and machine-check the list lemmas
set -e
cd "$(dirname "$0")"
mkdir -p out/replay out/cache out/tmp evidence
python3-vt -c "import z3, sys; print('z3', z3.get_version_string())"
PYTHONPATH=/repo python3-vt -c "import praatio; print('praatio importable under python3-vt')"
# Lean 4 + Mathlib: the lemmas behind the list rules of pyvc (R-MAP lifts, chain rule, R-ERASE, sorted-sets ...)
if command -v lean >/dev/null 2>&1; then
  (cd /tmp && lean "$OLDPWD/lean/Lifting.lean") && echo "lean: Lifting.lean checked" || { echo "lean check FAILED"; exit 1; }
  if grep -nE "sorry|admit|^axiom" lean/Lifting.lean; then echo "unproved lemma in Lifting.lean"; exit 1; fi
else
  echo "lean not found: list lemmas not re-checked (they are part of the trusted base then)"
fi
echo setup ok
