"""Compositions of real praatIO functions whose joint behaviour a property speaks about (lemmas over
several functions).  These are interpreted like repo code; the functions they call are the real ones."""
from praatio.utilities import my_math
from praatio.utilities import utils


def num_roundtrip(x):
    """C01 numeric kernel: what a timestamp becomes when written by the text writers and read back"""
    return utils.strToIntOrFloat(my_math.numToStr(x))


def num_text_fixed_point(x):
    """re-saving a re-read number prints the same text"""
    return (my_math.numToStr(x), my_math.numToStr(utils.strToIntOrFloat(my_math.numToStr(x))))


class Ref:
    """stand-in for a reference tier in dejitter contracts: only its `timestamps` are used"""

    def __init__(self, timestamps):
        self.timestamps = timestamps
