"""Specification vocabulary for tiers (DESIGN section 3).

Written from the property statements in /verif/properties.jsonl, not from praatIO's code.
The same text is executed symbolically by pyvc (proofs) and natively (replay / bounded).
Only the spec-language subset may be used here: expressions, if/return, comprehensions.
"""
from praatio.utilities.constants import Interval, Point
from praatio.utilities import errors


# ---- C05: well-formedness --------------------------------------------------------------


def valid(e):
    return e.start < e.end


def disjoint_ordered(a, b):
    """a comes before b without positive overlap"""
    return a.end <= b.start


def in_span_i(e, lo, hi):
    return lo <= e.start and e.end <= hi


def in_span_p(p, lo, hi):
    return lo <= p.time and p.time <= hi


# ---- C06: crop -------------------------------------------------------------------------


def overlaps(e, a, b):
    """positive-length overlap of interval e with the window [a, b]"""
    return e.start < b and e.end > a


def keep(e, a, b, mode):
    if mode == "strict":
        return a <= e.start and e.end <= b
    return overlaps(e, a, b)


def kept_value(e, a, b, mode):
    if mode == "truncated":
        return Interval(max(e.start, a), min(e.end, b), e.label)
    return e


CROP_MODES = ("strict", "lax", "truncated")


def getIntervalsInInterval(start, end, intervals, mode):
    if mode not in CROP_MODES:
        raise errors.WrongOption("mode", mode, CROP_MODES)
    return [kept_value(e, start, end, mode) for e in intervals if keep(e, start, end, mode)]
