"""Spec primitives.  Native definitions (used by replay and the bounded layer); pyvc
replaces forall/exists/pairwise/adjacent/strip by schematic facts (pyvc/intrinsics.py)."""


def forall(L, p):
    return all([p(e) for e in L])


def exists(L, p):
    return any([p(e) for e in L])


def pairwise(L, r):
    """r(L[i], L[j]) for all i < j"""
    L = list(L)
    return all([r(L[i], L[j]) for i in range(len(L)) for j in range(i + 1, len(L))])


def adjacent(L, r):
    L = list(L)
    return all([r(L[i], L[i + 1]) for i in range(len(L) - 1)])


def strip(s):
    return s.strip()


def is_sorted(L):
    L = list(L)
    return all([L[i] <= L[i + 1] for i in range(len(L) - 1)])


def first_index(L, p):
    """index of the first element satisfying p, or -1"""
    for i, e in enumerate(L):
        if p(e):
            return i
    return -1


def remove_at(L, i):
    L = list(L)
    return L[:i] + L[i + 1:]


def subset(A, B):
    """every element of A occurs in B (field-wise equality)"""
    B = [tuple(b) for b in B]
    return all([tuple(a) in B for a in A])


def insert_at(L, i, x):
    L = list(L)
    return L[:i] + [x] + L[i:]
