#!/usr/bin/env python3
"""Render out/seeded_results.json + seeded/*/meta.json as the markdown table of DESIGN.md section 9.8."""
import json, os, glob, re
ROOT = os.path.dirname(os.path.dirname(os.path.abspath(__file__)))
res = json.load(open(os.path.join(ROOT, "out", "seeded_results.json")))
rows = []
for d in sorted(glob.glob(os.path.join(ROOT, "seeded", "*"))):
    name = os.path.basename(d)
    meta = json.load(open(os.path.join(d, "meta.json")))
    r = res.get(name, {})
    summ = re.sub(r"\s+", " ", str(meta.get("summary", "")))[:110]
    if not r:
        how = "not run"
    elif r.get("rc") == 1:
        l = (r.get("lines") or [""])[0]
        if "obligation=" in l:
            how = "caught: failed obligation `%s`%s" % (l.split("obligation=")[1][:70], " (replayed)" if "no-failing-input-found" not in l else " (no-failing-input-found)")
        elif "bounded=" in l:
            how = "caught: bounded `%s`" % l.split("bounded=")[1][:80]
        else:
            how = "caught"
    elif r.get("rc") == 0:
        how = "**missed**"
    else:
        how = "rc=%s %s" % (r.get("rc"), (r.get("lines") or [""])[0][:60])
    rows.append("| %s | %s | %s |" % (name, summ.replace("|", "/"), how.replace("|", "/")))
out = ["| seeded change | what it changes | result of `./check <property>` |", "|---|---|---|"] + rows
caught = len([r for r in rows if "caught" in r])
out.append("")
out.append("%d of %d seeded changes are reported (exit 1 with a VIOLATION line); %d first reported by a failed proof "
           "obligation, %d by the native differential check of a contract, %d by a property-specific bounded check."
           % (caught, len(rows), len([r for r in rows if "failed obligation" in r]),
              len([r for r in rows if "native-differential" in r]),
              len([r for r in rows if "caught: bounded" in r and "native-differential" not in r])))
# harmless refactorings
hp = os.path.join(ROOT, "out", "harmless_results.json")
if os.path.exists(hp):
    hr = json.load(open(hp))
    out += ["", "| harmless refactoring | what it changes | obligations re-verified | not discharged |", "|---|---|---|---|"]
    for d in sorted(glob.glob(os.path.join(ROOT, "harmless", "*"))):
        name = os.path.basename(d)
        meta = json.load(open(os.path.join(d, "meta.json")))
        r = hr.get(name)
        summ = re.sub(r"\s+", " ", str(meta.get("summary", "")))[:150].replace("|", "/")
        if not r:
            out.append("| %s | %s | not run | |" % (name, summ))
        elif "bad" not in r:
            out.append("| %s | %s | error | %s |" % (name, summ, str(r.get("error"))[:60]))
        else:
            bad = "; ".join("%s %s" % (b["result"], b["name"][:60]) for b in r["bad"][:3]) + (" …" if len(r["bad"]) > 3 else "")
            out.append("| %s | %s | %d | %s |" % (name, summ, r["obligations"], ("**%d**: " % len(r["bad"]) + bad.replace("|", "/")) if r["bad"] else "0"))
text = "\n".join(out)
dp = os.path.join(ROOT, "DESIGN.md")
s = open(dp).read()
a, b = "<!-- TABLE-9.8-BEGIN -->", "<!-- TABLE-9.8-END -->"
if a in s:
    s = s[:s.index(a) + len(a)] + "\n" + text + "\n" + s[s.index(b):]
    open(dp, "w").write(s)
    print("DESIGN.md section 9.8 updated")
else:
    print(text)
