"""Independent TextGrid writer / reader (specification, not praatIO code).

Sources
-------
* Praat manual, "TextGrid file formats" (long = "ooTextFile" with keys, short = the same values one
  per line without the keys).  The manual describes how Praat reads a text file: everything is
  ignored except FREE-STANDING numbers, free-standing texts in double quotes (an embedded double quote
  is written twice, a text may run over several lines) and free-standing flags in angle brackets
  (<exists>); "free-standing" = preceded by white space or the start of the file/line.  So
  `item [1]:` contains no number (the 1 is glued to a bracket), `size = 3` contains one, and a `!`
  outside a text starts a comment that runs to the end of the line.
  Order of values:  "ooTextFile" "TextGrid" xmin xmax <exists> size
                    { class name xmin xmax size { xmin xmax text | number mark } }
* README.md of praatIO, "Output types": the two JSON schemas
    json          {"start","end","tiers":{name:{"type","entries"}}}
    textgrid_json {"xmin","xmax","tiers":[{"class","name","xmin","xmax","entries"}]}

Data model ("content")
----------------------
    {"xmin": x, "xmax": x,
     "tiers": [ {"class": "IntervalTier"|"TextTier", "name": str, "xmin": x, "xmax": x,
                 "entries": [ (start, end, label) | (time, label), ... ] }, ... ]}
Numbers are Python floats (ints accepted); comparison is by value (==), so -0.0 == 0.

Nothing in here imports praatio.
"""
import json

INTERVAL = "IntervalTier"
POINT = "TextTier"


class SpecFormatError(Exception):
    """The text is not a well-formed TextGrid document; .category is a stable short reason."""

    def __init__(self, category, detail=""):
        Exception.__init__(self, "%s%s" % (category, (": " + detail) if detail else ""))
        self.category = category
        self.detail = detail


# ------------------------------------------------------------------------------------------------
# numbers and strings
# ------------------------------------------------------------------------------------------------


def num_plain(x):
    """Shortest text that reads back to exactly x; integers without a fraction (Praat style)."""
    x = float(x)
    if x == int(x) and abs(x) < 1e16:
        return "%d" % int(x)
    return repr(x)


def num_float(x):
    """Always with a fraction or exponent, e.g. ELAN's `0.0`."""
    return repr(float(x))


def num_exp(x):
    """Exponent notation with 17 significant digits (round-trips every double)."""
    return "%.16e" % float(x)


def num_negzero(x):
    """Praat sometimes writes a zero start time as -0."""
    x = float(x)
    if x == 0:
        return "-0"
    return num_plain(x)


NUM_STYLES = {"plain": num_plain, "float": num_float, "exp": num_exp, "negzero": num_negzero}


def quote(s):
    return '"' + s.replace('"', '""') + '"'


def _norm(d):
    """canonical content: floats, tuples"""
    tiers = []
    for t in d["tiers"]:
        ents = []
        for e in t["entries"]:
            e = tuple(e)
            ents.append(tuple(float(v) for v in e[:-1]) + (e[-1],))
        tiers.append({"class": t["class"], "name": t["name"], "xmin": float(t["xmin"]),
                      "xmax": float(t["xmax"]), "entries": ents})
    return {"xmin": float(d["xmin"]), "xmax": float(d["xmax"]), "tiers": tiers}


def normalize(d):
    return _norm(d)


def content_equal(a, b):
    return _norm(a) == _norm(b)


# ------------------------------------------------------------------------------------------------
# writers
# ------------------------------------------------------------------------------------------------


def spec_render_long(d, num="plain", style="praat"):
    """Long text format.  style 'praat' = layout of the manual's example;
    style 'elan' = the layout ELAN exports (`item[1]:`, `intervals [1]` without colon,
    no trailing blanks after numbers, numbers always with a fraction)."""
    n = NUM_STYLES[num] if isinstance(num, str) else num
    out = []
    w = out.append
    if style == "praat":
        tr = " "
        w('File type = "ooTextFile"\n')
        w('Object class = "TextGrid"\n')
        w("\n")
        w("xmin = %s%s\n" % (n(d["xmin"]), tr))
        w("xmax = %s%s\n" % (n(d["xmax"]), tr))
        w("tiers? <exists>%s\n" % tr)
        w("size = %d%s\n" % (len(d["tiers"]), tr))
        w("item []:%s\n" % tr)
        for i, t in enumerate(d["tiers"]):
            w("    item [%d]:\n" % (i + 1))
            w('        class = %s%s\n' % (quote(t["class"]), tr))
            w('        name = %s%s\n' % (quote(t["name"]), tr))
            w("        xmin = %s%s\n" % (n(t["xmin"]), tr))
            w("        xmax = %s%s\n" % (n(t["xmax"]), tr))
            if t["class"] == INTERVAL:
                w("        intervals: size = %d%s\n" % (len(t["entries"]), tr))
                for k, (s, e, lab) in enumerate(t["entries"]):
                    w("        intervals [%d]:\n" % (k + 1))
                    w("            xmin = %s%s\n" % (n(s), tr))
                    w("            xmax = %s%s\n" % (n(e), tr))
                    w("            text = %s%s\n" % (quote(lab), tr))
            else:
                w("        points: size = %d%s\n" % (len(t["entries"]), tr))
                for k, (tm, lab) in enumerate(t["entries"]):
                    w("        points [%d]:\n" % (k + 1))
                    w("            number = %s%s\n" % (n(tm), tr))
                    w("            mark = %s%s\n" % (quote(lab), tr))
    elif style == "elan":
        w('File type = "ooTextFile"\n')
        w('Object class = "TextGrid"\n')
        w("\n")
        w("xmin = %s\n" % n(d["xmin"]))
        w("xmax = %s \n" % n(d["xmax"]))
        w("tiers? <exists> \n")
        w("size = %d \n" % len(d["tiers"]))
        w("item []: \n")
        for i, t in enumerate(d["tiers"]):
            w("    item[%d]:\n" % (i + 1))
            w('        class = %s \n' % quote(t["class"]))
            w('        name = %s \n' % quote(t["name"]))
            w("        xmin = %s\n" % n(t["xmin"]))
            w("        xmax = %s \n" % n(t["xmax"]))
            if t["class"] == INTERVAL:
                w("        intervals: size = %d \n" % len(t["entries"]))
                for k, (s, e, lab) in enumerate(t["entries"]):
                    w("        intervals [%d]\n" % (k + 1))
                    w("            xmin = %s \n" % n(s))
                    w("            xmax = %s \n" % n(e))
                    w("            text = %s \n" % quote(lab))
            else:
                w("        points: size = %d \n" % len(t["entries"]))
                for k, (tm, lab) in enumerate(t["entries"]):
                    w("        points [%d]\n" % (k + 1))
                    w("            number = %s \n" % n(tm))
                    w("            mark = %s \n" % quote(lab))
    else:
        raise ValueError(style)
    return "".join(out)


def spec_render_elan_long(d, num="float"):
    return spec_render_long(d, num=num, style="elan")


def spec_render_short(d, num="plain"):
    n = NUM_STYLES[num] if isinstance(num, str) else num
    out = ['File type = "ooTextFile"', 'Object class = "TextGrid"', "",
           n(d["xmin"]), n(d["xmax"]), "<exists>", "%d" % len(d["tiers"])]
    for t in d["tiers"]:
        out += [quote(t["class"]), quote(t["name"]), n(t["xmin"]), n(t["xmax"]),
                "%d" % len(t["entries"])]
        for e in t["entries"]:
            out += [n(v) for v in e[:-1]] + [quote(e[-1])]
    return "\n".join(out) + "\n"


def _jnum(x):
    return float(x)


def spec_render_textgrid_json(d):
    obj = {"xmin": _jnum(d["xmin"]), "xmax": _jnum(d["xmax"]), "tiers": []}
    for t in d["tiers"]:
        obj["tiers"].append({"class": t["class"], "name": t["name"], "xmin": _jnum(t["xmin"]),
                             "xmax": _jnum(t["xmax"]),
                             "entries": [[_jnum(v) for v in e[:-1]] + [e[-1]] for e in t["entries"]]})
    return json.dumps(obj, ensure_ascii=False)


def spec_render_json(d):
    """Plain json: one span for the whole textgrid, tiers keyed by (necessarily unique) name."""
    names = [t["name"] for t in d["tiers"]]
    if len(set(names)) != len(names):
        raise ValueError("plain json cannot encode duplicate tier names")
    obj = {"start": _jnum(d["xmin"]), "end": _jnum(d["xmax"]), "tiers": {}}
    for t in d["tiers"]:
        obj["tiers"][t["name"]] = {"type": t["class"],
                                   "entries": [[_jnum(v) for v in e[:-1]] + [e[-1]] for e in t["entries"]]}
    return json.dumps(obj, ensure_ascii=False)


def json_view(d):
    """What plain json can keep of d: every tier span replaced by the textgrid span."""
    d = _norm(d)
    for t in d["tiers"]:
        t["xmin"], t["xmax"] = d["xmin"], d["xmax"]
    return d


# ------------------------------------------------------------------------------------------------
# tokenizer + readers for the text formats
# ------------------------------------------------------------------------------------------------

_WS = " \t\n\r\f\v"


def _is_number(s):
    if not s:
        return False
    body = s[1:] if s[0] in "+-" else s
    if not body or not (body[0].isdigit() or (body[0] == "." and len(body) > 1 and body[1].isdigit())):
        return False
    for ch in s:
        if not (ch.isdigit() or ch in "+-.eE"):
            return False
    try:
        float(s)
    except ValueError:
        return False
    return True


def tokenize(text):
    """-> list of ("num", float, raw) | ("str", value, n_embedded_quotes_ok) | ("flag", name).
    Follows the manual's description of Praat's text reader (see module docstring)."""
    toks = []
    i, n = 0, len(text)
    if text[:1] == "\ufeff":
        i = 1
    while i < n:
        c = text[i]
        if c in _WS:
            i += 1
            continue
        if c == "!":
            while i < n and text[i] != "\n":
                i += 1
            continue
        if c == '"':
            j = i + 1
            buf = []
            while True:
                if j >= n:
                    raise SpecFormatError("unterminated text", repr(text[i:i + 30]))
                if text[j] == '"':
                    if j + 1 < n and text[j + 1] == '"':
                        buf.append('"')
                        j += 2
                        continue
                    break
                buf.append(text[j])
                j += 1
            j += 1
            if j < n and text[j] not in _WS:
                raise SpecFormatError("text not followed by white space", repr(text[i:j + 5]))
            toks.append(("str", "".join(buf)))
            i = j
            continue
        j = i
        while j < n and text[j] not in _WS:
            j += 1
        word = text[i:j]
        if c == "<" and word.endswith(">"):
            toks.append(("flag", word[1:-1]))
        elif _is_number(word):
            toks.append(("num", float(word), word))
        i = j
    return toks


class _Stream:
    def __init__(self, toks):
        self.t = toks
        self.i = 0

    def take(self, kind, what):
        if self.i >= len(self.t):
            raise SpecFormatError("premature end of file", "expected %s (%s)" % (kind, what))
        tok = self.t[self.i]
        if tok[0] != kind:
            raise SpecFormatError("wrong token kind", "expected %s (%s), found %r" % (kind, what, tok[:2]))
        self.i += 1
        return tok

    def num(self, what):
        return self.take("num", what)[1]

    def size(self, what):
        tok = self.take("num", what)
        if tok[1] != int(tok[1]) or tok[1] < 0 or not tok[2].isdigit():
            raise SpecFormatError("size is not a non-negative integer", "%s = %s" % (what, tok[2]))
        return int(tok[1])

    def text(self, what):
        return self.take("str", what)[1]

    def done(self):
        return self.i >= len(self.t)


def _parse_text_format(text):
    s = _Stream(tokenize(text))
    if s.text("File type") != "ooTextFile":
        raise SpecFormatError("bad header", "File type")
    if s.text("Object class") != "TextGrid":
        raise SpecFormatError("bad header", "Object class")
    xmin = s.num("xmin")
    xmax = s.num("xmax")
    flag = s.take("flag", "tiers?")[1]
    if flag != "exists":
        raise SpecFormatError("bad header", "tiers? <%s>" % flag)
    ntiers = s.size("size")
    tiers = []
    for _ in range(ntiers):
        klass = s.text("class")
        if klass not in (INTERVAL, POINT):
            raise SpecFormatError("unknown tier class", repr(klass))
        name = s.text("name")
        tmin = s.num("tier xmin")
        tmax = s.num("tier xmax")
        cnt = s.size("intervals/points: size")
        ents = []
        for _k in range(cnt):
            if klass == INTERVAL:
                a = s.num("interval xmin")
                b = s.num("interval xmax")
                ents.append((a, b, s.text("text")))
            else:
                a = s.num("number")
                ents.append((a, s.text("mark")))
        tiers.append({"class": klass, "name": name, "xmin": tmin, "xmax": tmax, "entries": ents})
    if not s.done():
        raise SpecFormatError("declared sizes smaller than the items that follow",
                              "%d tokens left" % (len(s.t) - s.i))
    return {"xmin": xmin, "xmax": xmax, "tiers": tiers}


def is_short_layout(text):
    """The short layout has no keys: after the two header lines every non-blank line is exactly one
    value.  Decided on the 4th line (xmin): `xmin = 0` (long) versus `0` (short)."""
    lines = text.lstrip("\ufeff").replace("\r\n", "\n").split("\n")
    body = [ln.strip() for ln in lines[2:] if ln.strip()]
    return bool(body) and _is_number(body[0])


def spec_parse_long(text):
    if is_short_layout(text):
        raise SpecFormatError("not long layout")
    return _parse_text_format(text)


def spec_parse_short(text):
    if not is_short_layout(text):
        raise SpecFormatError("not short layout")
    return _parse_text_format(text)


def spec_parse_text(text):
    return _parse_text_format(text)


# ------------------------------------------------------------------------------------------------
# JSON readers (strict about the README schemas)
# ------------------------------------------------------------------------------------------------


def _jn(v, what):
    if isinstance(v, bool) or not isinstance(v, (int, float)):
        raise SpecFormatError("json: number expected", what)
    return float(v)


def _jentries(klass, raw, what):
    if klass not in (INTERVAL, POINT):
        raise SpecFormatError("unknown tier class", repr(klass))
    if not isinstance(raw, list):
        raise SpecFormatError("json: entries must be a list", what)
    width = 3 if klass == INTERVAL else 2
    ents = []
    for e in raw:
        if not isinstance(e, list) or len(e) != width or not isinstance(e[-1], str):
            raise SpecFormatError("json: malformed entry", "%s %r" % (what, e))
        ents.append(tuple(_jn(v, what) for v in e[:-1]) + (e[-1],))
    return ents


def _loads(text):
    try:
        return json.loads(text)
    except ValueError as e:
        raise SpecFormatError("json: not a JSON document", str(e)[:60])


def spec_parse_json(text):
    obj = _loads(text)
    if not isinstance(obj, dict) or set(obj.keys()) != {"start", "end", "tiers"}:
        raise SpecFormatError("json: top-level keys", repr(sorted(obj.keys()) if isinstance(obj, dict) else obj)[:80])
    if not isinstance(obj["tiers"], dict):
        raise SpecFormatError("json: tiers must be an object")
    xmin, xmax = _jn(obj["start"], "start"), _jn(obj["end"], "end")
    tiers = []
    for name, t in obj["tiers"].items():
        if not isinstance(t, dict) or set(t.keys()) != {"type", "entries"}:
            raise SpecFormatError("json: tier keys", repr(t)[:80])
        tiers.append({"class": t["type"], "name": name, "xmin": xmin, "xmax": xmax,
                      "entries": _jentries(t["type"], t["entries"], name)})
    return {"xmin": xmin, "xmax": xmax, "tiers": tiers}


def spec_parse_textgrid_json(text):
    obj = _loads(text)
    if not isinstance(obj, dict) or set(obj.keys()) != {"xmin", "xmax", "tiers"}:
        raise SpecFormatError("json: top-level keys", repr(sorted(obj.keys()) if isinstance(obj, dict) else obj)[:80])
    if not isinstance(obj["tiers"], list):
        raise SpecFormatError("json: tiers must be a list")
    tiers = []
    for t in obj["tiers"]:
        if not isinstance(t, dict) or set(t.keys()) != {"class", "name", "xmin", "xmax", "entries"}:
            raise SpecFormatError("json: tier keys", repr(t)[:80])
        if not isinstance(t["name"], str):
            raise SpecFormatError("json: tier name must be a string")
        tiers.append({"class": t["class"], "name": t["name"], "xmin": _jn(t["xmin"], "xmin"),
                      "xmax": _jn(t["xmax"], "xmax"),
                      "entries": _jentries(t["class"], t["entries"], t["name"])})
    return {"xmin": _jn(obj["xmin"], "xmin"), "xmax": _jn(obj["xmax"], "xmax"), "tiers": tiers}


# ------------------------------------------------------------------------------------------------
# format tables (praatio's format names)
# ------------------------------------------------------------------------------------------------

RENDER = {"long_textgrid": spec_render_long, "short_textgrid": spec_render_short,
          "json": spec_render_json, "textgrid_json": spec_render_textgrid_json}
PARSE = {"long_textgrid": spec_parse_long, "short_textgrid": spec_parse_short,
         "json": spec_parse_json, "textgrid_json": spec_parse_textgrid_json}
FORMATS = ("short_textgrid", "long_textgrid", "json", "textgrid_json")


# ------------------------------------------------------------------------------------------------
# raw-text audits used by C02 (text formats): sizes, quote doubling
# ------------------------------------------------------------------------------------------------


def audit_text_document(text):
    """Structural audit independent of _parse_text_format's size-driven walk: re-derives item counts
    from the token stream alone.  After the 6 header tokens the stream must be tiers of the shape
    str str num num num (num num str)* | (num str)* ; returns list of (declared, actual)."""
    toks = tokenize(text)
    res = []
    i = 6
    while i < len(toks):
        if i + 5 > len(toks) or [t[0] for t in toks[i:i + 5]] != ["str", "str", "num", "num", "num"]:
            raise SpecFormatError("tier header malformed", repr([t[:2] for t in toks[i:i + 5]]))
        klass = toks[i][1]
        declared = toks[i + 4][1]
        i += 5
        shape = ["num", "num", "str"] if klass == INTERVAL else ["num", "str"]
        actual = 0
        while i + len(shape) <= len(toks) and [t[0] for t in toks[i:i + len(shape)]] == shape:
            # a tier header also starts str str ..., an entry starts with num: unambiguous
            actual += 1
            i += len(shape)
        res.append((declared, actual))
    return res
