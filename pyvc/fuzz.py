"""Native differential check of the contracts (bounded; never counted as proved).

For every contract and configuration, inputs are drawn at random *through the contract's own `inputs` builder*
(so the same preconditions apply: list facts, `assume`d facts and `requires` are evaluated natively and samples
that violate them are rejected), then the real function and the spec function are both run by CPython and the
outcome, the final state of the arguments, every `ensures` clause, the raises table and the frame are compared
exactly as the replay of a solver counterexample does (pyvc/replay.py).

Purposes: (1) cross-check of the symbolic engine against CPython on the unchanged tree (an obligation the engine
discharges must not have a native counterexample); (2) a failing input for obligations whose solver model does not
replay; (3) a stand-in, labelled bounded, when a change to /repo takes a function outside the engine's subset.

All numbers are dyadic (k/4 in [-2, 10], occasionally k/8), so float arithmetic is exact and REAL-mode contracts
apply without rounding slack.  Strings come from a small alphabet including the empty, padded and dash-joined ones.
"""
import random
import time
import traceback

from . import replay
from .replay import NativeSym, resolve


class Reject(Exception):
    pass


LABELS = ["a", "b", "c", "", "a-b", "x y", " a", "b ", "-"]
NAMES = ["t", "u", "v", "w", "t ", ""]


class FuzzSym(NativeSym):
    def __init__(self, seed, spec_module):
        super().__init__({})
        self.rng = random.Random(seed)
        self.spec_module = spec_module
        self.vals = {}
        self._ns = None

    # ---- scalars
    def _num(self):
        r = self.rng
        k = r.random()
        if k < 0.8:
            return r.randint(-4, 40) / 4.0
        if k < 0.95:
            return r.randint(-8, 80) / 8.0
        return float(r.choice([0, 1, 2, 1e15, -1e15, 1000000]))

    def real(self, name):
        if name not in self.vals:
            r = self.rng
            if name.endswith(".min") and r.random() < 0.9:
                self.vals[name] = r.choice([0.0, 0.0, 0.0, 0.5, 1.0])
            elif name.endswith(".max") and r.random() < 0.9:
                self.vals[name] = r.choice([10.0, 10.0, 10.0, 8.0, 12.0])
            else:
                self.vals[name] = self._num()
        return self.vals[name]

    def int(self, name):
        if name not in self.vals:
            self.vals[name] = self.rng.randint(-3, 4)
        return self.vals[name]

    def bool(self, name):
        if name not in self.vals:
            self.vals[name] = self.rng.random() < 0.5
        return self.vals[name]

    def str(self, name):
        if name not in self.vals:
            pool = NAMES if name.endswith(".name") or "ame" in name else LABELS
            self.vals[name] = self.rng.choice(pool)
        return self.vals[name]

    def func(self, name, arity=1):
        k = self.vals.setdefault(name, self.rng.choice([(2.0, 1.0), (1.0, 0.0), (0.5, -1.0), (0.0, 3.0)]))
        return lambda *a: k[0] * a[0] + k[1]

    # ---- evaluation of fact texts
    def ns(self):
        if self._ns is None:
            self._ns = dict(resolve(self.spec_module).__dict__)
        return self._ns

    def holds(self, text, env):
        ns = dict(self.ns())
        ns.update(env)
        return bool(eval(text, ns))

    def assume(self, text, variables):
        if not self.holds(text, variables):
            raise Reject(text)

    # ---- lists
    def _times(self, n, touching=True):
        r = self.rng
        pts = sorted(r.sample(range(0, 41), min(n, 40)))
        return [p / 4.0 for p in pts]

    def _element(self, kind):
        r = self.rng
        if kind == "real":
            return self._num()
        if kind == "int":
            return r.randint(-3, 6)
        if kind == "str":
            return r.choice(LABELS)
        if kind == "pair":
            return (self._num(), self._num())
        if kind == "tuple2":
            return (self._num(), r.choice(LABELS))
        if kind == "tuple3":
            a, b = self._num(), self._num()
            return (a, b, r.choice(LABELS))
        raise KeyError(kind)

    def _candidate(self, kind, n):
        from praatio.utilities.constants import Interval, Point
        r = self.rng
        lab = lambda: r.choice(LABELS[:5] if r.random() < 0.9 else LABELS)  # noqa
        if kind in ("Interval", "tuple3") and r.random() < 0.85:
            # ordered, non-overlapping, possibly touching
            ts = self._times(2 * n)
            out = []
            i = 0
            prev_end = None
            while len(out) < n and i + 1 < len(ts):
                s, e = ts[i], ts[i + 1]
                if prev_end is not None and r.random() < 0.4:
                    s = prev_end
                if s < e:
                    out.append((s, e, lab()))
                    prev_end = e
                i += 2
            items = out
            if kind == "Interval":
                return [Interval(*x) for x in items]
            return items
        if kind in ("Point", "tuple2") and r.random() < 0.85:
            ts = self._times(n)
            if ts and r.random() < 0.2:
                ts[-1:] = ts[-1:] * 1  # keep
            items = [(t, lab()) for t in ts]
            if kind == "Point":
                return [Point(*x) for x in items]
            return items
        if kind == "real" and r.random() < 0.7:
            return self._times(n)
        if kind == "pair" and r.random() < 0.7:
            return [(t, self._num()) for t in self._times(n)]
        items = [self._element({"Interval": "tuple3", "Point": "tuple2"}.get(kind, kind)) for _ in range(n)]
        if kind == "Interval":
            return [Interval(*x) for x in items]
        if kind == "Point":
            return [Point(*x) for x in items]
        return items

    def list(self, name, kind, all=None, pair=None, adj=None, env=None, is_tuple=False):
        if name in self.vals:
            v = self.vals[name]
            return tuple(v) if is_tuple else list(v)
        env = env or {}
        n = self.rng.choice([0, 0, 1, 1, 2, 2, 3, 4, 5])
        items = self._candidate(kind, n)
        if items and kind in ("tuple2", "tuple3", "Point") and self.rng.random() < 0.15:
            # an exact duplicate of an entry next to it (two points with the same time and mark are legal; lists whose
            # facts forbid it are rejected below)
            k = self.rng.randrange(len(items))
            items = items[:k + 1] + [items[k]] + items[k + 1:]
        for i, e in enumerate(items):
            if all and not self.holds(all, dict(env, e=e, i=i)):
                raise Reject(all)
        for i in range(len(items)):
            for j in range(i + 1, len(items)):
                if pair and not self.holds(pair, dict(env, a=items[i], b=items[j])):
                    raise Reject(pair)
        for i in range(len(items) - 1):
            if adj and not self.holds(adj, dict(env, a=items[i], b=items[i + 1])):
                raise Reject(adj)
        self.vals[name] = list(items)
        return tuple(items) if is_tuple else list(items)

    def mark_distinct(self, lst):
        for i in range(len(lst)):
            for j in range(i + 1, len(lst)):
                if lst[i] == lst[j]:
                    raise Reject("entries not pairwise distinguishable")


def _requires_hold(c, args, spec_module):
    ns = dict(resolve(spec_module).__dict__)
    ns.update(args)
    for text in (c.requires or []):
        if not bool(eval(text, ns)):
            return False
    return True


def kinds_of(c):
    ks = []
    if c.spec:
        ks.append(("refine", "returns/raises/final state equal to the spec function"))
    for e in (c.ensures or []):
        label, text = e[0], e[1]
        if not text.startswith("raises:"):
            ks.append(("ensures", text + " | " + label))
    if c.raises is not None:
        ks.append(("raises", "raises table"))
    if getattr(c, "may_raise", None) is not None:
        ks.append(("raises-only", "raises only " + ", ".join(c.may_raise)))
    if c.frame:
        ks.append(("frame", "frame"))
    return ks


def fuzz_config(c, cfg, seed, budget_s, max_samples):
    """returns dict(samples, rejected, failures=[{kind, detail, seed, native}], errors)"""
    spec_module = c.spec_module or (c.spec.rsplit(".", 1)[0] if c.spec else "spec.tiers")
    t0 = time.time()
    rng = random.Random(seed)
    out = {"samples": 0, "rejected": 0, "failures": [], "errors": []}
    kinds = kinds_of(c)
    if not kinds:
        return out
    tries = 0
    while out["samples"] < max_samples and time.time() - t0 < budget_s and tries < 40 * max_samples:
        tries += 1
        s = rng.randrange(1 << 30)
        symf = lambda s=s: FuzzSym(s, spec_module)  # noqa
        try:
            args = c.inputs(symf(), cfg)
            if not _requires_hold(c, args, spec_module):
                out["rejected"] += 1
                continue
        except Reject:
            out["rejected"] += 1
            continue
        except Exception:
            out["errors"].append("input builder: " + traceback.format_exc()[-300:])
            break
        out["samples"] += 1
        for kind, detail in kinds:
            ob = {"kind": kind, "detail": detail, "function": c.target, "config": cfg}
            res = replay.run_native_one(ob, c, cfg, {}, symf=symf)
            if res.get("note", "").startswith("replay harness error"):
                if len(out["errors"]) < 3:
                    out["errors"].append("%s: %s" % (kind, res["note"][-400:]))
                continue
            if res.get("reproduced"):
                out["failures"].append({"kind": kind, "detail": detail, "seed": s, "native": res})
                if len(out["failures"]) >= 3:
                    return out
    return out


def replay_fuzz(rep):
    """re-run one recorded fuzz failure against the current tree"""
    import sys
    import os
    from . import check
    pc = check.load_contracts()
    c = pc.REGISTRY.contracts[rep["function"]]
    spec_module = c.spec_module or (c.spec.rsplit(".", 1)[0] if c.spec else "spec.tiers")
    symf = lambda: FuzzSym(rep["seed"], spec_module)  # noqa
    ob = {"kind": rep["obkind"], "detail": rep["detail"], "function": c.target, "config": rep["config"]}
    return replay.run_native_one(ob, c, rep["config"], {}, symf=symf)
