#!/usr/bin/env python3
"""False-alarm experiment: behaviour-preserving refactorings of /repo (written by independent sub-agents, kept in
/verif/harmless/<name>/patch.diff + meta.json) must leave every deductive obligation discharged.

  tools/harmless.py import <raw_dir> <prefix>    confirm (applies, 367 tests pass) and copy to /verif/harmless/
  tools/harmless.py run [<name> ...]             apply each to a scratch worktree, re-verify every contract that can
                                                 see the touched modules (from a snapshot of /verif), record the
                                                 obligations that are no longer discharged in out/harmless_results.json
"""
import glob
import json
import os
import shutil
import subprocess
import sys
import time

ROOT = os.path.dirname(os.path.dirname(os.path.abspath(__file__)))
REPO = "/repo"
PY = "/venv/bin/python"


def sh(cmd, cwd=None, env=None, timeout=7200):
    p = subprocess.run(cmd, shell=True, cwd=cwd, env=env, capture_output=True, text=True, timeout=timeout)
    return p.returncode, p.stdout + p.stderr


def do_import(raw, prefix):
    for k in sorted(os.listdir(raw)):
        src = os.path.join(raw, k)
        if not os.path.isdir(src):
            continue
        name = "%s-%s" % (prefix, k)
        wt = "/tmp/wt/hconfirm_%d" % os.getpid()
        sh("git -C %s worktree remove --force %s" % (REPO, wt))
        rc, out = sh("git -C %s worktree add --detach %s HEAD -q" % (REPO, wt))
        assert rc == 0, out
        try:
            rc, out = sh("git apply %s" % os.path.join(src, "patch.diff"), cwd=wt)
            if rc != 0:
                print(name, "does not apply", out[-200:])
                continue
            rc, out = sh("%s -m pytest -q -p no:cacheprovider -x" % PY, cwd=wt, env=dict(os.environ, PYTHONPATH=wt))
            tail = out.strip().splitlines()[-1] if out.strip() else ""
            print(name, "tests rc=%d %s" % (rc, tail))
            if rc != 0:
                continue
        finally:
            sh("git -C %s worktree remove --force %s" % (REPO, wt))
        dst = os.path.join(ROOT, "harmless", name)
        os.makedirs(dst, exist_ok=True)
        shutil.copy(os.path.join(src, "patch.diff"), os.path.join(dst, "patch.diff"))
        meta = json.load(open(os.path.join(src, "meta.json")))
        meta["tests"] = tail
        json.dump(meta, open(os.path.join(dst, "meta.json"), "w"), indent=1)


WORKER = r'''
import json, multiprocessing, os, sys
sys.path.insert(0, os.getcwd()); sys.setrecursionlimit(20000)
from pyvc import check
def main():
    touched = json.loads(sys.argv[1])
    pc = check.load_contracts()
    shared = any(t.endswith(("utils.py", "my_math.py", "constants.py", "errors.py")) for t in touched)
    mods = set(t[:-3].replace("/", ".") for t in touched)
    if any("tier" in m for m in mods):
        mods.add("praatio.data_classes.textgrid")
    tasks = []
    for t in pc.REGISTRY.order:
        c = pc.REGISTRY.contracts[t]
        if shared or any(t.startswith(m + ".") for m in mods) or t.startswith("spec.harness"):
            for cfg in pc.config_list(c):
                tasks.append((t, pc.cfg_name(cfg), None))
    with multiprocessing.Pool(16) as pool:
        res = pool.map(check.run_task, tasks, chunksize=1)
    bad, n = [], 0
    for r in res:
        if r["error"]:
            bad.append({"name": r["target"] + "[" + r["config"] + "]", "result": "error", "detail": r["error"][-300:]})
        for o in r["obligations"]:
            n += 1
            if o["result"] != "discharged":
                bad.append({"name": o["name"], "result": o["result"], "detail": o["detail"][:300]})
    print("RESULT " + json.dumps({"obligations": n, "tasks": len(tasks), "bad": bad}))
main()
'''


def do_run(names):
    wt = "/tmp/wt/hrun_%d" % os.getpid()
    sh("git -C %s worktree remove --force %s" % (REPO, wt))
    rc, out = sh("git -C %s worktree add --detach %s HEAD -q" % (REPO, wt))
    assert rc == 0, out
    snap = "/tmp/wt/hsnap_%d" % os.getpid()
    rc, out = sh("mkdir -p %s && rsync -a --delete --exclude out --exclude .git --exclude __pycache__ %s/ %s/" % (snap, ROOT, snap))
    assert rc == 0, out
    open(os.path.join(snap, "hworker.py"), "w").write(WORKER)
    p = os.path.join(ROOT, "out", "harmless_results.json")
    os.makedirs(os.path.dirname(p), exist_ok=True)
    results = json.load(open(p)) if os.path.exists(p) else {}
    try:
        for d in sorted(glob.glob(os.path.join(snap, "harmless", "*"))):
            name = os.path.basename(d)
            if names and not any(name.startswith(n) for n in names):
                continue
            rc, out = sh("git apply %s" % os.path.join(d, "patch.diff"), cwd=wt)
            if rc != 0:
                print(name, "does not apply", out[-200:])
                continue
            try:
                rc, out = sh("git diff --name-only", cwd=wt)
                touched = [l.strip() for l in out.splitlines() if l.strip().endswith(".py")]
                t0 = time.time()
                env = dict(os.environ, PRAATIO_REPO=wt, VERIF_NO_CACHE="1", PYTHONPATH="%s:%s" % (wt, snap),
                           PRAATIO_VERIF="1")
                rc, out = sh("python3-vt hworker.py '%s'" % json.dumps(touched), cwd=snap, env=env)
                line = [l for l in out.splitlines() if l.startswith("RESULT ")]
                r = json.loads(line[-1][7:]) if line else {"error": out[-600:]}
                r["s"] = round(time.time() - t0, 1)
                r["touched"] = touched
                results[name] = r
                print(name, "obligations=%s not-discharged=%s %.0fs" % (r.get("obligations"), len(r.get("bad", [])) if "bad" in r else r.get("error"), time.time() - t0), flush=True)
                for b in r.get("bad", [])[:6]:
                    print("    ", b["result"], b["name"], "|", b["detail"][:160].replace("\n", " "))
                json.dump(results, open(p, "w"), indent=1)
            finally:
                sh("git checkout -- .", cwd=wt)
    finally:
        sh("git -C %s worktree remove --force %s" % (REPO, wt))
        shutil.rmtree(snap, ignore_errors=True)


if __name__ == "__main__":
    if sys.argv[1] == "import":
        do_import(sys.argv[2], sys.argv[3])
    else:
        do_run(sys.argv[2:])
