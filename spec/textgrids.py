"""Spec functions for the Textgrid container (C12, C13): a Textgrid is an ordered, uniquely named tier map.
Written from the property text: duplicate names rejected, span only widens, failed mutations change nothing."""
from collections import OrderedDict

from praatio.utilities import errors
from spec.tiers import valid, disjoint_ordered, in_span_i, in_span_p, well_formed
from spec.prims import forall, exists, pairwise, adjacent, strip, is_sorted

REPORTING_MODES = ("silence", "warning", "error")


def _rebuild(self, names, extra_name, extra_tier):
    old = self._tierDict
    new = OrderedDict()
    for n in names:
        if extra_tier is not None and n == extra_name:
            new[n] = extra_tier
        else:
            new[n] = old[n]
    self._tierDict = new


def _widen(self, tier):
    if self.minTimestamp is None or tier.minTimestamp < self.minTimestamp:
        self.minTimestamp = tier.minTimestamp
    if self.maxTimestamp is None or tier.maxTimestamp > self.maxTimestamp:
        self.maxTimestamp = tier.maxTimestamp


def _span_would_change(self, tier):
    return ((self.minTimestamp is not None and tier.minTimestamp < self.minTimestamp)
            or (self.maxTimestamp is not None and tier.maxTimestamp > self.maxTimestamp))


def Textgrid_addTier(self, tier, tierIndex, reportingMode):
    if reportingMode not in REPORTING_MODES:
        raise errors.WrongOption("reportingMode", reportingMode, REPORTING_MODES)
    if tier.name in self.tierNames:
        raise errors.TierNameExistsError("")
    if reportingMode == "error" and _span_would_change(self, tier):
        # all-or-nothing: the exception is raised before anything is changed
        raise errors.TextgridStateAutoModified("")
    names = list(self.tierNames)
    if tierIndex is None:
        names.append(tier.name)
    else:
        names.insert(tierIndex, tier.name)
    _rebuild(self, names, tier.name, tier)
    _widen(self, tier)


def Textgrid_removeTier(self, name):
    if name not in self.tierNames:
        raise KeyError(name)
    tier = self._tierDict[name]
    names = [n for n in self.tierNames if n != name]
    _rebuild(self, names, None, None)
    return tier


def Textgrid_renameTier(self, oldName, newName):
    if oldName not in self.tierNames:
        raise KeyError(oldName)
    if newName in self.tierNames and newName != oldName:
        raise errors.TierNameExistsError("")
    old = self._tierDict[oldName]
    renamed = old.new(newName, old.entries)
    names = [newName if n == oldName else n for n in self.tierNames]
    dct = self._tierDict
    new = OrderedDict()
    for n in self.tierNames:
        if n == oldName:
            new[newName] = renamed
        else:
            new[n] = dct[n]
    self._tierDict = new
    _widen(self, renamed)


def Textgrid_replaceTier(self, name, newTier, reportingMode):
    if name not in self.tierNames:
        raise ValueError(name)
    if reportingMode not in REPORTING_MODES:
        raise errors.WrongOption("reportingMode", reportingMode, REPORTING_MODES)
    if newTier.name in self.tierNames and newTier.name != name:
        raise errors.TierNameExistsError("")
    if reportingMode == "error" and _span_would_change(self, newTier):
        raise errors.TextgridStateAutoModified("")
    dct = self._tierDict
    new = OrderedDict()
    for n in self.tierNames:
        if n == name:
            new[newTier.name] = newTier
        else:
            new[n] = dct[n]
    self._tierDict = new
    _widen(self, newTier)


# ---- tier-wise edits (C12): "return a textgrid with the same names in the same order whose tiers equal the
# same operation applied to each tier"

from praatio.data_classes.textgrid import Textgrid

CROP_MODES = ("strict", "lax", "truncated")


def Textgrid_crop(self, cropStart, cropEnd, mode, rebaseToZero):
    if mode not in CROP_MODES:
        raise errors.WrongOption("mode", mode, CROP_MODES)
    if cropStart >= cropEnd:
        raise errors.ArgumentError("")
    if rebaseToZero is True:
        new = Textgrid(0.0, cropEnd - cropStart)
    else:
        new = Textgrid(cropStart, cropEnd)
    for name in self.tierNames:
        new.addTier(self._tierDict[name].crop(cropStart, cropEnd, mode, rebaseToZero), None, "silence")
    return new


SPACE_MODES = ("stretch", "split", "no_change", "error")


def Textgrid_insertSpace(self, start, duration, collisionMode):
    if collisionMode not in SPACE_MODES:
        raise errors.WrongOption("collisionMode", collisionMode, SPACE_MODES)
    new = Textgrid(self.minTimestamp, self.maxTimestamp + duration)
    for name in self.tierNames:
        new.addTier(self._tierDict[name].insertSpace(start, duration, collisionMode), None, "silence")
    return new


def Textgrid_editTimestamps(self, offset, reportingMode):
    if reportingMode not in REPORTING_MODES:
        raise errors.WrongOption("reportingMode", reportingMode, REPORTING_MODES)
    new = Textgrid(self.minTimestamp, self.maxTimestamp)
    for name in self.tierNames:
        t = self._tierDict[name]
        if len(t.entries) > 0:
            t = t.editTimestamps(offset, reportingMode)
        new.addTier(t, None, reportingMode)
    return new


# ---- C09: appendTextgrid.  "Appending textgrid B to A yields A's entries unchanged followed by B's entries shifted
# by A's end time, a span ending at the sum of both end times, and the tier set documented for onlyMatchingNames"
# (documented: only the names present in both when True; otherwise A's names followed by B's other names)

from spec.tiers import shift_entry


def Textgrid_appendTextgrid(self, tg, onlyMatchingNames):
    a = self.tierNames
    b = tg.tierNames
    lo = self.minTimestamp
    hi = self.maxTimestamp + tg.maxTimestamp
    new = Textgrid(lo, hi)
    if onlyMatchingNames is False:
        final = list(a) + [n for n in b if n not in a]
    else:
        final = [n for n in a if n in b]
    for n in final:
        if n in a and n in b:
            A = self._tierDict[n]
            B = tg._tierDict[n]
            t = type(A)(A.name, list(A.entries) + [shift_entry(e, self.maxTimestamp) for e in B.entries], lo, hi)
        elif n in a:
            t = self._tierDict[n]
        else:
            B = tg._tierDict[n]
            t = type(B)(B.name, [shift_entry(e, self.maxTimestamp) for e in B.entries], lo, hi)
        new.addTier(t, None, "silence")
    return new


# ---- C07 / C12: Textgrid.eraseRegion is tier-wise truncating erasure; names and order kept; the span shrinks by
# the erased duration iff doShrink


def Textgrid_eraseRegion(self, start, end, doShrink):
    if start >= end:
        raise errors.ArgumentError("")
    new = Textgrid(self.minTimestamp, self.maxTimestamp)
    for name in self.tierNames:
        new.addTier(self._tierDict[name].eraseRegion(start, end, "truncate", doShrink), None, "silence")
    if doShrink is True:
        new.maxTimestamp = start + (self.maxTimestamp - end)
    return new


# ---- C15: Textgrid.validate() "returns False exactly when a span mismatch or an out-of-span/out-of-order entry
# exists" (non-raising modes; tier names are unique by the class invariant of the tier map)


def Textgrid_validate(self, reportingMode):
    if reportingMode not in REPORTING_MODES:
        raise errors.WrongOption("reportingMode", reportingMode, REPORTING_MODES)
    ok = True
    for name in self.tierNames:
        t = self._tierDict[name]
        if t.minTimestamp != self.minTimestamp or t.maxTimestamp != self.maxTimestamp:
            ok = False
        if not t.validate(reportingMode):
            ok = False
    return ok


# ---- C10 / C12: mergeTiers() with the default arguments fuses all interval tiers into one and all point tiers into
# one (interval tier first), each named after the first tier of its class


def merged_names(tg, tierNames, preserveOtherTiers):
    sel = tg.tierNames if tierNames is None else tierNames
    ints = [n for n in sel if tg._tierDict[n].tierType == "IntervalTier"]
    pts = [n for n in sel if tg._tierDict[n].tierType == "TextTier"]
    others = [n for n in tg.tierNames if n not in sel] if preserveOtherTiers else []
    return tuple(others + ints[:1] + pts[:1])
