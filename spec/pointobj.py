"""Independent reader / writer for Praat PointProcess, PitchTier and DurationTier text files (C19).

Written from Praat's text file formats as they appear in files written by Praat ("Save as text
file" = long form, "Save as short text file" = short form), NOT from praatIO's code.

long form                                   short form
  File type = "ooTextFile"                    File type = "ooTextFile"
  Object class = "<class>"                    Object class = "<class>"
  <blank>                                     <blank>
  xmin = <num>                                <num>
  xmax = <num>                                <num>
  PointProcess:                               <count>
    nt = <count>                              then one number per line: t1 t2 ... (PointProcess)
    t []:          ("t []: (empty)" if 0)     or t1 v1 t2 v2 ... (PitchTier / DurationTier)
        t [i] = <num>
  PitchTier / DurationTier:
    points: size = <count>
    points [i]:
        number = <num>
        value = <num>

Model: {"class": str, "xmin": num, "xmax": num, "points": [(t,), ...] | [(t, v), ...]}.
Specification, not verified code; parse(render(m)) == m is checked by the bounded module.
"""
import re

CLASSES_1D = ("PointProcess",)
CLASSES_2D = ("PitchTier", "DurationTier")


class PointFormatError(Exception):
    pass


def lit(x):
    if isinstance(x, str):
        return x
    if isinstance(x, int):
        return str(x)
    return repr(float(x))


def render(model, form, eol=" "):
    cls = model["class"]
    o = ['File type = "ooTextFile"', 'Object class = "%s"' % cls, ""]
    pts = model["points"]
    if form == "short":
        o += [lit(model["xmin"]), lit(model["xmax"]), str(len(pts))]
        for p in pts:
            o += [lit(x) for x in p]
    elif form == "long":
        o.append("xmin = %s%s" % (lit(model["xmin"]), eol))
        o.append("xmax = %s%s" % (lit(model["xmax"]), eol))
        if cls in CLASSES_1D:
            o.append("nt = %d%s" % (len(pts), eol))
            # Praat writes "t []: (empty)" for a vector without elements
            o.append("t []:%s%s" % (" (empty)" if not pts and eol else "", eol))
            for k, (t,) in enumerate(pts):
                o.append("    t [%d] = %s%s" % (k + 1, lit(t), eol))
        else:
            o.append("points: size = %d%s" % (len(pts), eol))
            for k, (t, v) in enumerate(pts):
                o.append("points [%d]:" % (k + 1))
                o.append("    number = %s%s" % (lit(t), eol))
                o.append("    value = %s%s" % (lit(v), eol))
    else:
        raise ValueError(form)
    return "\n".join(o) + "\n"


_RE_CLASS = re.compile(r'^Object class = "(\w+)"$')
_RE_KV = re.compile(r"^(\w+) = (\S+)$")
_RE_T = re.compile(r"^t \[(\d+)\] = (\S+)$")


def parse(text):
    """-> (model with float numbers, form)"""
    rows = [r.strip() for r in text.replace("\r\n", "\n").split("\n")]
    while rows and rows[-1] == "":
        rows.pop()
    if len(rows) < 6 or rows[0] != 'File type = "ooTextFile"' or rows[2] != "":
        raise PointFormatError("bad header")
    m = _RE_CLASS.match(rows[1])
    if not m or m.group(1) not in CLASSES_1D + CLASSES_2D:
        raise PointFormatError("bad class line %r" % rows[1])
    cls = m.group(1)
    dim = 1 if cls in CLASSES_1D else 2
    body = rows[3:]

    def num(s):
        try:
            return float(s)
        except ValueError:
            raise PointFormatError("bad number %r" % s)

    def kv(row, key):
        mm = _RE_KV.match(row)
        if not mm or mm.group(1) != key:
            raise PointFormatError("expected '%s = <num>' got %r" % (key, row))
        return mm.group(2)

    if body[0].startswith("xmin"):
        form = "long"
        xmin, xmax = num(kv(body[0], "xmin")), num(kv(body[1], "xmax"))
        pts = []
        if dim == 1:
            n = int(kv(body[2], "nt"))
            if len(body) < 4 or body[3] not in ("t []:", "t []: (empty)"):
                raise PointFormatError("expected 't []:'")
            rest = body[4:]
            if len(rest) != n:
                raise PointFormatError("count mismatch")
            for k, r in enumerate(rest):
                mm = _RE_T.match(r)
                if not mm or int(mm.group(1)) != k + 1:
                    raise PointFormatError("expected 't [%d] = <num>' got %r" % (k + 1, r))
                pts.append((num(mm.group(2)),))
        else:
            mm = re.match(r"^points: size = (\d+)$", body[2])
            if not mm:
                raise PointFormatError("expected 'points: size = N' got %r" % body[2])
            n = int(mm.group(1))
            rest = body[3:]
            if len(rest) != 3 * n:
                raise PointFormatError("count mismatch")
            for k in range(n):
                if rest[3 * k] != "points [%d]:" % (k + 1):
                    raise PointFormatError("expected 'points [%d]:' got %r" % (k + 1, rest[3 * k]))
                pts.append((num(kv(rest[3 * k + 1], "number")), num(kv(rest[3 * k + 2], "value"))))
    else:
        form = "short"
        xmin, xmax = num(body[0]), num(body[1])
        try:
            n = int(body[2])
        except ValueError:
            raise PointFormatError("bad count %r" % body[2])
        rest = body[3:]
        if len(rest) != n * dim:
            raise PointFormatError("count mismatch: %d numbers for %d points" % (len(rest), n))
        vals = [num(r) for r in rest]
        pts = [tuple(vals[dim * k: dim * k + dim]) for k in range(n)]
    return {"class": cls, "xmin": xmin, "xmax": xmax, "points": pts}, form
