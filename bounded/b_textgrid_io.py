"""Bounded stand-ins for C01-C04 (TextGrid save / open).

Oracles: the property statements in properties.jsonl and the independent writer/reader in
spec/tgformat.py (Praat's "TextGrid file formats" page + the README JSON schemas).  praatIO is only
*called* (Textgrid.save, textgrid.openTextgrid, tier constructors); none of its parsing / emitting code
is used to decide what is right.

Deliberate leniencies (so that no check demands more than the properties state):
 * C01/C02 near-integer rule: a timestamp within 1e-14 relative of an integer may come back as that integer.
 * blank filling / overrides and a tier whose own span differs from the textgrid span: C02 demands a
   partition of the FILE span, C01 "the same spans"; both cannot hold, so the tier span read back may be the
   in-memory tier span, the file span, or their hull.
 * C01 runs save with the documented default threshold unless the blank-filled tier contains a piece shorter
   than 1e-8 (sliver absorption is C04's subject); then minimumIntervalLength=None is passed.
 * C01 fixed-point clause is applied only when the property's own rules (blanks added on save, empty labels
   dropped on open) make the re-saved content equal to the first content.
 * C03 labels are stripped (C05: a well-formed tier has stripped labels), names trimmed and single-line.
"""
import json
import os
import random
import time

from spec import tgformat as S
from bounded import _tgio_domain as D

MOD = "bounded.b_textgrid_io"
I, P = S.INTERVAL, S.POINT


def _exc(e):
    return type(e).__name__


def _cause_str(necessary):
    return " + ".join(necessary) if necessary else "no special feature"


def _mk_report(what, bound, cases, distinct, exhaustive, t0, samples):
    return {"what": what, "bound": bound, "cases": cases, "distinct": distinct, "exhaustive": exhaustive,
            "wall_s": round(time.time() - t0, 2), "samples": samples}


def _rng(seed, tag, i):
    return random.Random("%d:%s:%d" % (seed, tag, i))


def _one_tier(klass, entries, name=("a",), lo=0.0, hi=2.5):
    return {"xmin": lo, "xmax": hi,
            "tiers": [{"class": klass, "name": list(name), "xmin": lo, "xmax": hi, "entries": entries}]}


# ================================================================================================
# spec_pair_selfcheck
# ================================================================================================


def _selfcheck_cd(cd):
    d = D.materialise(cd)
    nd = S.normalize(d)
    probs = []
    for num in ("plain", "exp", "negzero", "float"):
        for style in ("praat", "elan"):
            try:
                if S.spec_parse_long(S.spec_render_long(d, num=num, style=style)) != nd:
                    probs.append("long/%s/%s" % (style, num))
            except S.SpecFormatError as e:
                probs.append("long/%s/%s raises %s" % (style, num, e.category))
        try:
            if S.spec_parse_short(S.spec_render_short(d, num=num)) != nd:
                probs.append("short/%s" % num)
        except S.SpecFormatError as e:
            probs.append("short/%s raises %s" % (num, e.category))
    try:
        if S.spec_parse_textgrid_json(S.spec_render_textgrid_json(d)) != nd:
            probs.append("textgrid_json")
        if S.spec_parse_json(S.spec_render_json(d)) != S.json_view(d):
            probs.append("json")
    except S.SpecFormatError as e:
        probs.append("json raises %s" % e.category)
    for txt in (S.spec_render_long(d), S.spec_render_short(d), S.spec_render_elan_long(d)):
        if any(a != b for a, b in S.audit_text_document(txt)):
            probs.append("audit sizes")
    return probs


def _selfcheck_chunk(chunk):
    bag = D.Bag()
    n = 0
    for cd in chunk["cds"]:
        n += 1
        for p in _selfcheck_cd(cd):
            bag.add("spec pair: spec_parse(spec_render(d)) != d (%s)" % p.split("/")[0],
                    {"check": "spec_pair_selfcheck", "cd": cd}, "d", p)
    for i in chunk["rand"]:
        rng = _rng(chunk["seed"], "self", i)
        cd = D.gen_cd(rng, label_atoms=D.LABEL_ATOMS + D.UNICODE_ATOMS)
        n += 1
        for p in _selfcheck_cd(cd):
            bag.add("spec pair: spec_parse(spec_render(d)) != d (%s)" % p.split("/")[0],
                    {"check": "spec_pair_selfcheck", "cd": cd}, "d", p)
    return {"n": n, "bag": bag.dump()}


def _exhaustive_cds(maxlab, maxname):
    """single-tier single-entry textgrids: every label (<= maxlab atoms), every name (<= maxname atoms),
    every ordered pair / single value of NUMS as interval / point time"""
    cds = []
    for lab in D.all_labels(maxlab):
        cds.append(_one_tier(I, [[1 / 3, 2.5, lab]]))
        cds.append(_one_tier(P, [[1 / 3, lab]]))
    for nm in D.all_names(maxname):
        cds.append(_one_tier(I, [[1 / 3, 2.5, ["a"]]], name=nm))
        cds.append(_one_tier(P, [[1 / 3, ["a"]]], name=nm))
    N = D.NUMS
    for i in range(len(N)):
        for j in range(i + 1, len(N)):
            cds.append(_one_tier(I, [[N[i], N[j], ["a"]]], lo=N[i], hi=N[j]))
            cds.append(_one_tier(I, [[N[i], N[j], ["a"]]], lo=N[0], hi=N[-1]))
            cds.append(_one_tier(P, [[N[i], ["a"]]], lo=N[i], hi=N[j]))
            cds.append(_one_tier(I, [], lo=N[i], hi=N[j]))
            cds.append(_one_tier(P, [], lo=N[i], hi=N[j]))
    return cds


def run_selfcheck(tier, seed, jobs):
    t0 = time.time()
    cds = _exhaustive_cds(2 if tier == "quick" else 3, 2)
    nrand = 4000 if tier == "quick" else 60000
    chunks = [{"cds": c, "rand": [], "seed": seed} for c in D.chunked(cds, jobs * 2)]
    chunks += [{"cds": [], "rand": r, "seed": seed} for r in D.chunked(list(range(nrand)), jobs * 2)]
    res = D.pmap(MOD, "_selfcheck_chunk", chunks, jobs)
    bag = D.Bag()
    n = 0
    for r in res:
        n += r["n"]
        bag.merge(D.Bag.load(r["bag"]))
    return {"report": _mk_report(
        "C02 (spec-level law): spec_parse_f(spec_render_f(d)) == d for the independent writer/reader pair in "
        "spec/tgformat.py, every writer variant (long praat/elan layout, short, json, textgrid_json; number styles "
        "plain/exponent/-0/always-fraction) and declared sizes == item counts",
        "exhaustive: 1 tier x 1 entry x all labels of <=%d atoms over %r, all names of <=2 atoms, all pairs of %r; "
        "plus %d seeded random textgrids of 1-2 tiers x 0-2 entries (labels <=3 atoms incl. non-ASCII)"
        % (2 if tier == "quick" else 3, D.LABEL_ATOMS, D.NUMS, nrand),
        n, n, False, t0,
        [D.materialise(cds[5]), D.materialise(cds[-3])]),
        "violations": bag.violations()}


# ================================================================================================
# C01 round trip
# ================================================================================================


def _c01_threshold(ref, blank):
    return None if D.has_sliver(ref, blank) else D.DEFAULT_THRESHOLD


def _c01_eval(case, scratch=None):
    """-> None | (symptom, expected, observed)"""
    from praatio import textgrid
    own = scratch is None
    if own:
        scratch = D.Scratch("c01r")
    try:
        d = D.materialise(case["cd"])
        fmt, blank, empty = case["fmt"], case["blank"], case["empty"]
        tg = D.build_tg(d)
        ref = D.content_of(tg)
        thr = _c01_threshold(ref, blank)
        fn1, fn2 = scratch.path("a.TextGrid"), scratch.path("b.TextGrid")
        try:
            tg.save(fn1, fmt, blank, minimumIntervalLength=thr, reportingMode="silence")
        except Exception as e:
            return ("save raises %s" % _exc(e), "file written", repr(e)[:200])
        with open(fn1, "r", encoding="utf-8", newline="") as fd:
            text1 = fd.read()
        try:
            tg2 = textgrid.openTextgrid(fn1, empty, reportingMode="silence")
        except Exception as e:
            return ("open raises %s" % _exc(e), "the saved textgrid", "%r; file=%r" % (e, text1[:600]))
        got = D.content_of(tg2)
        written = D.model_written(ref, blank)
        exp = written if empty else D.drop_empty(written)
        v = D.compare_content(exp, got, fmt, lenient_tier_span=blank)
        if v is not None:
            return v
        # fixed point: applicable when re-filling the expected reopened content gives the written content
        refill = D.model_written(exp, blank)
        spans_kept = fmt == "json" or all(
            D.num_ok(a["xmin"], b["xmin"]) and D.num_ok(a["xmax"], b["xmax"]) for a, b in zip(exp["tiers"], got["tiers"]))
        if spans_kept and [t["entries"] for t in refill["tiers"]] == [t["entries"] for t in written["tiers"]]:
            try:
                tg2.save(fn2, fmt, blank, minimumIntervalLength=thr, reportingMode="silence")
            except Exception as e:
                return ("re-save raises %s" % _exc(e), "file written", repr(e)[:200])
            with open(fn2, "r", encoding="utf-8", newline="") as fd:
                text2 = fd.read()
            if text2 != text1:
                return ("re-saved text differs from first file", text1, text2)
        return None
    finally:
        if own:
            scratch.close()


def _c01_extra(case):
    out = []
    if case["blank"]:
        out.append(dict(case, blank=False))
    if not case["empty"]:
        out.append(dict(case, empty=True))
    return out


def _same_symptom(v0, v):
    return v0[0] == v[0]


def _record(bag, prefix, case, evaluate, extra, flagnames):
    v = evaluate(case)
    if v is None:
        return False
    mcase, mv, necessary = D.minimise(case, evaluate, _same_symptom, extra)
    flags = [name for name, on in flagnames(mcase) if on]
    if "uplicate" in mv[0]:
        # the duplicate-name policy does not depend on what the names are made of (and neutralising a name atom
        # would un-duplicate the names), so these categories carry no cause / flag list
        what = "%s: %s" % (prefix(mcase), mv[0])
    else:
        what = "%s: %s [%s]%s" % (prefix(mcase), mv[0], _cause_str(necessary),
                                  (" {" + ", ".join(flags) + "}") if flags else "")
    bag.add(what, mcase, mv[1], mv[2])
    return True


def _c01_cases_for(cd):
    for fmt in D.FORMATS:
        for blank in (False, True):
            for empty in (True, False):
                yield {"check": "c01_roundtrip", "cd": cd, "fmt": fmt, "blank": blank, "empty": empty}


def _c01_chunk(chunk):
    bag = D.Bag()
    scratch = D.Scratch("c01")
    n = nfail = 0
    try:
        ev = lambda c: _c01_eval(c, scratch)
        flagn = lambda c: [("includeBlankSpaces=True", c["blank"]), ("includeEmptyIntervals=False", not c["empty"])]
        cds = list(chunk["cds"])
        for i in chunk["rand"]:
            cds.append(D.gen_cd(_rng(chunk["seed"], "c01", i)))
        for cd in cds:
            for case in _c01_cases_for(cd):
                n += 1
                if _record(bag, lambda c: "C01 " + c["fmt"], case, ev, _c01_extra, flagn):
                    nfail += 1
    finally:
        scratch.close()
    return {"n": n, "nfail": nfail, "bag": bag.dump()}


def _run_generic(chunkfn, cds, nrand, seed, jobs):
    chunks = [{"cds": c, "rand": [], "seed": seed} for c in D.chunked(cds, jobs * 3)]
    chunks += [{"cds": [], "rand": r, "seed": seed} for r in D.chunked(list(range(nrand)), jobs * 3)]
    res = D.pmap(MOD, chunkfn, chunks, jobs)
    bag = D.Bag()
    n = nfail = 0
    for r in res:
        n += r["n"]
        nfail += r.get("nfail", 0)
        bag.merge(D.Bag.load(r["bag"]))
    return n, nfail, bag


def run_c01(tier, seed, jobs):
    t0 = time.time()
    maxlab = 2 if tier == "quick" else 3
    cds = _exhaustive_cds(maxlab, 2)
    nrand = 600 if tier == "quick" else 12000
    n, nfail, bag = _run_generic("_c01_chunk", cds, nrand, seed, jobs)
    return {"report": _mk_report(
        "C01: Textgrid.save then textgrid.openTextgrid gives the same names/order/types/spans/entries (labels "
        "char-for-char, timestamps bit-identical up to the near-integer rule, plain json one span), and re-saving "
        "reproduces the first file's text; oracle = the in-memory textgrid + the property's blank/empty rules",
        "x 4 formats x includeBlankSpaces{T,F} x includeEmptyIntervals{T,F}; EXHAUSTIVE over single-tier single-entry "
        "textgrids (interval and point): all labels of <=%d atoms over %r, all tier names of <=2 atoms over %r, all "
        "ordered pairs of %r as entry/tier span, empty tiers; plus %d seeded random textgrids of 1-2 tiers x 0-2 "
        "entries (labels <=3 atoms, names <=2 atoms, equal or differing tier spans). %d failing cases were each "
        "delta-debugged to a minimal case before categorising."
        % (maxlab, D.LABEL_ATOMS, D.NAME_ATOMS, D.NUMS, nrand, nfail),
        n, n, False, t0,
        [{"cd": cds[7], "fmt": "long_textgrid", "blank": True, "empty": False},
         {"cd": D.gen_cd(_rng(seed, "c01", 0)), "fmt": "short_textgrid", "blank": False, "empty": True}]),
        "violations": bag.violations()}


# ================================================================================================
# (C02, C03, C04 below)
# ================================================================================================

# ================================================================================================
# C02 written files are well-formed, four formats agree
# ================================================================================================


def _is_partition(entries, lo, hi):
    """ascending, gap-free, overlap-free partition of [lo,hi]; -> None or reason"""
    if not entries:
        return "no intervals at all"
    if entries[0][0] != lo:
        return "first interval starts at %r, file xmin is %r" % (entries[0][0], lo)
    if entries[-1][1] != hi:
        return "last interval ends at %r, file xmax is %r" % (entries[-1][1], hi)
    for e in entries:
        if not e[0] < e[1]:
            return "interval of non-positive length %r" % (e,)
    for a, b in zip(entries, entries[1:]):
        if a[1] < b[0]:
            return "gap between %r and %r" % (a, b)
        if a[1] > b[0]:
            return "overlap between %r and %r" % (a, b)
    return None


def _only_blanks_added(orig, written, exact=False):
    """orig entries appear in `written` in order, everything else is blank; -> None or reason"""
    j = 0
    for w in written:
        if j < len(orig) and w[-1] == orig[j][-1] and len(w) == len(orig[j]) and all(
                D.num_ok(x, y, exact) for x, y in zip(orig[j][:-1], w[:-1])):
            j += 1
        elif w[-1] != "":
            return "written entry %r is neither an in-memory entry (next expected %r) nor blank" % (
                w, orig[j] if j < len(orig) else None)
    if j < len(orig):
        return "in-memory entry %r not written" % (orig[j],)
    return None


def _quote_count_ok(text, content):
    vals = ["ooTextFile", "TextGrid"]
    for t in content["tiers"]:
        vals += [t["class"], t["name"]] + [e[-1] for e in t["entries"]]
    return text.count('"') == sum(2 + 2 * v.count('"') for v in vals)


def _canon_near_int(c):
    """content with every number that is within 1e-14 relative of an integer replaced by that integer
    (the near-integer rule of C01: text formats may print such a number as the integer)"""
    def f(x):
        n = D.near_int_of(x)
        return float(x) if n is None else n
    c = S.normalize(c)
    c["xmin"], c["xmax"] = f(c["xmin"]), f(c["xmax"])
    for t in c["tiers"]:
        t["xmin"], t["xmax"] = f(t["xmin"]), f(t["xmax"])
        t["entries"] = [tuple(f(v) for v in e[:-1]) + (e[-1],) for e in t["entries"]]
    return c


def _c02_eval(case, scratch=None):
    own = scratch is None
    if own:
        scratch = D.Scratch("c02r")
    try:
        d = D.materialise(case["cd"])
        blank = case["blank"]
        omin, omax = case.get("omin"), case.get("omax")
        ref = D.content_of(D.build_tg(d))
        lo = ref["xmin"] if omin is None else omin
        hi = ref["xmax"] if omax is None else omax
        thr = None if D.has_sliver(ref, blank, lo=lo, hi=hi) else D.DEFAULT_THRESHOLD
        parsed = {}
        for fmt in (case.get("fmts") or D.FORMATS):
            tg = D.build_tg(d)
            fn = scratch.path("w.TextGrid")
            try:
                tg.save(fn, fmt, blank, minTimestamp=omin, maxTimestamp=omax, minimumIntervalLength=thr,
                        reportingMode="silence")
            except Exception as e:
                return ("%s: save raises %s" % (fmt, _exc(e)), "file written", repr(e)[:200])
            with open(fn, "rb") as fd:
                raw = fd.read()
            try:
                text = raw.decode("utf-8")
            except UnicodeError as e:
                return ("%s: file is not UTF-8" % fmt, "utf-8", repr(e)[:100])
            try:
                c = S.PARSE[fmt](text)
            except S.SpecFormatError as e:
                return ("%s: not a well-formed document: %s" % (fmt, e.category), "well-formed %s" % fmt,
                        "%s; file=%r" % (e, text[:500]))
            if fmt in ("long_textgrid", "short_textgrid"):
                try:
                    sizes = S.audit_text_document(text)
                except S.SpecFormatError as e:
                    return ("%s: not a well-formed document: %s" % (fmt, e.category), "tiers of entries", str(e))
                if any(a != b for a, b in sizes):
                    return ("%s: declared size differs from the number of items" % fmt, "equal", repr(sizes))
            exp = D.model_written(ref, False, lo, hi)      # in-memory content under the file span
            got_for_cmp = c
            if blank:
                # property-level: partition + only blanks added; then compare the rest with blanks as written
                for te, tc in zip(exp["tiers"], c["tiers"]):
                    if te["class"] == I and tc["class"] == I:
                        why = _is_partition(tc["entries"], c["xmin"], c["xmax"])
                        if why:
                            return ("%s: interval tier is not a partition of the file span" % fmt,
                                    "ascending gap-free overlap-free partition of [%r,%r]" % (c["xmin"], c["xmax"]), why)
                        why = _only_blanks_added(te["entries"], tc["entries"])
                        if why:
                            return ("%s: blank filling changed more than adding blanks" % fmt, "in-memory entries + blanks", why)
                exp = {"xmin": exp["xmin"], "xmax": exp["xmax"], "tiers": [
                    dict(te, entries=(tc["entries"] if (te["class"] == I and tc["class"] == I) else te["entries"]))
                    for te, tc in zip(exp["tiers"], c["tiers"])] + exp["tiers"][len(c["tiers"]):]}
            v = D.compare_content(exp, got_for_cmp, fmt,
                                  lenient_tier_span=(blank or omin is not None or omax is not None))
            if v is not None:
                return ("%s: independent reader: %s" % (fmt, v[0]), v[1], "%s; file=%r" % (D._short(v[2], 150), text[:400]))
            if fmt in ("long_textgrid", "short_textgrid") and not _quote_count_ok(text, c):
                return ("%s: double quotes not doubled" % fmt, "every embedded quote doubled", text[:400])
            parsed[fmt] = c
        fl = list(parsed)
        for a in fl[1:]:
            ca, cb = parsed[fl[0]], parsed[a]
            if "json" in (fl[0], a) and fl[0] != a:
                ca, cb = S.json_view(ca), S.json_view(cb)
            if _canon_near_int(ca) != _canon_near_int(cb):
                return ("formats decode to different content (%s vs %s)" % (fl[0], a), ca, cb)
        return None
    finally:
        if own:
            scratch.close()


def _c02_extra(case):
    out = []
    fm = case.get("fmts") or list(D.FORMATS)
    if len(fm) > 1:
        for f in fm:
            out.append(dict(case, fmts=[f]))
    if case["blank"]:
        out.append(dict(case, blank=False))
    if case.get("omin") is not None:
        out.append(dict(case, omin=None))
    if case.get("omax") is not None:
        out.append(dict(case, omax=None))
    return out


def _c02_overrides(cd):
    lo, hi = cd["xmin"], cd["xmax"]
    below = [x for x in D.NUMS if x < lo]
    above = [x for x in D.NUMS if x > hi]
    outs = [(None, None), (lo, hi)]
    outs.append((below[-1] if below else None, above[0] if above else hi * 2 + 1))
    return outs


def _c02_chunk(chunk):
    bag = D.Bag()
    scratch = D.Scratch("c02")
    n = nfail = 0
    try:
        ev = lambda c: _c02_eval(c, scratch)
        flagn = lambda c: [("includeBlankSpaces=True", c["blank"]),
                           ("minTimestamp override", c.get("omin") is not None),
                           ("maxTimestamp override", c.get("omax") is not None)]
        cds = list(chunk["cds"])
        for i in chunk["rand"]:
            cds.append(D.gen_cd(_rng(chunk["seed"], "c02", i)))
        for cd in cds:
            for blank in (False, True):
                for omin, omax in _c02_overrides(cd):
                    case = {"check": "c02_wellformed", "cd": cd, "blank": blank, "omin": omin, "omax": omax}
                    n += 4
                    bad = False
                    for f in D.FORMATS:     # each format on its own, so one format's failure cannot hide another's
                        if _record(bag, lambda c: "C02", dict(case, fmts=[f]), ev, _c02_extra, flagn):
                            bad = True
                    if not bad:             # all four well-formed: now the cross-format agreement clause
                        bad = _record(bag, lambda c: "C02", case, ev, _c02_extra, flagn)
                    if bad:
                        nfail += 1
    finally:
        scratch.close()
    return {"n": n, "nfail": nfail, "bag": bag.dump()}


def run_c02(tier, seed, jobs):
    t0 = time.time()
    maxlab = 2 if tier == "quick" else 3
    cds = _exhaustive_cds(maxlab, 2)
    nrand = 1000 if tier == "quick" else 20000
    n, nfail, bag = _run_generic("_c02_chunk", cds, nrand, seed, jobs)
    return {"report": _mk_report(
        "C02: files written by Textgrid.save are decoded by the independent reader spec/tgformat.py to exactly the "
        "in-memory names/types/spans/times/labels; declared sizes == item counts; quotes doubled; with blank filling "
        "each interval tier is an ascending gap-free overlap-free partition of the file's [xmin,xmax] that adds only "
        "blanks; the four formats decode to identical content (plain json modulo its single span)",
        "x 4 formats x includeBlankSpaces{T,F} x overrides {none, (min,max) equal to the span, (next smaller, next "
        "larger number)}; EXHAUSTIVE over single-tier single-entry textgrids: all labels of <=%d atoms over %r, all "
        "names of <=2 atoms over %r, all ordered pairs of %r, empty tiers; plus %d seeded random textgrids of 1-2 "
        "tiers x 0-2 entries. %d failing groups delta-debugged." % (maxlab, D.LABEL_ATOMS, D.NAME_ATOMS, D.NUMS, nrand, nfail),
        n, n, False, t0,
        [{"cd": cds[9], "blank": True, "omin": None, "omax": None},
         {"cd": D.gen_cd(_rng(seed, "c02", 0)), "blank": False, "omin": 0.0, "omax": 1e15}]),
        "violations": bag.violations()}

# ================================================================================================
# C03 reader against independent writers
# ================================================================================================

C03_VARIANTS = ("long", "short", "elan-long", "json", "textgrid_json")
C03_ENCODINGS = ("utf-8", "utf-8-sig", "utf-16-le", "utf-16-be")
C03_NUMSTYLES = ("plain", "exp", "negzero", "float")


def _c03_render(d, variant, numstyle, nl):
    if variant == "long":
        text = S.spec_render_long(d, num=numstyle)
    elif variant == "elan-long":
        text = S.spec_render_elan_long(d, num=numstyle)
    elif variant == "short":
        text = S.spec_render_short(d, num=numstyle)
    elif variant == "json":
        text = S.spec_render_json(d)
        if nl == "CRLF":
            text = json.dumps(json.loads(text), ensure_ascii=False, indent=2)
    elif variant == "textgrid_json":
        text = S.spec_render_textgrid_json(d)
        if nl == "CRLF":
            text = json.dumps(json.loads(text), ensure_ascii=False, indent=2)
    else:
        raise ValueError(variant)
    if nl == "CRLF":
        text = text.replace("\n", "\r\n")
    return text


def _c03_encode(text, enc):
    if enc == "utf-8":
        return text.encode("utf-8")
    if enc == "utf-8-sig":
        return b"\xef\xbb\xbf" + text.encode("utf-8")
    if enc == "utf-16-le":
        return b"\xff\xfe" + text.encode("utf-16-le")
    if enc == "utf-16-be":
        return b"\xfe\xff" + text.encode("utf-16-be")
    raise ValueError(enc)


def _c03_open(d, case, scratch):
    from praatio import textgrid
    text = _c03_render(d, case["variant"], case["numstyle"], case["nl"])
    fn = scratch.path("r.json" if "json" in case["variant"] else "r.TextGrid")
    with open(fn, "wb") as fd:
        fd.write(_c03_encode(text, case["enc"]))
    tg = textgrid.openTextgrid(fn, case["empty"], reportingMode="silence", duplicateNamesMode=case["dup"])
    return tg, text


def _c03_eval(case, scratch=None):
    own = scratch is None
    if own:
        scratch = D.Scratch("c03r")
    try:
        d = S.normalize(D.materialise(case["cd"]))
        names = [t["name"] for t in d["tiers"]]
        has_dup = len(set(names)) != len(names)
        if case["variant"] == "json" and has_dup:
            return None     # plain json cannot encode duplicate names
        if "json" in case["variant"] and case["enc"] == "utf-8-sig":
            return None     # RFC 8259: a JSON text must not start with a BOM; a reader may reject it
        if case["variant"] == "pair":
            res = {}
            for v in ("long", "short"):
                try:
                    tg, text = _c03_open(d, dict(case, variant=v), scratch)
                    res[v] = D.content_of(tg)
                except Exception as e:
                    res[v] = "raises %s" % _exc(e)
            if isinstance(res["long"], str) or isinstance(res["short"], str):
                return None     # a layout that cannot be opened at all is reported by its own case
            if res["long"] != res["short"]:
                return ("long and short encodings of the same data open differently", res["long"], res["short"])
            return None
        RENAME_BAD = "duplicateNamesMode='rename' does not yield unique tier names / loses a tier"
        try:
            tg, text = _c03_open(d, case, scratch)
        except Exception as e:
            if _exc(e) == "DuplicateTierName" and has_dup and case["dup"] == "error":
                return None
            text = _c03_render(d, case["variant"], case["numstyle"], case["nl"])
            if _exc(e) == "DuplicateTierName" and not has_dup:
                return ("DuplicateTierName raised although no tier name repeats", "the encoded textgrid", repr(names))
            if has_dup and case["dup"] == "rename" and _exc(e) in ("TierNameExistsError", "DuplicateTierName"):
                return (RENAME_BAD, "pairwise distinct names for %r" % names, "open raises %r" % e)
            return ("open raises %s" % _exc(e), "the encoded textgrid", "%r; file=%r" % (e, text[:600]))
        if has_dup and case["dup"] == "error":
            return ("duplicate tier names do not raise DuplicateTierName", "DuplicateTierName", repr(names))
        got = D.content_of(tg)
        exp = S.json_view(d) if case["variant"] == "json" else d
        if not case["empty"]:
            exp = D.drop_empty(exp)
        if has_dup:
            # oracle from the property text only ("renamed to unique names in file order"): names pairwise
            # distinct, no tier lost, contents and file order preserved (checked positionally below).  Which
            # tier keeps which name is NOT prescribed by the property and is not checked.
            gn = [t["name"] for t in got["tiers"]]
            if len(gn) != len(names) or len(set(gn)) != len(gn):
                return (RENAME_BAD, "%d pairwise distinct names for %r" % (len(names), names), gn)
            exp = dict(exp, tiers=[dict(t, name=g) for t, g in zip(exp["tiers"], gn)])
        v = D.compare_content(exp, got, "json" if case["variant"] == "json" else "x", False, exact=True)
        if v is not None:
            return (v[0], v[1], "%s; file=%r" % (D._short(v[2], 150), text[:500]))
        return None
    finally:
        if own:
            scratch.close()


def _c03_extra(case):
    out = []
    if case["enc"] != "utf-8":
        out.append(dict(case, enc="utf-8"))
    if case["nl"] != "LF":
        out.append(dict(case, nl="LF"))
    if case["numstyle"] != "plain":
        out.append(dict(case, numstyle="plain"))
    if not case["empty"]:
        out.append(dict(case, empty=True))
    if case["dup"] != "error":
        out.append(dict(case, dup="error"))
    return out


def _c03_flags(c):
    return [("encoding %s" % c["enc"], c["enc"] != "utf-8"), ("CRLF", c["nl"] != "LF"),
            ("numbers written in style '%s'" % c["numstyle"], c["numstyle"] != "plain"),
            ("includeEmptyIntervals=False", not c["empty"]), ("duplicateNamesMode=rename", c["dup"] != "error")]


def _c03_gen(rng):
    cd = D.gen_cd(rng, label_atoms=D.LABEL_ATOMS + D.UNICODE_ATOMS, unique_names=False, max_tiers=3)
    if len(cd["tiers"]) > 1 and rng.random() < 0.3:
        cd["tiers"][rng.randrange(1, len(cd["tiers"]))]["name"] = list(cd["tiers"][0]["name"])
    return cd


C03_DUP_X = (["a"], ["Mary"], ['"'], ["="], ["7"], ["a", " ", "a"])
C03_DUP_PATTERNS = (("X", "X_2", "X"), ("X", "X", "X_2"), ("X", "X_2", "X_2", "X"), ("X", "X", "X"), ("X_2", "X", "X"),
                    ("X", "X", "X_2", "X_2"), ("X", "X_3", "X", "X"), ("X", "X_2", "X_3"), ("X", "X_2_2", "X", "X_2", "X"))
C03_DUP_VARIANTS = ("long", "short", "elan-long", "textgrid_json")


def _c03_dup_cds():
    """tier-name lists in which a generated name can collide with a name already in the file; every tier has its own
    type / span / content so that 'keeps its content and file order' is observable"""
    cds = []
    for x in C03_DUP_X:
        for pat in C03_DUP_PATTERNS:
            tiers = []
            for i, pn in enumerate(pat):
                name = list(x) + ([pn[1:]] if len(pn) > 1 else [])
                if i % 2 == 0:
                    tiers.append({"class": I, "name": name, "xmin": 0.0, "xmax": 2.5 + i,
                                  "entries": [[0.0, 1.0 + i, ["a"] * (i + 1)]]})
                else:
                    tiers.append({"class": P, "name": name, "xmin": 0.0, "xmax": 2.5 + i,
                                  "entries": [[0.5 + i, ["7"] * (i + 1)]]})
            cds.append({"xmin": 0.0, "xmax": 2.5 + len(pat) - 1, "tiers": tiers})
    return cds


def _c03_chunk(chunk):
    bag = D.Bag()
    scratch = D.Scratch("c03")
    n = nfail = 0
    try:
        ev = lambda c: _c03_eval(c, scratch)
        pre = lambda c: "C03 " + c["variant"]
        for idx, cd in chunk["cds"]:
            k = idx * 97        # rotation depends on the case index only, not on how cases are chunked
            for variant in C03_VARIANTS + ("pair",):
                for empty in (True, False):
                    combos = [(e, nl) for e in C03_ENCODINGS for nl in ("LF", "CRLF")]
                    if not chunk["full"]:
                        k += 1
                        combos = [combos[k % 8], combos[(k * 3 + 1) % 8]]
                    for enc, nl in combos:
                        k += 1
                        ns = C03_NUMSTYLES[k % 4]
                        case = {"check": "c03_reader", "cd": cd, "variant": variant, "numstyle": ns, "enc": enc,
                                "nl": nl, "empty": empty, "dup": ("error", "rename")[k % 2]}
                        n += 1
                        if _record(bag, pre, case, ev, _c03_extra, _c03_flags):
                            nfail += 1
        for cd in chunk.get("dups", []):
            for variant in C03_DUP_VARIANTS:
                for dup in ("error", "rename"):
                    for empty in (True, False):
                        case = {"check": "c03_reader", "cd": cd, "variant": variant, "numstyle": "plain", "enc": "utf-8",
                                "nl": "LF", "empty": empty, "dup": dup}
                        n += 1
                        if _record(bag, pre, case, ev, _c03_extra, _c03_flags):
                            nfail += 1
        for i in chunk["rand"]:
            rng = _rng(chunk["seed"], "c03", i)
            cd = _c03_gen(rng)
            for variant in C03_VARIANTS + ("pair",):
                case = {"check": "c03_reader", "cd": cd, "variant": variant, "numstyle": rng.choice(C03_NUMSTYLES),
                        "enc": rng.choice(C03_ENCODINGS), "nl": rng.choice(("LF", "CRLF")),
                        "empty": rng.random() < 0.5, "dup": rng.choice(("error", "rename"))}
                n += 1
                if _record(bag, pre, case, ev, _c03_extra, _c03_flags):
                    nfail += 1
    finally:
        scratch.close()
    return {"n": n, "nfail": nfail, "bag": bag.dump()}


def run_c03(tier, seed, jobs):
    t0 = time.time()
    full = tier != "quick"
    cds = _exhaustive_cds(2, 2)
    nrand = 1500 if tier == "quick" else 25000
    chunks = [{"cds": c, "rand": [], "seed": seed, "full": full} for c in D.chunked(list(enumerate(cds)), jobs * 3)]
    chunks += [{"cds": [], "rand": r, "seed": seed, "full": full} for r in D.chunked(list(range(nrand)), jobs * 3)]
    dups = _c03_dup_cds()
    chunks += [{"cds": [], "rand": [], "dups": c, "seed": seed, "full": full} for c in D.chunked(dups, jobs)]
    res = D.pmap(MOD, "_c03_chunk", chunks, jobs)
    bag = D.Bag()
    n = nfail = 0
    for r in res:
        n += r["n"]
        nfail += r["nfail"]
        bag.merge(D.Bag.load(r["bag"]))
    return {"report": _mk_report(
        "C03: files produced by the independent writers of spec/tgformat.py, opened with textgrid.openTextgrid, give "
        "exactly (bit-exact timestamps, char-exact labels) the tiers/order/spans/entries they were rendered from; "
        "long and short of the same data open equal; includeEmptyIntervals=False omits exactly the empty-labelled "
        "entries; duplicate names raise DuplicateTierName ('error') or become unique names in file order ('rename')",
        "layouts %r (+ long/short pair) x encodings %r x {LF,CRLF} x includeEmptyIntervals{T,F} x duplicateNamesMode "
        "{error,rename} x number styles %r (plain = shortest repr, exp = %%.16e, negzero = '-0' for every zero, float "
        "= always with fraction). Single-tier single-entry textgrids EXHAUSTIVE in labels (<=2 atoms over %r, "
        "stripped), names (<=2 atoms), all pairs of %r, empty tiers, each x layout x includeEmptyIntervals with %s "
        "encoding/newline combinations; plus %d seeded random textgrids (1-3 tiers x 0-2 entries, labels <=3 atoms "
        "incl. non-ASCII %r, 30%% with a duplicated tier name) x 6 with all other parameters drawn at random; plus "
        "(both tiers, exhaustive) duplicate-name collision lists %r with X in %r (X_2 = X+'_2' ...), every tier with its "
        "own type/span/content, x layouts %r x duplicateNamesMode{error,rename} x includeEmptyIntervals{T,F}: 'rename' "
        "must give pairwise distinct names, no tier lost, contents and file order preserved position by position "
        "(which tier keeps which name is not prescribed); 'error' must raise DuplicateTierName iff a name repeats. %d failing cases delta-debugged."
        % (C03_VARIANTS, C03_ENCODINGS, C03_NUMSTYLES, D.LABEL_ATOMS, D.NUMS, "all 8" if full else "2 of the 8 (rotating)",
           nrand, D.UNICODE_ATOMS, C03_DUP_PATTERNS, [D.mk_name(x) for x in C03_DUP_X], C03_DUP_VARIANTS, nfail),
        n, n, False, t0,
        [{"cd": cds[3], "variant": "elan-long", "numstyle": "float", "enc": "utf-16-be", "nl": "CRLF", "empty": False, "dup": "error"},
         {"cd": _c03_gen(_rng(seed, "c03", 0)), "variant": "short", "numstyle": "exp", "enc": "utf-8", "nl": "LF", "empty": True, "dup": "rename"}]),
        "violations": bag.violations()}

# ================================================================================================
# C04 save sweep: blanks, slivers, overrides
# ================================================================================================

C04_LENS = (1e-12, 1e-10, 5e-9, 1e-8, 2e-8, 5e-8)
C04_THRESHOLDS = (None, 1e-8, 0.06)
C04_START = 1.0


def _c04_build(case):
    """pieces: [kind, length]; kind 'L' labelled interval, 'G' unlabelled stretch.  -> content d"""
    t = C04_START
    ents = []
    k = 0
    for kind, ln in case["pieces"]:
        s, e = t, t + ln
        if kind == "L":
            k += 1
            ents.append((s, e, "x%d" % k))
        t = e
    lo, hi = C04_START, t
    tiers = [{"class": I, "name": "iv", "xmin": lo, "xmax": hi, "entries": ents}]
    if case.get("ptier"):
        tiers.append({"class": P, "name": "pt", "xmin": lo, "xmax": hi,
                      "entries": [(lo + (hi - lo) * 0.125, "p1"), (hi - (hi - lo) * 0.125, "p2")]})
    return {"xmin": lo, "xmax": hi, "tiers": tiers}


def _c04_override(which, lo, hi):
    d = (hi - lo) * 0.25
    return {None: None, "below": lo - 0.5, "lo": lo, "inside_lo": lo + d, "inside_hi": hi - d, "hi": hi,
            "above": hi + 0.5}[which]


def _ambiguous(length, m):
    return abs(length - m) <= 4e-16 * 8


def _c04_check_interval_tier(E, W, lo, hi, blank, m):
    """E in-memory entries, W written entries -> None | (symptom, expected, observed)"""
    if not blank:
        if list(W) != list(E):
            return ("blank filling off: entries not written verbatim", E, W)
        return None
    F = D.fill_blanks(E, lo, hi)
    if m is None:
        why = _is_partition(W, lo, hi)
        if why:
            return ("threshold None: written tier is not a positive-length partition of the file span", F, why)
        why = _only_blanks_added(E, W, exact=True)
        if why:
            return ("threshold None: something other than blanks was added / absorbed", F, why)
        return None
    is_sl = [(e - s) < m or _ambiguous(e - s, m) for (s, e, _l) in F]
    surely_long = [(e - s) >= m and not _ambiguous(e - s, m) for (s, e, _l) in F]
    if all((e - s) < m for (s, e, _l) in F):
        if hi - lo < m or _ambiguous(hi - lo, m):
            return None     # nothing at least threshold long can be written at all: outside the property
        if not W:
            return ("tier consisting only of sub-threshold intervals is written with no intervals",
                    "a partition of [%r,%r]" % (lo, hi), "intervals: size = 0")
    for (s, e, l) in W:
        if (e - s) < m and not _ambiguous(e - s, m):
            return ("written interval shorter than minimumIntervalLength", ">= %r" % m, repr((s, e, l)))
    why = _is_partition(W, lo, hi)
    if why:
        return ("blank filling on: written tier is not a partition of the file span", F, why)
    must = [i for i, f in enumerate(F) if f[2] != "" and surely_long[i]]
    may = [i for i, f in enumerate(F) if f[2] != "" and not surely_long[i] and not ((f[1] - f[0]) < m and not _ambiguous(f[1] - f[0], m))]
    wl = [w for w in W if w[2] != ""]
    # labels of W = labels of the long labelled entries of E, in order (ambiguous-length ones optional)
    j = 0
    matched = []
    for w in wl:
        while j < len(F) and not (F[j][2] == w[2] and (j in must or j in may)):
            if j in must:
                return ("labelled interval at least threshold long lost or out of order", F[j], wl)
            j += 1
        if j >= len(F):
            return ("written label does not come from a labelled interval at least threshold long", [F[i] for i in must], w)
        matched.append((j, w))
        j += 1
    for i in must:
        if i not in [a for a, _w in matched]:
            return ("labelled interval at least threshold long lost or out of order", F[i], wl)
    for i, w in matched:
        s, e, _l = F[i]
        # start
        a = i
        while a > 0 and is_sl[a - 1]:
            a -= 1
        if not (w[0] == s or (a < i and F[a][0] <= w[0] <= s)):
            return ("boundary of a kept interval moved although no neighbouring sliver was absorbed", F[i], w)
        b = i
        while b < len(F) - 1 and is_sl[b + 1]:
            b += 1
        if not (w[1] == e or (b > i and e <= w[1] <= F[b][1])):
            return ("boundary of a kept interval moved although no neighbouring sliver was absorbed", F[i], w)
    return None


def _c04_eval(case, scratch=None):
    own = scratch is None
    if own:
        scratch = D.Scratch("c04r")
    try:
        d = _c04_build(case)
        tg = D.build_tg(d)
        ref = D.content_of(tg)
        omin = _c04_override(case.get("omin"), ref["xmin"], ref["xmax"])
        omax = _c04_override(case.get("omax"), ref["xmin"], ref["xmax"])
        lo = ref["xmin"] if omin is None else omin
        hi = ref["xmax"] if omax is None else omax
        blank, m, fmt = case["blank"], case["thr"], case["fmt"]
        out_i = [e for t in ref["tiers"] if t["class"] == I for e in t["entries"] if e[0] < lo or e[1] > hi]
        out_p = [e for t in ref["tiers"] if t["class"] == P for e in t["entries"] if e[0] < lo or e[0] > hi]
        fn = scratch.path("s.TextGrid")
        if os.path.exists(fn):
            os.remove(fn)
        raised = None
        try:
            tg.save(fn, fmt, blank, minTimestamp=omin, maxTimestamp=omax, minimumIntervalLength=m,
                    reportingMode="silence")
        except Exception as e:
            raised = e
        onoff = "on" if blank else "off"
        if out_i or out_p:
            if raised is None:
                return ("save does not raise although %s lies outside the requested span (blank filling %s)"
                        % ("an interval" if out_i else "a point", onoff),
                        "an exception", "file written; outside: %r, span [%r,%r]" % ((out_i or out_p)[0], lo, hi))
            return None
        if raised is not None:
            return ("save raises %s although every entry is inside the requested span" % _exc(raised),
                    "file written", repr(raised)[:200])
        with open(fn, "r", encoding="utf-8", newline="") as fd:
            text = fd.read()
        try:
            c = S.PARSE[fmt](text)
        except S.SpecFormatError as e:
            return ("written file is not well-formed: %s" % e.category, "well-formed", "%s; %r" % (e, text[:300]))
        if not (c["xmin"] == lo and c["xmax"] == hi):
            return ("override / textgrid span is not the file span", [lo, hi], [c["xmin"], c["xmax"]])
        if [t["name"] for t in c["tiers"]] != [t["name"] for t in ref["tiers"]]:
            return ("tiers differ", [t["name"] for t in ref["tiers"]], [t["name"] for t in c["tiers"]])
        for tr, tc in zip(ref["tiers"], c["tiers"]):
            if tr["class"] == P:
                if list(tc["entries"]) != list(tr["entries"]):
                    return ("point tier not written verbatim", tr["entries"], tc["entries"])
            else:
                v = _c04_check_interval_tier(list(tr["entries"]), list(tc["entries"]), lo, hi, blank, m)
                if v:
                    return v
        return None
    finally:
        if own:
            scratch.close()


def _c04_pattern(case):
    m = case["thr"]
    out = []
    for kind, ln in case["pieces"]:
        small = m is not None and ln < m
        out.append({("L", False): "LABELLED", ("L", True): "labelled-sliver", ("G", False): "GAP",
                    ("G", True): "gap-sliver"}[(kind, small)])
    return " ".join(out)


def _c04_minimise(case, ev):
    v0 = ev(case)
    cur, curv = case, v0
    progress = True
    budget = 80
    while progress and budget > 0:
        progress = False
        cands = []
        if cur.get("ptier"):
            cands.append(dict(cur, ptier=False))
        for key in ("omin", "omax"):
            if cur.get(key) is not None:
                cands.append(dict(cur, **{key: None}))
        if cur["thr"] == 0.06:
            cands.append(dict(cur, thr=1e-8))
        if len(cur["pieces"]) > 1:
            for i in range(len(cur["pieces"])):
                cands.append(dict(cur, pieces=cur["pieces"][:i] + cur["pieces"][i + 1:]))
        for i, (kind, ln) in enumerate(cur["pieces"]):
            # canonical lengths: biggest sliver below / ordinary length, so that categories do not depend on them
            for canon in (1.0, 5e-9):
                if ln != canon and ((ln >= 0.05) == (canon >= 0.05)) and ln not in (0.05,):
                    cands.append(dict(cur, pieces=cur["pieces"][:i] + [[kind, canon]] + cur["pieces"][i + 1:]))
        for cand in cands:
            budget -= 1
            try:
                v = ev(cand)
            except Exception:
                v = None
            if v is not None and v[0] == v0[0]:
                cur, curv, progress = cand, v, True
                break
    return cur, curv


def _c04_record(bag, case, scratch):
    ev = lambda c: _c04_eval(c, scratch)
    v = ev(case)
    if v is None:
        return False
    mc, mv = _c04_minimise(case, ev)
    fails = [f for f in D.FORMATS if (lambda r: r is not None and r[0] == mv[0])(ev(dict(mc, fmt=f)))]
    what = "C04: %s (%s)" % (mv[0], "all four formats" if len(fails) == 4 else ",".join(fails))
    mc = dict(mc, fmt=fails[0] if fails else mc["fmt"])
    bag.add(what, mc, mv[1], mv[2])
    return True


def _c04_patterns(ln):
    A, B, g, a = ["L", 1.0], ["L", 2.0], ["G", 0.5], ["L", 0.05]
    out = []
    for sk in ("L", "G"):
        Sv = [sk, ln]
        S2 = ["L" if sk == "G" else "G", ln * 0.5]
        out += [[Sv, A, g, B], [Sv, g, A], [Sv, S2, A], [Sv, A],
                [A, Sv, B], [A, Sv, g, B], [A, g, Sv, B], [A, Sv, S2, B], [g, A, Sv, g], [a, Sv, A],
                [A, g, B, Sv], [A, Sv], [A, g, Sv], [A, Sv, S2], [g, Sv],
                [Sv], [Sv, S2], [Sv, a], [a, Sv, ["G", 0.05]]]
    return out


C04_OVERRIDES = ((None, None), ("below", "above"), ("lo", "hi"), ("inside_lo", None), (None, "inside_hi"),
                 ("below", None), (None, "above"))


def _c04_chunk(chunk):
    bag = D.Bag()
    scratch = D.Scratch("c04")
    n = nfail = 0
    try:
        for base in chunk["cases"]:
            for fmt in D.FORMATS:
                case = dict(base, fmt=fmt, check="c04_save_sweep")
                n += 1
                if _c04_record(bag, case, scratch):
                    nfail += 1
    finally:
        scratch.close()
    return {"n": n, "nfail": nfail, "bag": bag.dump()}


def _c04_cases(tier, seed):
    cases = []
    pats = [[["L", 1.0], ["G", 0.5], ["L", 2.0]], [["G", 0.5], ["L", 1.0], ["L", 2.0], ["G", 0.5]], [["L", 0.05], ["G", 0.05]],
            [["G", 1.0]]]
    for ln in C04_LENS:
        pats += _c04_patterns(ln)
    k = 0
    for pieces in pats:
        for thr in C04_THRESHOLDS:
            for blank in (True, False):
                for (omin, omax) in C04_OVERRIDES:
                    k += 1
                    if tier == "quick" and not blank and k % 3:
                        continue    # blank filling off is one code path; thinned in the quick tier
                    cases.append({"pieces": pieces, "thr": thr, "blank": blank, "omin": omin, "omax": omax,
                                  "ptier": (k % 2 == 0)})
    nrand = 1500 if tier == "quick" else 40000
    for i in range(nrand):
        rng = _rng(seed, "c04", i)
        pieces = []
        for _ in range(rng.randint(1, 5)):
            r = rng.random()
            if r < 0.3:
                pieces.append(["L", rng.choice((1.0, 2.0, 0.5))])
            elif r < 0.4:
                pieces.append(["L", 0.05])
            elif r < 0.55:
                pieces.append(["G", rng.choice((0.5, 0.05))])
            else:
                pieces.append([rng.choice("LG"), rng.choice(C04_LENS)])
        # two adjacent gaps are one gap: merge
        merged = []
        for p in pieces:
            if merged and merged[-1][0] == "G" and p[0] == "G":
                merged[-1] = ["G", merged[-1][1] + p[1]]
            else:
                merged.append(p)
        omin, omax = rng.choice(C04_OVERRIDES)
        cases.append({"pieces": merged, "thr": rng.choice(C04_THRESHOLDS), "blank": rng.random() < 0.75,
                      "omin": omin, "omax": omax, "ptier": rng.random() < 0.4})
    return cases, len(pats), nrand


def run_c04(tier, seed, jobs):
    t0 = time.time()
    cases, npat, nrand = _c04_cases(tier, seed)
    chunks = [{"cases": c} for c in D.chunked(cases, jobs * 4)]
    res = D.pmap(MOD, "_c04_chunk", chunks, jobs)
    bag = D.Bag()
    n = nfail = 0
    for r in res:
        n += r["n"]
        nfail += r["nfail"]
        bag.merge(D.Bag.load(r["bag"]))
    return {"report": _mk_report(
        "C04: Textgrid.save(includeBlankSpaces, minTimestamp, maxTimestamp, minimumIntervalLength) then the independent "
        "reader: blank filling adds only blanks; sub-threshold intervals are absorbed, labelled intervals >= threshold keep "
        "label/order/boundaries unless a neighbouring sliver was absorbed, no written interval is shorter than the "
        "threshold, the tier stays a partition of the file span; overrides become the file span; an entry outside the "
        "requested span makes save raise; blank filling off -> verbatim; threshold None -> nothing absorbed, all positive",
        "interval tier built from pieces starting at t=1.0: LABELLED (1.0, 2.0, 0.05 s), GAP (0.5, 0.05 s), sliver (labelled or "
        "gap) of length in %r; %d hand-enumerated patterns (sliver at start / middle / end, chains of two slivers, next to a "
        "gap or a labelled neighbour, all-sliver tiers, no sliver) x thresholds %r x includeBlankSpaces{T,F} x overrides %r "
        "(below = span-0.5, inside = 25%% into the data, above = span+0.5) x optional point tier x 4 formats (%s); plus %d "
        "seeded random compositions of 1-5 pieces. Lengths within 3e-15 of the threshold are treated as either side."
        % (C04_LENS, npat, C04_THRESHOLDS, C04_OVERRIDES,
           "blank-filling-off thinned to 1/3 in quick tier" if tier == "quick" else "full cross product", nrand),
        n, n, False, t0, [dict(cases[10], fmt="long_textgrid"), dict(cases[-1], fmt="json")]),
        "violations": bag.violations()}

#@@MORE@@

CHECKS = {
    "spec_pair_selfcheck": run_selfcheck,
    "c01_roundtrip": run_c01,
    "c02_wellformed": run_c02,
    "c03_reader": run_c03,
    "c04_save_sweep": run_c04,
}


def replay(case):
    fn = {"c01_roundtrip": _c01_eval, "c02_wellformed": _c02_eval, "c03_reader": _c03_eval, "c04_save_sweep": _c04_eval}.get(case.get("check"))
    if case.get("check") == "spec_pair_selfcheck":
        p = _selfcheck_cd(case["cd"])
        return {"reproduced": bool(p), "observed": "; ".join(p) or "spec pair agrees"}
    if fn is None:
        return {"reproduced": False, "observed": "unknown check %r" % case.get("check")}
    v = fn(case)
    if v is None:
        return {"reproduced": False, "observed": "no violation"}
    return {"reproduced": True, "observed": "%s: expected %s, observed %s" % (v[0], D._short(v[1], 200), D._short(v[2], 300))}
