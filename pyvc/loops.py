"""Loop rules (DESIGN 2.4).

Loops over concrete sequences are unrolled (exact).  Loops over abstract lists are
never unrolled: the body is explored once for a generic index j and becomes

  * an FM (flatMap) term per accumulator           (R-MAP, comprehensions, filter)
  * "raises iff some element takes the raising path" (R-FORALL)
  * a find-first when the body breaks              (R-FIND)

Applicability is checked on the real AST: accumulators are only appended to; every other
variable written in the body is poisoned at the start of the iteration, so reading a value
carried over from the previous iteration is reported as unsupported (needs a fold rule).
"""
import ast
import copy

import z3

from . import core
from .core import (Unsupported, PathAbort, Fraction, AList, LTerm, Atom, Conc, FM, FMPath, Concat, Drop1,
                   Explorer, is_z3, to_z3, INT)
from .values import *  # noqa
from . import builtins_model as bm
from .interp import LoopEffect


class Recorder:
    """Stands for an accumulator list inside an abstracted loop body."""

    def __init__(self, name):
        self.name = name
        self.outs = []


def assigned_names(stmts):
    names = set()

    def targets(t):
        if isinstance(t, ast.Name):
            names.add(t.id)
        elif isinstance(t, (ast.Tuple, ast.List)):
            for e in t.elts:
                targets(e)
        elif isinstance(t, ast.Starred):
            targets(t.value)

    class V(ast.NodeVisitor):
        def visit_Assign(self, n):
            for t in n.targets:
                targets(t)
            self.generic_visit(n)

        def visit_AugAssign(self, n):
            targets(n.target)
            self.generic_visit(n)

        def visit_AnnAssign(self, n):
            if n.value is not None:
                targets(n.target)
            self.generic_visit(n)

        def visit_For(self, n):
            targets(n.target)
            self.generic_visit(n)

        def visit_With(self, n):
            for it in n.items:
                if it.optional_vars is not None:
                    targets(it.optional_vars)
            self.generic_visit(n)

        def visit_ExceptHandler(self, n):
            if n.name:
                names.add(n.name)
            self.generic_visit(n)

        def visit_FunctionDef(self, n):
            names.add(n.name)

        def visit_Lambda(self, n):
            pass

        def visit_ListComp(self, n):
            pass

        def visit_GeneratorExp(self, n):
            pass

        def visit_NamedExpr(self, n):
            targets(n.target)
            self.generic_visit(n)

    v = V()
    for s in stmts:
        v.visit(s)
    return names


def accumulator_names(stmts, env_lookup):
    """names used only as  n.append(x) / n.extend(xs)  statements in the body"""
    acc_calls = {}
    loads = {}
    for s in stmts:
        for n in ast.walk(s):
            if isinstance(n, ast.Name) and isinstance(n.ctx, ast.Load):
                loads[n.id] = loads.get(n.id, 0) + 1
            if isinstance(n, ast.Expr) and isinstance(n.value, ast.Call):
                f = n.value.func
                if isinstance(f, ast.Attribute) and isinstance(f.value, ast.Name) and f.attr in ("append", "extend"):
                    acc_calls[f.value.id] = acc_calls.get(f.value.id, 0) + 1
    assigned = assigned_names(stmts)
    out = []
    for n, k in acc_calls.items():
        if n in assigned:
            continue
        if loads.get(n, 0) != k:
            continue
        v = env_lookup(n)
        if isinstance(v, AList) and not v.is_tuple:
            out.append(n)
    return out


# ----------------------------------------------------------------------- concrete loops


def exec_for(I, st, env):
    it = I.eval(st.iter, env)
    items = I.try_iter_concrete(it)
    if items is not None:
        broke = False
        for x in list(items):
            I.assign(st.target, x, env)
            try:
                I.exec_block(st.body, env)
            except BreakEx:
                broke = True
                break
            except ContinueEx:
                continue
        if not broke:
            I.exec_block(st.orelse, env)
        return
    if st.orelse:
        raise Unsupported("for/else over an abstract sequence")
    spec = I.registry.loop_rule(I, env, st) if I.registry is not None else None
    if spec is not None:
        from . import folds
        return folds.exec_fold_for(I, st, env, it, spec)
    abstract_for(I, st, env, it)


def exec_while(I, st, env):
    spec = I.registry.loop_rule(I, env, st) if I.registry is not None else None
    if spec is not None:
        from . import folds
        return folds.exec_fold_while(I, st, env, spec)
    n = 0
    while True:
        c = I.eval(st.test, env)
        if is_z3(c) and not isinstance(c, bool):
            s = z3.simplify(c)
            if z3.is_true(s):
                c = True
            elif z3.is_false(s):
                c = False
            else:
                # bounded unrolling would not be a proof: only a condition decided by the path is unrolled
                if I.ctx.entails(c):
                    c = True
                elif I.ctx.entails(z3.Not(c)):
                    c = False
                else:
                    raise Unsupported("while loop with a symbolic condition needs an invariant (line %d)" % st.lineno)
        if not I.truth(c):
            I.exec_block(st.orelse, env)
            return
        n += 1
        if n > 200:
            raise Unsupported("while loop unrolled more than 200 times (line %d)" % st.lineno)
        try:
            I.exec_block(st.body, env)
        except BreakEx:
            return
        except ContinueEx:
            continue


# ----------------------------------------------------------------------- abstract loops


class Source:
    """How the loop variable is bound for a generic index j."""

    def __init__(self, term, kind="plain", start=0, term2=None):
        self.term = term
        self.kind = kind
        self.start = start
        self.term2 = term2

    def value_at(self, I, j):
        """(loop-variable value, binds): element components are fresh constants bound to T.at(j)"""
        ctx = I.ctx
        binds = []

        def bound(term, idx, tag):
            real = term.at(idx)
            consts = I.elem_map(real, lambda p: ctx.fresh_const("x" + tag, p.sort()))
            for cst, r in zip(I.elem_parts(consts), I.elem_parts(real)):
                binds.append((cst, r))
                ctx.assume(cst == r)
            return consts

        if self.kind == "plain":
            return bound(self.term, j, ""), binds
        if self.kind == "enumerate":
            return (bm.arith(I, "+", j, self.start) if self.start != 0 else j, bound(self.term, j, "")), binds
        if self.kind == "range":
            return (bm.arith(I, "+", j, self.start) if self.start != 0 else j), binds
        if self.kind == "adjzip":
            a = bound(self.term, j, "a")
            self.n_a = len(binds)
            b = bound(self.term, j + 1, "b")
            return (a, b), binds
        if self.kind == "zip":
            a = bound(self.term, j, "a")
            self.n_a = len(binds)
            b = bound(self.term2, j, "b")
            return (a, b), binds
        raise Unsupported(self.kind)

    def plain_value_at(self, I, k):
        """the loop variable for a known index k (no bound constants)"""
        if self.kind == "plain":
            return self.term.new_member(core.TRUE, k).elem
        if self.kind == "enumerate":
            return (bm.arith(I, "+", k, self.start) if self.start != 0 else k, self.term.new_member(core.TRUE, k).elem)
        if self.kind == "range":
            return bm.arith(I, "+", k, self.start) if self.start != 0 else k
        if self.kind == "adjzip":
            return (self.term.new_member(core.TRUE, k).elem, self.term.new_member(core.TRUE, k + 1).elem)
        if self.kind == "zip":
            return (self.term.new_member(core.TRUE, k).elem, self.term2.new_member(core.TRUE, k).elem)
        raise Unsupported(self.kind)

    def register(self, I, j, cond=core.TRUE):
        if self.kind in ("plain", "enumerate"):
            self.term.new_member(cond, j)
        elif self.kind == "adjzip":
            self.term.new_member(cond, j)
            self.term.new_member(cond, j + 1)
        elif self.kind == "zip":
            self.term.new_member(cond, j)
            self.term2.new_member(cond, j)

    def length(self, I):
        if self.kind in ("plain", "enumerate"):
            return self.term.length()
        if self.kind == "adjzip":
            n = self.term.length()
            return z3.If(n >= 1, n - 1, 0)
        if self.kind == "zip":
            a, b = self.term.length(), self.term2.length()
            return z3.If(a <= b, a, b)
        if self.kind == "range":
            return self.term  # a z3 Int: the number of iterations


class IndexSpace(LTerm):
    """The 'list' 0..n-1 of a range(n) loop (elements are the indices themselves)."""

    def __init__(self, interp, n, start=0):
        super().__init__(interp, core.scalar_type(INT))
        self.n = to_z3(n)
        self.start = start

    def length(self):
        return z3.If(self.n >= 0, self.n, 0)

    def at(self, idx):
        idx = to_z3(idx)
        return idx + self.start if self.start != 0 else idx

    def describe(self):
        return "range"


class PairSpace(LTerm):
    """Index space of zip(T, T[1:]) / zip(A, B): only used as FM source."""

    def __init__(self, interp, source):
        super().__init__(interp, None)
        self.source = source

    def length(self):
        return self.source.length(self.interp)

    def new_member(self, cond=core.TRUE, idx=None):
        ctx = self.ctx
        if idx is None:
            idx = ctx.fresh_int("i")
        idx = to_z3(idx)
        ctx.assume(z3.Implies(cond, z3.And(idx >= 0, idx < self.length())))
        self.source.register(self.interp, idx, cond)
        m = core.Member(idx, None, cond)
        self.members.append(m)
        return m

    def describe(self):
        return "pairs"


def classify_iterable(I, it):
    if isinstance(it, AList):
        return Source(it.term, "plain")
    if isinstance(it, bm.LazySeq):
        if it.kind == "enumerate" and isinstance(it.parts[0], AList):
            return Source(it.parts[0].term, "enumerate", start=it.start)
        if it.kind == "zip" and len(it.parts) == 2 and all(isinstance(p, AList) for p in it.parts):
            a, b = it.parts
            if isinstance(b.term, Drop1) and b.term.inner is a.term:
                return Source(a.term, "adjzip")
            return Source(a.term, "zip", term2=b.term)
        if it.kind == "zip_longest" and len(it.parts) == 2 and all(isinstance(p, AList) for p in it.parts):
            # zip_longest of two lists of provably equal length is zip
            a, b = it.parts
            if I.ctx.entails(a.term.length() == b.term.length()):
                return Source(a.term, "zip", term2=b.term)
        if it.kind == "range":
            parts = it.parts
            if len(parts) == 1:
                return Source(to_z3(parts[0]), "range", start=0)
            if len(parts) == 2:
                lo, hi = parts
                return Source(to_z3(bm.arith(I, "-", hi, lo)), "range", start=lo)
    raise Unsupported("loop over %r" % (it,))


def source_term(I, src):
    if src.kind in ("plain", "enumerate"):
        return src.term
    hc = I.ctx.hc
    if src.kind == "range":
        key = ("range", to_z3(src.term).sexpr())
        if key not in hc:
            hc[key] = IndexSpace(I, src.term, 0)
        return hc[key]
    key = ("pairs", src.kind, id(src.term), id(src.term2))
    if key not in hc:
        hc[key] = PairSpace(I, src)
    return hc[key]


def subst_value(I, v, pairs):
    if is_z3(v):
        return z3.substitute(v, *pairs)
    if isinstance(v, NT):
        return NT(v.cls, [subst_value(I, x, pairs) for x in v.vals])
    if isinstance(v, tuple):
        return tuple(subst_value(I, x, pairs) for x in v)
    return v


def free_names(exprs):
    seen = set()
    names = set()
    stack = [e for e in exprs if is_z3(e)]
    while stack:
        e = stack.pop()
        k = e.get_id()
        if k in seen:
            continue
        seen.add(k)
        if z3.is_app(e):
            d = e.decl()
            if d.kind() == z3.Z3_OP_UNINTERPRETED:
                names.add(d.name())
            stack.extend(e.children())
    return names


def value_exprs(I, v):
    if is_z3(v):
        return [v]
    if isinstance(v, NT):
        return [x for x in v.vals if is_z3(x)]
    if isinstance(v, tuple):
        out = []
        for x in v:
            out.extend(value_exprs(I, x))
        return out
    return []


NOT_CONST = object()


class BodyPath:
    def __init__(self, kind, guard, outs, exc=None, env_updates=None, note=None):
        self.kind = kind  # 'normal' | 'raise' | 'break'
        self.guard = guard
        self.outs = outs  # {acc name: [elements]}
        self.exc = exc
        self.env_updates = env_updates or {}
        self.note = note


def explore_body(I, src, run_body, acc_names, poisoned, env, want_updates=(), tolerate_break_effects=False,
                 pass_index=False, check_escape=True):
    """Explore the loop body for a generic index j; returns (jvar, [BodyPath])."""
    parent = I.ctx
    sterm = source_term(I, src)
    ex = parent.ex.child(parent)
    parent.ground()
    # snapshot of the (shared) term registries so that child-path members/facts can be rolled back
    terms = list(parent.terms)
    snap = core.snapshot_terms(terms)
    results = []
    jname = []
    bindl = []
    saved_frozen = I.frozen_owner
    saved_depth = I.call_depth

    def restore():
        core.restore_terms(snap)

    def one_path(child):
        I.ctx = child
        I.frozen_owner = id(child)
        j = child.fresh_int("j")
        child._loop_j = j
        jname.append(j)
        child.assume(j >= 0)
        sterm.new_member(core.TRUE, j)
        cenv = type(env)(env.module, parent=env.parent, func=env.func)
        cenv.vars = dict(env.vars)
        for n in poisoned:
            cenv.vars[n] = Poison("assigned in the body of an abstracted loop")
        recs = {}
        for n in acc_names:
            r = Recorder(n)
            r.owner = id(child)
            recs[n] = r
            cenv.vars[n] = r
        kind, exc = "normal", None
        value, binds = src.value_at(I, j)
        bindl.append(binds)
        child._loop_binds = list(binds)
        nguard0 = len(child.guard)
        I.loop_effects = [] if tolerate_break_effects else None
        try:
            run_body(cenv, value, recs)
            if I.loop_effects:
                raise Unsupported("mutation of loop-external state inside an abstracted loop body")
        except ContinueEx:
            if I.loop_effects:
                raise Unsupported("mutation of loop-external state inside an abstracted loop body")
        except BreakEx:
            kind = "break"
        except LoopEffect:
            kind = "break"  # effectful iteration: must turn out to break when re-executed (R-FIND)
        except Raise as r:
            kind, exc = "raise", r
        except ReturnEx:
            raise Unsupported("return inside an abstracted loop body")
        guard = z3.And(child.guard[nguard0:]) if child.guard[nguard0:] else core.TRUE
        updates = {}
        flags = {}
        if kind == "break":
            for n in want_updates:
                v = cenv.vars.get(n)
                if not isinstance(v, Poison) and not isinstance(v, Recorder):
                    updates[n] = v
        elif kind == "normal":
            # constant assignments of a non-breaking iteration (`isValid = False`): see the flag rule in apply_paths
            for n in poisoned:
                v = cenv.vars.get(n)
                if isinstance(v, Poison) or isinstance(v, Recorder):
                    continue
                flags[n] = v if (v is None or isinstance(v, (bool, int, str))) else NOT_CONST
        bp = BodyPath(kind, z3.simplify(guard), {n: r.outs for n, r in recs.items()}, exc, updates,
                      note=";".join(child.notes))
        bp.flags = flags
        return bp

    try:
        for child, bp in ex.explore(one_path, parent=parent):
            results.append(bp)
            restore()
    finally:
        restore()
        I.ctx = parent
        I.frozen_owner = saved_frozen
        I.call_depth = saved_depth
        I.loop_effects = None
    if not jname:
        return None, sterm, [], []
    j = jname[0]
    binds = bindl[0]
    bound_names = set(c.decl().name() for c, _ in binds)
    # no child-local symbol may escape (it would be an unbound per-iteration existential)
    marker = ex.scope + "#"
    for bp in (results if check_escape else []):
        exprs = [bp.guard]
        for outs in bp.outs.values():
            for o in outs:
                exprs.extend(value_exprs(I, o))
        for v in bp.env_updates.values():
            exprs.extend(value_exprs(I, v))
        for nm in free_names(exprs):
            if marker in nm and nm != j.decl().name() and nm not in bound_names:
                raise Unsupported("loop body introduces a per-iteration unknown (%s): needs a contract/fold rule" % nm)
    return j, sterm, results, binds


def apply_paths(I, src, sterm, j, results, acc_boxes, env, target_names, note="", binds=(), rerun=None):
    """Continue the parent path after a body exploration."""
    ctx = I.ctx
    if j is None:
        return
    normal = [bp for bp in results if bp.kind == "normal"]
    raising = [bp for bp in results if bp.kind == "raise"]
    breaking = [bp for bp in results if bp.kind == "break"]

    def inst(expr, idx):
        if binds:
            expr = z3.substitute(expr, *binds)
        return z3.substitute(expr, (j, to_z3(idx)))

    def inst_value(v, idx):
        if is_z3(v):
            return inst(v, idx)
        if isinstance(v, NT):
            return NT(v.cls, [inst_value(x, idx) for x in v.vals])
        if isinstance(v, tuple):
            return tuple(inst_value(x, idx) for x in v)
        return v

    # R-FORALL: the loop raises iff some index takes a raising path
    for bp in raising:
        b = ctx.fresh_bool("raises")
        w = ctx.fresh_int("w")
        sterm.new_member(b, w)
        ctx.assume(z3.Implies(b, inst(bp.guard, w)))
        g = bp.guard
        sterm.all_facts.append((z3.Not(b), (lambda elem, idx, g=g: z3.Not(inst(g, idx))), "no-raise"))
        if src.kind == "adjzip" and src.term.etype is not None:
            from . import listops
            T = src.term
            pa = [c for c, _ in binds[:src.n_a]]
            pb = [c for c, _ in binds[src.n_a:]]

            def adjfn(x, y, g=g, pa=pa, pb=pb):
                pairs = list(zip(pa, [to_z3(p) for p in I.elem_parts(x)])) + \
                    list(zip(pb, [to_z3(p) for p in I.elem_parts(y)]))
                return z3.Not(z3.substitute(g, *pairs))
            probe = adjfn(T.at(z3.Int("?a")), T.at(z3.Int("?b")))
            if j.decl().name() not in free_names([probe]):
                listops.add_adjacent_fact(I, T, z3.Not(b), adjfn, "no-raise")
        if ctx.decide(b, "loop%s raises %s" % (note, bp.exc.exc.cls.name)):
            raise Raise(bp.exc.exc, bp.exc.note)
    if breaking:
        if any(bp.outs.get(n) for bp in normal for n in bp.outs):
            raise Unsupported("loop with break whose non-breaking iterations have effects")
        for bp in breaking:
            b = ctx.fresh_bool("found")
            k = ctx.fresh_int("k")
            sterm.new_member(b, k)
            ctx.assume(z3.Implies(b, inst(bp.guard, k)))
            g = bp.guard
            sterm.all_facts.append((z3.Not(b), (lambda elem, idx, g=g: z3.Not(inst(g, idx))), "not-found"))
            # first such index: no earlier index takes any breaking path
            for bq in breaking:
                gq = bq.guard
                sterm.all_facts.append((b, (lambda elem, idx, gq=gq, k=k: z3.Implies(idx < k, z3.Not(inst(gq, idx)))),
                                        "before-found"))
            if ctx.decide(b, "loop%s breaks" % note):
                if rerun is not None:
                    # run the breaking iteration for index k in this context (its effects may be arbitrary)
                    try:
                        rerun(k)
                    except BreakEx:
                        return "broke"
                    raise core.EngineError("R-FIND: the re-executed iteration did not break")
                for n, outs in bp.outs.items():
                    for o in outs:
                        bm.list_append(I, acc_boxes[n], inst_value(o, k))
                for n, v in bp.env_updates.items():
                    env.vars[n] = inst_value(v, k)
                # loop targets keep the values of the breaking iteration
                return "broke"
        for n in target_names:
            env.vars[n] = Poison("loop variable after an abstracted loop")
        return "exhausted"
    # R-MAP
    for n, box in acc_boxes.items():
        paths = [FMPath(bp.guard, [o for o in bp.outs.get(n, [])], bp.note) for bp in normal]
        if not any(p.outs for p in paths):
            continue
        first = next(o for p in paths for o in p.outs)
        if isinstance(first, AList):
            raise Unsupported("nested abstract list appended inside an abstracted loop")
        try:
            etype = I.elem_type_of(first)
            # numeric fields: real as soon as one emitted value is real (python lists may mix int and float)
            for p in paths:
                for o in p.outs:
                    et2 = I.elem_type_of(o)
                    if et2.kind != etype.kind:
                        raise Unsupported("abstracted loop appends values of different shapes")
                    if etype.kind == "scalar":
                        if et2.sort == core.REAL and etype.sort == INT:
                            etype = et2
                    else:
                        if len(et2.sorts) != len(etype.sorts):
                            raise Unsupported("abstracted loop appends tuples of different arity")
                        etype.sorts = [core.REAL if (a == core.REAL or b == core.REAL) and a in (core.REAL, INT) and b in (core.REAL, INT) else a
                                       for a, b in zip(etype.sorts, et2.sorts)]
                        if et2.ntcls is not etype.ntcls:
                            etype.ntcls = etype.ntcls if et2.ntcls is None else (et2.ntcls if etype.ntcls is None else etype.ntcls)
        except Unsupported:
            raise Unsupported("abstracted loop appends non-element values")
        for p in paths:
            p.outs = [I.coerce_elem(o, etype) for o in p.outs]
        fm = core.mk_fm(I, sterm, j, paths, etype, binds)
        I.check_mutable(box)
        old = box.term
        if isinstance(old, Conc) and not old.items:
            box.term = fm
        else:
            box.term = core.mk_concat(I, [old, fm], etype)
    before = {}
    for n in target_names:
        try:
            before[n] = env.lookup(n)
        except KeyError:
            pass
        env.vars[n] = Poison("loop variable after an abstracted loop")
    # flag rule: a variable that the body never reads and only ever sets to one constant c (`isValid = False`)
    # is c after the loop iff some iteration takes an assigning path, and keeps its value otherwise
    names = set(n for bp in normal for n in getattr(bp, "flags", {}))
    for n in names:
        vals = [bp.flags[n] for bp in normal if n in bp.flags]
        c = vals[0]
        if any(v is NOT_CONST or type(v) is not type(c) or v != c for v in vals) or n not in before:
            continue
        init = before[n]
        if isinstance(init, (Poison, Recorder)) or not (isinstance(init, bool) or z3.is_bool(init) if isinstance(c, bool)
                                                        else isinstance(init, type(c)) and not is_z3(init)):
            continue
        setters = [bp.guard for bp in normal if n in bp.flags]
        b = ctx.fresh_bool("flag")
        w = ctx.fresh_int("w")
        sterm.new_member(b, w)
        at_w = z3.Or([inst(g, w) for g in setters])
        ctx.assume(z3.Implies(b, at_w))
        ctx.touch([at_w], b)  # elements the setting iteration looks at (e.g. its predecessor) are indices of interest
        sterm.all_facts.append((z3.Not(b), (lambda elem, idx, gs=setters: z3.Not(z3.Or([inst(g, idx) for g in gs]))),
                                "flag-not-set"))
        if isinstance(c, bool):
            env.vars[n] = bm.simp_bool(z3.If(b, z3.BoolVal(c), init if is_z3(init) else z3.BoolVal(init)))
        elif init == c:
            env.vars[n] = c
        else:
            if ctx.decide(b, "loop%s sets %s" % (note, n)):
                env.vars[n] = c
            else:
                env.vars[n] = init
    return "done"


def is_erase_loop(st):
    """for x in M:  <recv>.deleteEntry(x)"""
    if len(st.body) != 1 or not isinstance(st.target, ast.Name):
        return None
    b = st.body[0]
    if not (isinstance(b, ast.Expr) and isinstance(b.value, ast.Call)):
        return None
    f = b.value.func
    if not (isinstance(f, ast.Attribute) and f.attr == "deleteEntry" and len(b.value.args) == 1
            and not b.value.keywords and isinstance(b.value.args[0], ast.Name)
            and b.value.args[0].id == st.target.id):
        return None
    return f.value


def erase_loop(I, st, env, it, recv_node):
    """R-ERASE (lemma erase_filter, lean/Lifting.lean): deleting, one by one, every element of a sub-list
    M = filter(g, S) from a list B that is the same list as S and has no two equal entries leaves
    filter(not g, B); no deletion can fail.  Side conditions are proved here, else the loop is unsupported."""
    from . import listops
    from .core import Reverse, TRUE
    ctx = I.ctx
    recv = I.eval(recv_node, env)
    if not isinstance(recv, SObj) or not isinstance(recv.attrs.get("_entries"), AList):
        raise Unsupported("erase loop on %r" % (recv,))
    # deleteEntry must be the plain pop(index(entry)) the lemma is about: checked against its contract/spec
    B = recv.attrs["_entries"]
    M = it.term if isinstance(it, AList) else None
    if M is None:
        raise Unsupported("erase loop over %r" % (it,))
    if isinstance(M, Reverse):
        M = M.inner
    M = listops.fuse(I, M) if isinstance(M, FM) else M
    if not isinstance(M, FM):
        raise Unsupported("erase loop: the list of entries to delete is not a filter of a known list")
    consts = [c for c, _ in M.binds]
    for p in M.paths:
        if len(p.outs) > 1:
            raise Unsupported("erase loop: match list is not a filter")
        if p.outs:
            parts = [to_z3(x) for x in I.elem_parts(I.coerce_elem(p.outs[0], M.etype))]
            if len(parts) != len(consts) or not all(a.eq(b) for a, b in zip(parts, consts)):
                raise Unsupported("erase loop: match list elements are not the original entries")
    ok, why = listops.same_term(I, M.src, B.term)
    if not ok:
        raise Unsupported("erase loop: match list is not derived from the list being modified")
    # no two entries of B are equal under the entry type's == (tolerant for Interval / Point): this is the
    # contract's `requires` (flag on the input list); a filtered sub-list of such a list inherits it
    T = B.term
    base = T
    while isinstance(base, FM) and all(len(p.outs) <= 1 for p in base.paths):
        base = base.src
    if not getattr(base, "requires_distinct", False):
        raise Unsupported("erase loop: entries are not known to be pairwise distinguishable (needed by "
                          "deleteEntry's search by ==); add the precondition to the contract")
    I.check_mutable(B)
    if not any(p.outs for p in M.paths):
        return  # nothing is ever deleted
    proto = next(p.outs[0] for p in M.paths if p.outs)  # the bound element itself
    # keep exactly the elements the filter dropped
    keep_paths = [FMPath(p.guard, [] if p.outs else [proto], p.note) for p in M.paths]
    B.term = core.mk_fm(I, M.src, M.jvar, keep_paths, M.etype, M.binds)
    env.vars[st.target.id] = Poison("loop variable after an abstracted loop")


class _StrFold(ast.NodeTransformer):
    """`acc += E` -> `$chunk_acc += E` for the string accumulators of a loop body"""

    def __init__(self, names):
        self.names = names

    def visit_AugAssign(self, node):
        if isinstance(node.target, ast.Name) and node.target.id in self.names and isinstance(node.op, ast.Add):
            return ast.copy_location(ast.AugAssign(target=ast.Name(id="$chunk_" + node.target.id, ctx=ast.Store()),
                                                   op=ast.Add(), value=node.value), node)
        return node


def string_accumulators(st, env):
    """names that the loop body only ever extends with `name += <expr>` and never reads, and that hold a string before
    the loop: the loop then computes  name ++ concat(flatMap(body chunk))  (R-STRFOLD: the per-iteration chunk is the
    concatenation of what the iteration adds, in order; lemma foldl_append_eq_join, lean/Lifting.lean)"""
    aug, other = set(), set()
    for node in ast.walk(ast.Module(body=st.body, type_ignores=[])):
        if isinstance(node, ast.AugAssign) and isinstance(node.target, ast.Name) and isinstance(node.op, ast.Add):
            aug.add(node.target.id)
        if isinstance(node, (ast.Break, ast.Continue, ast.Return)):
            return []
    for node in ast.walk(ast.Module(body=st.body, type_ignores=[])):
        if isinstance(node, ast.Name) and node.id in aug:
            other.add((node.id, isinstance(node.ctx, ast.Load)))
    out = []
    for n in sorted(aug):
        if (n, True) in other:
            continue  # read somewhere in the body
        writes = [x for x in ast.walk(ast.Module(body=st.body, type_ignores=[]))
                  if isinstance(x, ast.Name) and x.id == n and isinstance(x.ctx, ast.Store)]
        augs = [x for x in ast.walk(ast.Module(body=st.body, type_ignores=[]))
                if isinstance(x, ast.AugAssign) and isinstance(x.target, ast.Name) and x.target.id == n]
        if len(writes) != len(augs):
            continue  # also assigned otherwise
        try:
            v = env.lookup(n)
        except KeyError:
            continue
        if isinstance(v, str) or (is_z3(v) and v.sort() == core.STR):
            out.append(n)
    return out


def strfold_for(I, st, env, it, names):
    chunk_init = [ast.Assign(targets=[ast.Name(id="$chunk_" + n, ctx=ast.Store())], value=ast.Constant(""))
                  for n in names]
    chunk_emit = [ast.Expr(value=ast.Call(func=ast.Attribute(value=ast.Name(id="$chunks_" + n, ctx=ast.Load()),
                                                             attr="append", ctx=ast.Load()),
                                          args=[ast.Name(id="$chunk_" + n, ctx=ast.Load())], keywords=[]))
                  for n in names]
    body = [_StrFold(set(names)).visit(copy.deepcopy(x)) for x in st.body]
    new = ast.For(target=st.target, iter=st.iter, body=chunk_init + body + chunk_emit, orelse=[])
    ast.copy_location(new, st)
    ast.fix_missing_locations(new)
    from . import listops
    for n in names:
        env.vars["$chunks_" + n] = I.new_list([])
    abstract_for(I, new, env, it)
    for n in names:
        joined = listops.abstract_join(I, "", env.lookup("$chunks_" + n))
        I.assign(ast.Name(id=n, ctx=ast.Store()), bm.str_concat(I, [env.lookup(n), joined]), env)
        env.vars.pop("$chunks_" + n, None)
        env.vars.pop("$chunk_" + n, None)


def abstract_for(I, st, env, it):
    if not getattr(st, "_strfold_done", False):
        names = string_accumulators(st, env)
        if names:
            st._strfold_done = True
            try:
                return strfold_for(I, st, env, it, names)
            finally:
                st._strfold_done = False
    recv_node = is_erase_loop(st)
    if recv_node is not None and isinstance(it, AList) and I.items_of(it) is None:
        return erase_loop(I, st, env, it, recv_node)
    src = classify_iterable(I, it)
    body = st.body
    assigned = assigned_names(body) | assigned_names([ast.Assign(targets=[st.target], value=ast.Constant(0))])
    target_names = assigned_names([ast.Assign(targets=[st.target], value=ast.Constant(0))])

    def lookup(n):
        try:
            return env.lookup(n)
        except KeyError:
            return None

    accs = accumulator_names(body, lookup)
    poisoned = [n for n in assigned if n not in target_names]

    def run_body(cenv, value, recs):
        I.assign(st.target, value, cenv)
        I.exec_block(body, cenv)

    j, sterm, results, binds = explore_body(I, src, run_body, accs, poisoned, env,
                                            want_updates=assigned, tolerate_break_effects=True)
    boxes = {n: env.lookup(n) for n in accs}

    def rerun(k):
        value = src.plain_value_at(I, k)
        I.assign(st.target, value, env)
        try:
            I.exec_block(body, env)
        except ContinueEx:
            pass

    apply_paths(I, src, sterm, j, results, boxes, env, assigned, note="@L%d" % st.lineno, binds=binds, rerun=rerun)


# ----------------------------------------------------------------------- comprehensions


def eval_comprehension(I, node, env):
    gens = node.generators
    if any(g.is_async for g in gens):
        raise Unsupported("async comprehension")
    cenv = type(env)(env.module, parent=env, func=env.func)

    def run(gi, e, emit):
        if gi == len(gens):
            emit(I.eval(node.elt, e))
            return
        g = gens[gi]
        it = I.eval(g.iter, e)
        items = I.try_iter_concrete(it)
        if items is None:
            raise _NeedAbstract(gi, it)
        for x in items:
            I.assign(g.target, x, e)
            if all(I.truth(I.eval(c, e), "L%d" % node.lineno) for c in g.ifs):
                run(gi + 1, e, emit)

    out = []
    try:
        run(0, cenv, out.append)
        return I.new_list(out)
    except _NeedAbstract as na:
        if na.gi != 0:
            raise Unsupported("abstract inner generator in a comprehension")
        it = na.it
    src = classify_iterable(I, it)
    g0 = gens[0]
    target_names = assigned_names([ast.Assign(targets=[g0.target], value=ast.Constant(0))])

    def run_body(benv, value, recs):
        I.assign(g0.target, value, benv)
        for c in g0.ifs:
            if not I.truth(I.eval(c, benv), "L%d" % node.lineno):
                return
        run(1, benv, recs["$result"].outs.append)

    box = I.new_list([])
    cenv.vars["$result"] = box
    j, sterm, results, binds = explore_body(I, src, run_body, ["$result"], [], cenv)
    apply_paths(I, src, sterm, j, results, {"$result": box}, cenv, set(), note="@L%d" % node.lineno, binds=binds)
    return box


class _NeedAbstract(Exception):
    def __init__(self, gi, it):
        self.gi = gi
        self.it = it


def filter_value(I, fn, seq):
    items = I.try_iter_concrete(seq)
    if items is not None:
        return I.new_list([x for x in items if I.truth(I.call(fn, [x], {}), "filter")])
    src = classify_iterable(I, seq)

    def run_body(benv, value, recs):
        if I.truth(I.call(fn, [value], {}), "filter"):
            recs["$result"].outs.append(value)

    from .interp import Env
    env = Env(I.modules[next(iter(I.modules))])
    box = I.new_list([])
    j, sterm, results, binds = explore_body(I, src, run_body, ["$result"], [], env)
    apply_paths(I, src, sterm, j, results, {"$result": box}, env, set(), note="@filter", binds=binds)
    return box


def materialize(I, v):
    raise Unsupported("list() of %r" % (v,))
