"""Bounded stand-ins for C16, C17, C18 (praatio/audio.py, praatio/praatio_scripts.py).

Every oracle here is a plain list-of-samples model written from the property text:

* a recording is a list of integers ("samples"); a sample of width w is stored as a
  little-endian two's complement integer of w bytes (WAV PCM, struct codes b/h/i);
* a time t is mapped to the NEAREST SAMPLE INDEX  idx(t) = nearest integer to t*rate, computed
  exactly with fractions.  When t*rate is (within 1e-9 of) an exact half-sample tie the nearest
  index is not unique and BOTH neighbours are accepted;
* getSamples(s,e) = L[idx(s):idx(e)], deleteSegment removes that slice, insert(t,F) puts F at
  idx(t), replaceSegment = delete then insert at the start, concatenate appends;
* files are written/read back with Python's own `wave` module and an own TextGrid writer/reader
  (Praat's "TextGrid file formats" page), never with praatIO's emitters.

Nothing in this file looks at praatIO's implementation for an expected value.  The only place where
knowledge of a suspected defect is used is the *classification* of an already established
mismatch into a stable category string (e.g. "does the byte-rounding hypothesis reproduce the
observed bytes?").
"""
import glob
import math
import os
import random
import shutil
import signal
import struct
import threading
import time
import wave
from decimal import Decimal
from fractions import Fraction

from praatio import audio
from praatio import praatio_scripts
from praatio import textgrid
from praatio.utilities import errors
from praatio.utilities.constants import Interval, Point

TMP_ROOT = "/verif/out/tmp"
HALF = Fraction(1, 2)
EPS = Fraction(1, 10 ** 9)

WIDTHS = (1, 2, 4)
DYADIC_RATES = (8, 16, 1024)
OTHER_RATES = (8000, 16000, 44100)


# ----------------------------------------------------------------------------------------
# generic infrastructure
# ----------------------------------------------------------------------------------------


def _scratch():
    d = os.path.join(TMP_ROOT, "audio_%d" % os.getpid())
    os.makedirs(d, exist_ok=True)
    return d


def _cleanup():
    d = os.path.join(TMP_ROOT, "audio_%d" % os.getpid())
    shutil.rmtree(d, ignore_errors=True)
    _WAVCACHE.clear()


_WAVCACHE = {}
_COUNTER = [0]


def _fresh(name):
    _COUNTER[0] += 1
    return os.path.join(_scratch(), "%06d_%s" % (_COUNTER[0], name))


class Collector:
    """keeps at most 5 smallest cases per category"""

    def __init__(self):
        self.cat = {}

    def add(self, what, case, expected, observed):
        key = len(repr(case))
        L = self.cat.setdefault(what, [])
        L.append((key, len(L), {"what": what, "case": case, "expected": _short(expected), "observed": _short(observed)}))
        if len(L) > 40:
            L.sort(key=lambda x: (x[0], x[1]))
            del L[5:]

    def merge_list(self, viols):
        for v in viols:
            self.add(v["what"], v["case"], v["expected"], v["observed"])

    def result(self):
        out = []
        for what in sorted(self.cat):
            L = sorted(self.cat[what], key=lambda x: (x[0], x[1]))[:5]
            out.extend([x[2] for x in L])
        return out


def _short(x, n=400):
    s = x if isinstance(x, str) else repr(x)
    return s if len(s) <= n else s[: n - 20] + "...<%d chars>" % len(s)


def _run_tasks(fam, tasks, jobs):
    """FAMILIES[fam](task, col, st) is run on every task. Deterministic merge in task order."""
    results = []
    worker = _worker
    tasks = [(fam, t) for t in tasks]
    if jobs and jobs > 1 and len(tasks) > 1:
        import multiprocessing

        ctx = multiprocessing.get_context("fork")
        with ctx.Pool(min(jobs, len(tasks))) as pool:
            results = pool.map(worker, tasks, chunksize=1)
    else:
        results = [worker(t) for t in tasks]
    col = Collector()
    cases = distinct = 0
    samples = []
    notes = {}
    for r in results:
        cases += r["cases"]
        distinct += r["distinct"]
        col.merge_list(r["violations"])
        for s in r.get("samples", []):
            samples.append(s)
        for k, v in r.get("notes", {}).items():
            notes[k] = notes.get(k, 0) + v
    picked = []
    for s in samples:
        if len(picked) < 3 and s.get("kind") not in [x.get("kind") for x in picked]:
            picked.append(s)
    for s in samples:
        if len(picked) < 3 and s not in picked:
            picked.append(s)
    samples = picked
    # stray scratch directories of dead workers
    for d in glob.glob(os.path.join(TMP_ROOT, "audio_*")):
        pid = d.rsplit("_", 1)[-1]
        if pid.isdigit() and not os.path.exists("/proc/%s" % pid):
            shutil.rmtree(d, ignore_errors=True)
    _cleanup()
    return cases, distinct, col.result(), samples, notes


FAMILIES = {}
_STATS = {}


def _bump(key):
    _STATS[key] = _STATS.get(key, 0) + 1


def _worker(arg):
    fam, task = arg
    fn = FAMILIES[fam]
    col = Collector()
    st = {"cases": 0, "distinct": 0, "samples": [], "notes": {}}
    _STATS.clear()
    try:
        fn(task, col, st)
    finally:
        _cleanup()
    for k, v in _STATS.items():
        st["notes"][k] = st["notes"].get(k, 0) + v
    return {"cases": st["cases"], "distinct": st["distinct"], "violations": col.result(),
            "samples": st["samples"], "notes": st["notes"]}


class Hang(BaseException):
    pass


class watchdog:
    """per-call watchdog (main thread only): raises Hang inside the call after `sec` seconds of CPU time of this
    process (ITIMER_VIRTUAL: a busy loop is caught, a descheduled process on a loaded machine is not a false alarm),
    with a wall-clock backstop of 10*sec"""

    def __init__(self, sec=5.0):
        self.sec = sec
        self.on = threading.current_thread() is threading.main_thread()

    def _h(self, signum, frame):
        raise Hang()

    def __enter__(self):
        if self.on:
            self.old_v = signal.signal(signal.SIGVTALRM, self._h)
            self.old_r = signal.signal(signal.SIGALRM, self._h)
            signal.setitimer(signal.ITIMER_VIRTUAL, self.sec)
            signal.setitimer(signal.ITIMER_REAL, 10 * self.sec)
        return self

    def __exit__(self, *a):
        if self.on:
            signal.setitimer(signal.ITIMER_VIRTUAL, 0)
            signal.setitimer(signal.ITIMER_REAL, 0)
            signal.signal(signal.SIGVTALRM, self.old_v)
            signal.signal(signal.SIGALRM, self.old_r)
        return False


# ----------------------------------------------------------------------------------------
# the list-of-samples model
# ----------------------------------------------------------------------------------------


def lo(w):
    return -(2 ** (8 * w - 1))


def hi(w):
    return 2 ** (8 * w - 1) - 1


def enc(samples, w):
    return b"".join([int(s).to_bytes(w, "little", signed=True) for s in samples])


def dec(b, w):
    """None when b is not a whole number of samples"""
    if len(b) % w != 0:
        return None
    return [int.from_bytes(b[i:i + w], "little", signed=True) for i in range(0, len(b), w)]


def pos(t, rate):
    """exact position of time t in units of samples"""
    return Fraction(t) * rate


def idx_choices(t, rate):
    """acceptable nearest sample indices for time t"""
    x = pos(t, rate)
    fl = math.floor(x)
    fr = x - fl
    if abs(fr - HALF) <= EPS:
        return (fl, fl + 1)
    if fr < HALF:
        return (fl,)
    return (fl + 1,)


def is_grid(t, rate):
    x = pos(t, rate)
    return abs(x - round(x)) <= EPS


def is_tie(t, rate):
    return len(idx_choices(t, rate)) == 2


def floor_ceil_tol(x):
    """integers within one sample of the exact position x (float-noise tolerant)"""
    r = round(x)
    if abs(x - r) <= EPS:
        return (r,)
    return (math.floor(x), math.ceil(x))


def mkparams(w, rate, n):
    return [1, w, rate, n, "NONE", "not compressed"]


def mkwav(samples, w, rate):
    return audio.Wav(enc(samples, w), mkparams(w, rate, len(samples)))


def write_wave(fn, samples, w, rate):
    """independent writer: Python's wave module"""
    f = wave.open(fn, "wb")
    f.setnchannels(1)
    f.setsampwidth(w)
    f.setframerate(rate)
    f.writeframes(enc(samples, w))
    f.close()


def read_wave(fn):
    f = wave.open(fn, "rb")
    try:
        p = f.getparams()
        b = f.readframes(p.nframes)
        rest = f.readframes(10)
    finally:
        f.close()
    return p, b + rest


def cached_wave(samples, w, rate):
    key = (w, rate, tuple(samples))
    fn = _WAVCACHE.get(key)
    if fn is None or not os.path.exists(fn):
        fn = _fresh("src.wav")
        write_wave(fn, samples, w, rate)
        _WAVCACHE[key] = fn
    return fn


def make_samples(kind, n, w, rng):
    L, H = lo(w), hi(w)
    if kind == "ramp":
        # distinct neighbours so that any shift or loss is visible
        span = H - L + 1
        step = max(1, span // (n + 3)) if n else 1
        if w == 1:
            return [((i * 7 + 3) % 256) + L for i in range(n)]
        return [L + 1 + i * step + (i % 3) for i in range(n)]
    if kind == "extremes":
        cyc = [L, H, L + 1, H - 1, 0, -1, 1, -H]
        return [cyc[i % len(cyc)] for i in range(n)]
    if kind == "random":
        return [rng.randint(L, H) for _ in range(n)]
    raise ValueError(kind)


# ----------------------------------------------------------------------------------------
# C16
# ----------------------------------------------------------------------------------------

MISALIGNED = "byte-misaligned index for off-boundary time, width>1"
TIE_INSDEL = "half-sample tie rounds to even: insert-then-delete does not restore the original"


def _byte_hypothesis_idx(t, rate, w):
    """classification only: the byte index a byte-unit rounding would give"""
    return round(t * rate * w)


def _model_apply(L, op, choice):
    """apply op on list L with idx given by choice(t). returns (newL, result)"""
    name = op[0]
    if name in ("getSamples", "getFrames", "getSubwav"):
        i, j = choice(op[1]), choice(op[2])
        return L, L[i:j]
    if name == "deleteSegment":
        i, j = choice(op[1]), choice(op[2])
        return L[:i] + L[j:], None
    if name == "insert":
        i = choice(op[1])
        return L[:i] + list(op[2]) + L[i:], None
    if name == "replaceSegment":
        i, j = choice(op[1]), choice(op[2])
        rest = L[:i] + L[j:]
        return rest[:i] + list(op[3]) + rest[i:], None
    if name == "concatenate":
        return L + list(op[1]), None
    raise ValueError(name)


def _op_times(op):
    name = op[0]
    if name in ("getSamples", "getFrames", "getSubwav", "deleteSegment", "replaceSegment"):
        return [op[1], op[2]]
    if name == "insert":
        return [op[1]]
    return []


def _model_outcomes(L, op, rate):
    """all acceptable (newL, result) pairs (more than one only at half-sample ties)"""
    times = sorted(set(_op_times(op)))
    opts = [idx_choices(t, rate) for t in times]
    outs = []
    combos = [[]]
    for o in opts:
        combos = [c + [v] for c in combos for v in o]
    for c in combos:
        m = dict(zip(times, c))
        # a later time never maps before an earlier one
        vals = [m[t] for t in times]
        if any(vals[k] > vals[k + 1] for k in range(len(vals) - 1)):
            continue
        outs.append(_model_apply(L, op, lambda t: m[t]))
    return outs


def _byte_hypothesis(frames, op, rate, w):
    """classification only: what byte-unit rounding would produce. returns (newframes, resultbytes, misaligned)"""
    name = op[0]
    ts = _op_times(op)
    bi = [_byte_hypothesis_idx(t, rate, w) for t in ts]
    mis = any(b % w for b in bi)
    if name in ("getSamples", "getFrames", "getSubwav"):
        return frames, frames[bi[0]:bi[1]], mis
    if name == "deleteSegment":
        return frames[:bi[0]] + frames[bi[1]:], None, mis
    if name == "insert":
        return frames[:bi[0]] + enc(op[2], w) + frames[bi[0]:], None, mis
    if name == "replaceSegment":
        f = frames[:bi[0]] + frames[bi[1]:]
        return f[:bi[0]] + enc(op[3], w) + f[bi[0]:], None, mis
    return frames, None, False


def _grid_tag(op, rate):
    ts = _op_times(op)
    if not ts:
        return ""
    if all(is_grid(t, rate) for t in ts):
        return ", times on sample boundaries"
    if any(is_tie(t, rate) for t in ts):
        return ", half-sample tie"
    return ", off-boundary time"


def eval_ops(case):
    """kind 'ops': a sequence of <= 6 edits/queries on a Wav compared step by step with the list model"""
    w, rate = case["w"], case["rate"]
    L = list(case["samples"])
    wav = mkwav(L, w, rate)
    viol = []

    def dur_check(tag):
        d = wav.duration
        e = len(L) / rate
        if not (abs(d - e) <= 1e-12 * max(1.0, e)):
            viol.append(("duration != samples/rate", "%r after %s" % (e, tag), repr(d)))
            return False
        return True

    if not dur_check("construction"):
        return viol
    for k, op in enumerate(case["ops"]):
        name = op[0]
        before = wav.frames
        outs = _model_outcomes(L, op, rate)
        exc = None
        res = None
        try:
            if name == "getSamples":
                res = list(wav.getSamples(op[1], op[2]))
            elif name == "getFrames":
                res = wav.getFrames(op[1], op[2])
            elif name == "getSubwav":
                sub = wav.getSubwav(op[1], op[2])
                res = sub.frames
            elif name == "deleteSegment":
                wav.deleteSegment(op[1], op[2])
            elif name == "insert":
                wav.insert(op[1], enc(op[2], w))
            elif name == "replaceSegment":
                wav.replaceSegment(op[1], op[2], enc(op[3], w))
            elif name == "concatenate":
                wav.concatenate(enc(op[1], w))
            else:
                raise ValueError(name)
        except Exception as e:  # noqa
            exc = e
        # observed state / result
        ok = False
        obs_desc = None
        if exc is None:
            st = dec(wav.frames, w)
            for (nl, r) in outs:
                if st != nl:
                    continue
                if name == "getSamples":
                    ok = res == r
                elif name in ("getFrames", "getSubwav"):
                    ok = res == enc(r, w)
                else:
                    ok = True
                if ok:
                    L = nl
                    break
            if not ok:
                if name == "getSamples":
                    obs_desc = "returned %r" % (res,)
                elif name in ("getFrames", "getSubwav"):
                    d = dec(res, w)
                    obs_desc = "returned %s" % (d if d is not None else "%d bytes (not a whole number of %d-byte samples): %s" % (len(res), w, res.hex()))
                else:
                    obs_desc = "samples now %s" % (st if st is not None else "%d bytes (not a whole number of %d-byte samples)" % (len(wav.frames), w))
        else:
            obs_desc = "%s: %s" % (type(exc).__name__, exc)
        if ok:
            if name == "getSubwav":
                if (sub.sampleWidth, sub.frameRate, sub.nchannels) != (w, rate, 1):
                    viol.append(("getSubwav: parameters differ from the source", repr((1, w, rate)),
                                 repr((sub.nchannels, sub.sampleWidth, sub.frameRate))))
                    return viol
                e = len(res) / w / rate
                if not abs(sub.duration - e) <= 1e-12 * max(1.0, e):
                    viol.append(("duration != samples/rate", repr(e) + " for the subwav", repr(sub.duration)))
                    return viol
            if not dur_check("op %d %s" % (k, name)):
                return viol
            continue
        # ---- classification of the mismatch
        what = None
        if w > 1 and any(not is_grid(t, rate) for t in _op_times(op)):
            hf, hr, mis = _byte_hypothesis(before, op, rate, w)
            if mis:
                if exc is None and wav.frames == hf and (hr is None or name == "getSamples" or res == hr):
                    if name != "getSamples" or (len(hr) % w == 0 and res == dec(hr, w)):
                        what = MISALIGNED
                elif exc is not None and isinstance(exc, struct.error) and name == "getSamples" and len(hr) % w:
                    what = MISALIGNED
        if what is None:
            if exc is not None:
                what = "%s raises %s%s" % (name, type(exc).__name__, _grid_tag(op, rate))
            else:
                what = "%s: differs from the nearest-sample list model%s" % (name, _grid_tag(op, rate))
        exp = [("samples %r" % (nl,)) + ("" if r is None else " result %r" % (r,)) for nl, r in outs]
        viol.append((what, "op %d %r on %r -> %s" % (k, _short(op, 120), _short(L, 120), " or ".join(exp)), obs_desc))
        return viol
    return viol


def eval_insdel(case):
    """kind 'insdel': insert n samples at t, delete [t, t+n/rate] -> original"""
    w, rate, t = case["w"], case["rate"], case["t"]
    L = list(case["samples"])
    ins = list(case["ins"])
    wav = mkwav(L, w, rate)
    t2 = t + len(ins) / rate
    exc = None
    try:
        wav.insert(t, enc(ins, w))
        mid = wav.frames
        wav.deleteSegment(t, t2)
    except Exception as e:  # noqa
        exc = e
    if exc is None and wav.frames == enc(L, w):
        return []
    if exc is not None:
        obs = "%s: %s" % (type(exc).__name__, exc)
    else:
        st = dec(wav.frames, w)
        obs = "samples %s" % (st if st is not None else "%d bytes, not a whole number of samples" % len(wav.frames))
    what = None
    if exc is None:
        if w > 1 and not is_grid(t, rate):
            b0 = enc(L, w)
            i = _byte_hypothesis_idx(t, rate, w)
            j = _byte_hypothesis_idx(t2, rate, w)
            m = b0[:i] + enc(ins, w) + b0[i:]
            if (i % w or j % w) and wav.frames == m[:i] + m[j:]:
                what = MISALIGNED
        if what is None and (is_tie(t, rate) or is_tie(t2, rate)):
            i, j = round(t * rate), round(t2 * rate)  # classification: half-even rounding hypothesis
            m = L[:i] + ins + L[i:]
            if wav.frames == enc(m[:i] + m[j:], w):
                what = TIE_INSDEL
    if what is None:
        what = "insert-then-delete does not restore the original"
        if is_grid(t, rate):
            what += ", time on a sample boundary"
        elif is_tie(t, rate):
            what += ", half-sample tie"
        else:
            what += ", off-boundary time"
    return [(what, "insert(%r, %r); deleteSegment(%r, %r) -> samples %s" % (t, ins, t, t2, _short(L, 150)), obs)]


def eval_convert(case):
    """kind 'convert': samples <-> bytes"""
    w = case["w"]
    viol = []
    if "values" in case:
        v = tuple(case["values"])
        try:
            b = audio.convertToBytes(v, w)
        except Exception as e:  # noqa
            return [("convertToBytes raises %s for in-range values" % type(e).__name__, "bytes of %s" % _short(v), str(e))]
        if len(b) != w * len(v):
            return [("convertToBytes: wrong byte count", str(w * len(v)), str(len(b)))]
        if w > 1 and b != enc(v, w):
            viol.append(("convertToBytes: not little-endian two's complement PCM (width 2/4)", enc(v, w).hex(), b.hex()))
        try:
            back = tuple(audio.convertFromBytes(b, w))
        except Exception as e:  # noqa
            return viol + [("convertFromBytes raises %s" % type(e).__name__, _short(v), str(e))]
        if back != v:
            viol.append(("convertFromBytes(convertToBytes(v)) != v", _short(v), _short(back)))
    else:
        b = bytes.fromhex(case["bytes_hex"])
        try:
            v = tuple(audio.convertFromBytes(b, w))
        except Exception as e:  # noqa
            return [("convertFromBytes raises %s" % type(e).__name__, "samples of " + _short(b.hex()), str(e))]
        if len(v) != len(b) // w:
            return [("convertFromBytes: wrong sample count", str(len(b) // w), str(len(v)))]
        if w > 1 and list(v) != dec(b, w):
            viol.append(("convertFromBytes: not little-endian two's complement PCM (width 2/4)", _short(dec(b, w)), _short(v)))
        try:
            back = audio.convertToBytes(v, w)
        except Exception as e:  # noqa
            return viol + [("convertToBytes raises %s for values it produced itself" % type(e).__name__, _short(b.hex()), str(e))]
        if back != b:
            viol.append(("convertToBytes(convertFromBytes(b)) != b", _short(b.hex()), _short(back.hex())))
    return viol


def _stretch_ok(L, got, s, e, rate):
    """tolerant oracle for an off-boundary stretch: a contiguous run that starts within one sample of s and whose
    length is within one sample of (e-s)*rate"""
    n = len(L)
    for st in floor_ceil_tol(pos(s, rate)):
        for c in floor_ceil_tol(pos(e, rate) - pos(s, rate)):
            c2 = max(0, min(c, n - st))
            if got == L[st:st + c2]:
                return True
    return False


def eval_file(case):
    """kind 'file': Wav.save / Wav.open / QueryWav / getDuration against the wave module and the list model"""
    w, rate = case["w"], case["rate"]
    L = list(case["samples"])
    viol = []
    fn = _fresh("saved.wav")
    wav = mkwav(L, w, rate)
    try:
        wav.save(fn)
        del wav
        p, b = read_wave(fn)
        if (p.nchannels, p.sampwidth, p.framerate, p.comptype) != (1, w, rate, "NONE") or p.nframes != len(L):
            viol.append(("Wav.save: header parameters of the written file differ (read with the wave module)",
                         repr((1, w, rate, len(L), "NONE")), repr((p.nchannels, p.sampwidth, p.framerate, p.nframes, p.comptype))))
        if b != enc(L, w):
            viol.append(("Wav.save: sample data of the written file differ (read with the wave module)", _short(L), _short(dec(b, w) or b.hex())))
        if viol:
            return viol
        # a file written by the wave module itself
        fn2 = _fresh("indep.wav")
        write_wave(fn2, L, w, rate)
        for f, tag in ((fn, "saved by Wav.save"), (fn2, "written by the wave module")):
            try:
                w2 = audio.Wav.open(f)
            except Exception as e:  # noqa
                viol.append(("Wav.open raises %s" % type(e).__name__, "opens file " + tag, str(e)))
                continue
            if dec(w2.frames, w) != L:
                viol.append(("Wav.open: samples differ", _short(L) + " (" + tag + ")", _short(dec(w2.frames, w) or w2.frames.hex())))
            got = (w2.nchannels, w2.sampleWidth, w2.frameRate, w2.nframes, w2.comptype)
            if got != (1, w, rate, len(L), "NONE"):
                viol.append(("Wav.open: parameters differ", repr((1, w, rate, len(L), "NONE")), repr(got)))
            e = len(L) / rate
            if not abs(w2.duration - e) <= 1e-12 * max(1.0, e):
                viol.append(("duration != samples/rate", repr(e) + " (opened Wav)", repr(w2.duration)))
            try:
                q = audio.QueryWav(f)
            except Exception as ex:  # noqa
                viol.append(("QueryWav raises %s" % type(ex).__name__, "opens file " + tag, str(ex)))
                continue
            try:
                got = (q.nchannels, q.sampleWidth, q.frameRate, q.nframes, q.comptype)
                if got != (1, w, rate, len(L), "NONE"):
                    viol.append(("QueryWav: parameters differ", repr((1, w, rate, len(L), "NONE")), repr(got)))
                if not abs(q.duration - e) <= 1e-12 * max(1.0, e):
                    viol.append(("duration != samples/rate", repr(e) + " (QueryWav)", repr(q.duration)))
                gd = audio.getDuration(f)
                if not abs(gd - e) <= 1e-12 * max(1.0, e):
                    viol.append(("duration != samples/rate", repr(e) + " (audio.getDuration)", repr(gd)))
                whole = q.getFrames()
                if whole != enc(L, w):
                    viol.append(("QueryWav.getFrames(): samples differ", _short(L), _short(dec(whole, w) or whole.hex())))
                for (s, en) in case.get("queries", []):
                    try:
                        got = list(q.getSamples(s, en))
                    except Exception as ex:  # noqa
                        viol.append(("QueryWav.getSamples raises %s" % type(ex).__name__, "samples between %r and %r" % (s, en), str(ex)))
                        continue
                    if is_grid(s, rate) and is_grid(en, rate):
                        i, j = idx_choices(s, rate)[0], idx_choices(en, rate)[0]
                        if got != L[i:j]:
                            viol.append(("QueryWav.getSamples: differs from the list model, times on sample boundaries",
                                         "[%r,%r] of %s -> %r" % (s, en, _short(L, 120), L[i:j]), repr(got)))
                    elif not _stretch_ok(L, got, s, en, rate):
                        viol.append(("QueryWav.getSamples: not a contiguous run within one sample of the requested off-boundary times",
                                     "[%r,%r] of %s" % (s, en, _short(L, 120)), repr(got)))
            finally:
                q.audiofile.close()
    finally:
        for f in (fn, locals().get("fn2")):
            if f and os.path.exists(f):
                os.remove(f)
    return viol


# ---- C16 case generation ---------------------------------------------------------------


def _times_for(n, rate, fracs, with_ties):
    ks = sorted(set([k for k in (0, 1, 2, n // 2, n - 1, n) if 0 <= k <= n]))
    grid = [k / rate for k in ks]
    off = []
    tie = []
    for k in sorted(set([k for k in (0, n // 2, n - 1) if 0 <= k <= n - 1])):
        for f in fracs:
            off.append((k + f) / rate)
        if with_ties:
            tie.append((k + 0.5) / rate)
    return grid, off, tie


def _c16_family(task, col, st):
    kind = task["kind"]
    if kind == "convert":
        w = task["w"]
        vals = task["values"]
        for a in range(0, len(vals), 2048):
            chunk = vals[a:a + 2048]
            st["cases"] += len(chunk)
            st["distinct"] += len(chunk)
            cases = [{"kind": "convert", "w": w, "values": chunk},
                     {"kind": "convert", "w": w, "bytes_hex": enc(chunk, w).hex()}]
            for c in cases:
                if eval_convert(c):
                    # minimise: single values
                    found = 0
                    for v in chunk:
                        c1 = {"kind": "convert", "w": w, "values": [v]} if "values" in c else {"kind": "convert", "w": w, "bytes_hex": enc([v], w).hex()}
                        for (what, e, o) in eval_convert(c1):
                            col.add(what, c1, e, o)
                            found += 1
                        if found >= 12:
                            break
                    if not found:
                        for (what, e, o) in eval_convert(c):
                            col.add(what, c, e, o)
        if not st["samples"]:
            st["samples"].append({"kind": "convert", "w": w, "values": vals[:4]})
        return
    if kind == "single":
        w, rate, L = task["w"], task["rate"], task["samples"]
        n = len(L)
        grid, off, tie = _times_for(n, rate, task["fracs"], rate in DYADIC_RATES)
        T = sorted(set(grid + off + tie))
        insF = task["ins"]
        ops = []
        for a in range(len(T)):
            ops.append(["insert", T[a], insF])
            for b in range(a, len(T)):
                for name in ("getSamples", "getFrames", "getSubwav", "deleteSegment"):
                    ops.append([name, T[a], T[b]])
                ops.append(["replaceSegment", T[a], T[b], insF])
        ops.append(["concatenate", insF])
        for op in ops:
            c = {"kind": "ops", "w": w, "rate": rate, "samples": L, "ops": [op]}
            st["cases"] += 1
            if n and _op_times(op) and len(set(_op_times(op))) == len(_op_times(op)):
                st["distinct"] += 1
            for (what, e, o) in eval_ops(c):
                col.add(what, c, e, o)
        # insert-then-delete law
        for t in T:
            for ins in task["inslist"]:
                c = {"kind": "insdel", "w": w, "rate": rate, "samples": L, "t": t, "ins": ins}
                st["cases"] += 1
                st["distinct"] += 1
                for (what, e, o) in eval_insdel(c):
                    col.add(what, c, e, o)
        if not st["samples"] and n <= 5:
            st["samples"].append({"kind": "ops", "w": w, "rate": rate, "samples": L, "ops": [ops[len(ops) // 2]]})
        return
    if kind == "seq":
        rng = random.Random(task["seed"])
        for _ in range(task["count"]):
            c = _random_seq(rng)
            st["cases"] += 1
            st["distinct"] += 1
            for (what, e, o) in eval_ops(c):
                col.add(what, c, e, o)
            if len(st["samples"]) < 1 and len(c["samples"]) <= 6:
                st["samples"].append(c)
        return
    if kind == "gridscan":
        # every pair of on-boundary times a/rate <= b/rate, in memory and through QueryWav
        w, rate, L = task["w"], task["rate"], task["samples"]
        n = len(L)
        wav = mkwav(L, w, rate)
        fn = cached_wave(L, w, rate)
        q = audio.QueryWav(fn)
        try:
            for a in task["starts"]:
                s = a / rate
                for b in range(a, n + 1):
                    e = b / rate
                    st["cases"] += 2
                    st["distinct"] += 2
                    bad = False
                    try:
                        bad = list(wav.getSamples(s, e)) != L[a:b]
                    except Exception:  # noqa
                        bad = True
                    if bad:
                        c = {"kind": "ops", "w": w, "rate": rate, "samples": L, "ops": [["getSamples", s, e]]}
                        for (what, ex, o) in eval_ops(c):
                            col.add(what, c, ex, o)
                    try:
                        bad = list(q.getSamples(s, e)) != L[a:b]
                    except Exception:  # noqa
                        bad = True
                    if bad:
                        c = {"kind": "file", "w": w, "rate": rate, "samples": L, "queries": [[s, e]]}
                        for (what, ex, o) in eval_file(c):
                            col.add(what, c, ex, o)
        finally:
            q.audiofile.close()
        return
    if kind == "file":
        for c in task["cases"]:
            st["cases"] += 1
            st["distinct"] += 1
            v = eval_file(c)
            if v:
                c2 = dict(c, queries=[])
                v2 = eval_file(c2)
                if v2:
                    c, v = c2, v2
            for (what, e, o) in v:
                col.add(what, c, e, o)
        if task["cases"] and not st["samples"]:
            small = [c for c in task["cases"] if len(c["samples"]) <= 6]
            if small:
                st["samples"].append(small[0])
        return
    raise ValueError(kind)


def _rand_time(rng, n, rate, mode):
    """a time in [0, n/rate]; mode 'grid' or 'mixed' (never a half-sample tie)"""
    if n == 0 or mode == "grid" or rng.random() < 0.4:
        return rng.randint(0, n) / rate
    k = rng.randint(0, n - 1)
    f = rng.choice((0.05, 0.1, 0.2, 0.25, 0.3, 0.4, 0.6, 0.7, 0.75, 0.8, 0.9, 0.95,
                    round(rng.uniform(0.02, 0.45), 3), round(rng.uniform(0.55, 0.98), 3)))
    return (k + f) / rate


def _random_seq(rng):
    w = rng.choice(WIDTHS)
    rate = rng.choice(DYADIC_RATES + OTHER_RATES)
    n = rng.choice((0, 1, 2, 3, 5, 8, 13, 20, 20, 50, 120, 400))
    skind = rng.choice(("ramp", "extremes", "random"))
    L = make_samples(skind, n, w, rng)
    # width 1 and grid-only sequences run through all 6 steps on every tree
    mode = rng.choice(("grid", "mixed", "mixed")) if w > 1 else rng.choice(("grid", "mixed", "mixed", "mixed"))
    nops = rng.randint(1, 6)
    ops = []
    cur = n
    for _ in range(nops):
        name = rng.choice(("getSamples", "getFrames", "getSubwav", "deleteSegment", "insert", "replaceSegment", "concatenate",
                           "deleteSegment", "insert", "replaceSegment"))
        F = make_samples(rng.choice(("extremes", "random")), rng.choice((0, 1, 1, 2, 3, 7)), w, rng)
        if name == "concatenate":
            ops.append([name, F])
            cur += len(F)
            continue
        a = _rand_time(rng, cur, rate, mode)
        b = _rand_time(rng, cur, rate, mode)
        s, e = min(a, b), max(a, b)
        if name == "insert":
            ops.append([name, s, F])
            cur += len(F)
        elif name == "replaceSegment":
            ops.append([name, s, e, F])
            i, j = idx_choices(s, rate)[0], idx_choices(e, rate)[0]
            cur += len(F) - (j - i)
        elif name == "deleteSegment":
            ops.append([name, s, e])
            i, j = idx_choices(s, rate)[0], idx_choices(e, rate)[0]
            cur -= (j - i)
        else:
            ops.append([name, s, e])
    return {"kind": "ops", "w": w, "rate": rate, "samples": L, "ops": ops}


FAMILIES["c16"] = _c16_family


def run_c16(tier, seed, jobs):
    t0 = time.time()
    rng = random.Random(seed)
    thorough = tier == "thorough"
    tasks = []
    # conversions: widths 1 and 2 exhaustively, width 4 at the range ends and sampled
    tasks.append({"kind": "convert", "w": 1, "values": list(range(lo(1), hi(1) + 1))})
    all2 = list(range(lo(2), hi(2) + 1))
    for a in range(0, len(all2), 16384):
        tasks.append({"kind": "convert", "w": 2, "values": all2[a:a + 16384]})
    v4 = set()
    for k in range(0, 200):
        v4.update((lo(4) + k, hi(4) - k, -hi(4) + k, k, -k))
    for b in range(1, 31):
        v4.update((2 ** b, 2 ** b - 1, 2 ** b + 1, -(2 ** b), -(2 ** b) - 1, -(2 ** b) + 1))
    v4 = sorted(v for v in v4 if lo(4) <= v <= hi(4))
    v4 += [rng.randint(lo(4), hi(4)) for _ in range(20000 if thorough else 4000)]
    tasks.append({"kind": "convert", "w": 4, "values": v4})
    nconv = 256 + 65536 + len(v4)
    # single operations + insert/delete law over a small time grid
    rates = (8, 16, 1024, 8000, 16000, 44100) if thorough else (8, 1024, 8000, 44100)
    sizes = (1, 2, 3, 5, 17, 64, 400) if thorough else (1, 2, 5, 17, 400)
    fracs = (0.1, 0.2, 0.25, 0.3, 0.45, 0.55, 0.7, 0.75, 0.9) if thorough else (0.25, 0.3, 0.6, 0.9)
    for w in WIDTHS:
        for rate in rates:
            for n in sizes:
                for skind in (("ramp", "extremes") if thorough or n <= 17 else ("extremes",)):
                    L = make_samples(skind, n, w, rng)
                    tasks.append({"kind": "single", "w": w, "rate": rate, "samples": L, "fracs": fracs,
                                  "ins": [hi(w), lo(w), 0][: (3 if n != 2 else 1)],
                                  "inslist": [[hi(w)], [lo(w), 5], [1, 2, 3], [7, lo(w), hi(w), 0, -1]]})
    # random sequences of <= 6 operations
    nseq = 100000 if thorough else 12000
    per = 500
    for a in range(0, nseq, per):
        tasks.append({"kind": "seq", "seed": rng.randrange(2 ** 31), "count": per})
    # files: every length 0..400 at every rate (whether n/rate*rate comes back as n is input dependent)
    fcases = []
    for rate in DYADIC_RATES + OTHER_RATES:
        for n in range(0, 401):
            for w in (WIDTHS if thorough else (WIDTHS[(n + rate) % 3],)):
                L = make_samples(("ramp", "extremes", "random")[n % 3], n, w, rng)
                qs = []
                for _ in range(3):
                    a, b = _rand_time(rng, n, rate, "mixed"), _rand_time(rng, n, rate, "mixed")
                    qs.append([min(a, b), max(a, b)])
                qs.append([0.0, n / rate])
                fcases.append({"kind": "file", "w": w, "rate": rate, "samples": L, "queries": qs})
    nfile = len(fcases)
    for a in range(0, len(fcases), 100):
        tasks.append({"kind": "file", "cases": fcases[a:a + 100]})
    # every pair of sample boundaries of a 400-sample recording
    for rate in DYADIC_RATES + OTHER_RATES:
        for w in (WIDTHS if thorough else (WIDTHS[rate % 3],)):
            L = make_samples("ramp", 400, w, rng)
            allst = list(range(0, 401)) if thorough else list(range(0, 401, 5)) + [399]
            for a in range(0, len(allst), 41):
                tasks.append({"kind": "gridscan", "w": w, "rate": rate, "samples": L, "starts": allst[a:a + 41]})
    cases, distinct, viols, samples, _ = _run_tasks("c16", tasks, jobs)
    return {
        "report": {
            "what": "C16: Wav.getFrames/getSamples/getSubwav/deleteSegment/insert/replaceSegment/concatenate, duration, "
                    "convertToBytes/convertFromBytes, insert-then-delete, save/open/QueryWav vs a list-of-samples model "
                    "with every time mapped to the nearest sample index (exact rational arithmetic; both neighbours accepted at half-sample ties)",
            "bound": "mono; widths {1,2,4}; rates %s; conversions: all 256 / all 65536 values for widths 1/2, %d values for width 4 "
                     "(200 at each range end, 2^b+-1, random); single operations: sample arrays of sizes %s (ramp, extremes) x all ordered pairs of times from "
                     "{0,1,2,n/2,n-1,n}/rate, (k+f)/rate f in %s, half-sample ties (k+0.5)/rate at dyadic rates x 5 operations, insert-then-delete with 1,2,3,5 "
                     "inserted samples at each of these times; %d random sequences of 1..6 operations (n<=400, no ties); %d save/open/QueryWav round trips "
                     "(every length 0..400 at each of the 6 rates, 4 queries each); getSamples in memory and through QueryWav for %s pairs of sample "
                     "boundaries of a 400-sample recording at each rate; seed %d"
                     % (list(rates), len(v4), list(sizes), list(fracs), nseq, nfile, "all" if thorough else "every 5th start x all end", seed),
            "cases": cases, "distinct": distinct, "exhaustive": False,
            "wall_s": round(time.time() - t0, 2), "samples": samples,
        },
        "violations": viols,
    }


# ----------------------------------------------------------------------------------------
# C17
# ----------------------------------------------------------------------------------------


def _num(x):
    """decimal text without exponent (Praat number syntax)"""
    if isinstance(x, int):
        return str(x)
    return format(Decimal(repr(float(x))), "f")


def _q(label):
    return '"' + label.replace('"', '""') + '"'


def write_textgrid_long(fn, xmin, xmax, tiers):
    """Praat long text format (manual page 'TextGrid file formats'); interval tiers are written gap-free,
    with empty-text intervals in the gaps, as Praat itself does"""
    out = ['File type = "ooTextFile"', 'Object class = "TextGrid"', "",
           "xmin = %s " % _num(xmin), "xmax = %s " % _num(xmax), "tiers? <exists> ",
           "size = %d " % len(tiers), "item []: "]
    for ti, t in enumerate(tiers):
        out.append("    item [%d]:" % (ti + 1))
        if t["type"] == "interval":
            full = []
            cur = xmin
            for (a, b, lab) in t["entries"]:
                if a > cur:
                    full.append((cur, a, ""))
                full.append((a, b, lab))
                cur = b
            if cur < xmax:
                full.append((cur, xmax, ""))
            out += ['        class = "IntervalTier" ', "        name = %s " % _q(t["name"]),
                    "        xmin = %s " % _num(xmin), "        xmax = %s " % _num(xmax),
                    "        intervals: size = %d " % len(full)]
            for k, (a, b, lab) in enumerate(full):
                out += ["        intervals [%d]:" % (k + 1), "            xmin = %s " % _num(a),
                        "            xmax = %s " % _num(b), "            text = %s " % _q(lab)]
        else:
            out += ['        class = "TextTier" ', "        name = %s " % _q(t["name"]),
                    "        xmin = %s " % _num(xmin), "        xmax = %s " % _num(xmax),
                    "        points: size = %d " % len(t["entries"])]
            for k, (a, lab) in enumerate(t["entries"]):
                out += ["        points [%d]:" % (k + 1), "            number = %s " % _num(a),
                        "            mark = %s " % _q(lab)]
    with open(fn, "w", encoding="utf-8") as f:
        f.write("\n".join(out) + "\n")


def read_textgrid_short(fn):
    """reader for Praat's short text format (values only, one per line); labels without line breaks"""
    with open(fn, "r", encoding="utf-8") as f:
        lines = [ln.strip() for ln in f.read().split("\n")]
    lines = [ln for ln in lines if ln != ""]
    if len(lines) < 2 or "ooTextFile" not in lines[0] or "TextGrid" not in lines[1]:
        raise ValueError("not a TextGrid text file: %r" % lines[:2])
    toks = lines[2:]
    p = [0]

    def nxt():
        v = toks[p[0]]
        p[0] += 1
        return v

    def num():
        return float(nxt())

    def string():
        v = nxt()
        if not (len(v) >= 2 and v[0] == '"' and v[-1] == '"'):
            raise ValueError("expected a quoted string, got %r" % v)
        return v[1:-1].replace('""', '"')

    tg = {"xmin": num(), "xmax": num(), "tiers": []}
    if nxt() != "<exists>":
        raise ValueError("missing <exists>")
    nt = int(nxt())
    for _ in range(nt):
        cls = string()
        t = {"class": cls, "name": string(), "xmin": num(), "xmax": num(), "entries": []}
        cnt = int(nxt())
        for _ in range(cnt):
            if cls == "IntervalTier":
                a, b = num(), num()
                t["entries"].append((a, b, string()))
            elif cls == "TextTier":
                a = num()
                t["entries"].append((a, string()))
            else:
                raise ValueError("unknown tier class %r" % cls)
        tg["tiers"].append(t)
    if p[0] != len(toks):
        raise ValueError("trailing text after the last tier")
    return tg


def _partition(case):
    """the keep/delete stretches of the recording, from the case alone"""
    rate, n = case["rate"], len(case["samples"])
    dur = n / rate
    iv = [tuple(x) for x in case["intervals"]]
    comp = []
    cur = 0.0
    for (a, b) in iv:
        if a > cur:
            comp.append((cur, a))
        cur = b
    if cur < dur:
        comp.append((cur, dur))
    mode = case["mode"]
    if mode == "keep":
        st = [(a, b, "keep") for a, b in iv] + [(a, b, "delete") for a, b in comp]
    elif mode == "delete":
        st = [(a, b, "delete") for a, b in iv] + [(a, b, "keep") for a, b in comp]
    else:
        st = [(0.0, dur, "keep")] if n else []
    return sorted(st)


def _match_stretches(L, got, stretches, rate, replace):
    """does `got` consist of the stretches in order? strict for stretches whose ends are on sample positions,
    within one sample (start and length) otherwise"""
    n = len(L)

    def rec(k, p):
        if k == len(stretches):
            return p == len(got)
        s, e, lab = stretches[k]
        strict = is_grid(s, rate) and is_grid(e, rate)
        xs, xe = pos(s, rate), pos(e, rate)
        if lab == "keep":
            starts = (round(xs),) if strict else floor_ceil_tol(xs)
            counts = (round(xe) - round(xs),) if strict else floor_ceil_tol(xe - xs)
            for a in starts:
                for c in counts:
                    c2 = max(0, min(c, n - a))
                    if got[p:p + c2] == L[a:a + c2] and p + c2 <= len(got) and rec(k + 1, p + c2):
                        return True
            return False
        if replace is None:
            return rec(k + 1, p)
        counts = (round(xe) - round(xs),) if strict else floor_ceil_tol(xe - xs)
        for c in counts:
            if p + c > len(got):
                continue
            if replace == "silence" and any(v != 0 for v in got[p:p + c]):
                continue
            if rec(k + 1, p + c):
                return True
        return False

    return rec(0, 0)


def _replace_func(case):
    rep = case.get("replace")
    if rep is None:
        return None
    gen = audio.AudioGenerator(case["w"], case["rate"])
    if rep == "silence":
        return gen.generateSilence
    return gen.buildSineWaveGenerator(rep[1], rep[2])


def eval_rfat(case):
    """kind 'rfat': audio.readFramesAtTimes on a file written with the wave module"""
    w, rate = case["w"], case["rate"]
    L = list(case["samples"])
    fn = cached_wave(L, w, rate)
    af = wave.open(fn, "rb")
    try:
        kw = {}
        mode = case["mode"]
        if mode == "keep":
            kw["keepIntervals"] = [tuple(x) for x in case["intervals"]]
        elif mode == "delete":
            kw["deleteIntervals"] = [tuple(x) for x in case["intervals"]]
        elif mode == "both":
            kw["keepIntervals"] = [tuple(x) for x in case["intervals"]]
            kw["deleteIntervals"] = [tuple(x) for x in case["intervals2"]]
        elif mode == "delete_empty":
            kw["deleteIntervals"] = []
        rf = _replace_func(case)
        if rf is not None:
            kw["replaceFunc"] = rf
        exc = None
        try:
            got = audio.readFramesAtTimes(af, **kw)
        except Exception as e:  # noqa
            exc = e
    finally:
        af.close()
    expect = case.get("expect")
    if expect == "ArgumentError":
        reason = "both keepIntervals and deleteIntervals given" if mode == "both" else "times beyond the recording"
        if isinstance(exc, errors.ArgumentError):
            return []
        return [("readFramesAtTimes: %s not rejected with ArgumentError" % reason, "ArgumentError",
                 "%s: %s" % (type(exc).__name__, exc) if exc else "returned %d bytes" % len(got))]
    rep = case.get("replace")
    repkind = None if rep is None else ("silence" if rep == "silence" else "sine")
    grid = all(is_grid(t, rate) for iv in case["intervals"] for t in iv)
    tag = "boundaries on sample positions" if grid else "off-sample boundaries"
    if exc is not None:
        return [("readFramesAtTimes raises %s, %s" % (type(exc).__name__, tag), "a byte string", "%s: %s" % (type(exc).__name__, exc))]
    g = dec(got, w)
    if g is None:
        return [("readFramesAtTimes: result is not a whole number of samples", "multiple of %d bytes" % w, "%d bytes" % len(got))]
    stretches = _partition(dict(case, mode="none" if mode == "delete_empty" else mode))
    if _match_stretches(L, g, stretches, rate, repkind):
        return []
    what = "readFramesAtTimes: result is not exactly the kept samples in order"
    if repkind:
        what = "readFramesAtTimes with replacement: kept samples or length of the replaced stretches wrong"
    return [("%s, %s" % (what, tag),
             "stretches %r of %s" % ([(a * rate, b * rate, lab) for a, b, lab in stretches], _short(L, 150)), _short(g, 300))]


def eval_extract(case):
    """kind 'extract': audio.extractSubwav"""
    w, rate, s, e = case["w"], case["rate"], case["s"], case["e"]
    L = list(case["samples"])
    fn = cached_wave(L, w, rate)
    out = _fresh("sub.wav")
    try:
        try:
            audio.extractSubwav(fn, out, s, e)
        except Exception as ex:  # noqa
            return [("extractSubwav raises %s" % type(ex).__name__, "a file", "%s: %s" % (type(ex).__name__, ex))]
        return _check_subwav(out, L, w, rate, s, e, "extractSubwav")
    finally:
        if os.path.exists(out):
            os.remove(out)


def _check_subwav(out, L, w, rate, s, e, who):
    if not os.path.exists(out):
        return [("%s: no file written" % who, out, "missing")]
    try:
        p, b = read_wave(out)
    except Exception as ex:  # noqa
        return [("%s: written file unreadable with the wave module" % who, "a wav file", "%s: %s" % (type(ex).__name__, ex))]
    viol = []
    if (p.nchannels, p.sampwidth, p.framerate, p.comptype) != (1, w, rate, "NONE"):
        viol.append(("%s: parameters of the written file differ from the source" % who, repr((1, w, rate, "NONE")),
                     repr((p.nchannels, p.sampwidth, p.framerate, p.comptype))))
    g = dec(b, w) if p.sampwidth == w else None
    if g is None or p.nframes * w != len(b):
        viol.append(("%s: written file has inconsistent length" % who, "nframes*width == data size", "nframes %d, %d bytes" % (p.nframes, len(b))))
        return viol
    if is_grid(s, rate) and is_grid(e, rate):
        i, j = round(pos(s, rate)), round(pos(e, rate))
        if g != L[i:j]:
            viol.append(("%s: file does not hold exactly the source samples of the interval, boundaries on sample positions" % who,
                         "[%r,%r] -> samples %d..%d = %s" % (s, e, i, j, _short(L[i:j], 150)), _short(g, 200)))
    elif not _stretch_ok(L, g, s, e, rate):
        viol.append(("%s: file is not a contiguous run within one sample of the requested off-sample boundaries" % who,
                     "[%r,%r] of %s" % (s, e, _short(L, 150)), _short(g, 200)))
    return viol


def _teq(a, b, exact):
    if exact:
        # equal, or equal up to the writer's snapping of numbers within 1e-14 (relative) of an integer to that
        # integer and the one-ulp error of the float subtraction that produced the expected value (C01 accepts both)
        return a == b or abs(a - b) <= 1e-13 * max(1.0, abs(a), abs(b))
    return abs(a - b) <= 1e-9


def eval_split(case):
    """kind 'split': praatio_scripts.splitAudioOnTier"""
    import contextlib
    import io
    import re

    w, rate = case["w"], case["rate"]
    L = list(case["samples"])
    n = len(L)
    dur = n / rate
    exact = rate in DYADIC_RATES
    d = _fresh("split")
    os.makedirs(d)
    outdir = os.path.join(d, "out")
    name = case.get("name", "rec")
    wavfn = os.path.join(d, name + ".wav")
    tgfn = os.path.join(d, name + ".TextGrid")
    write_wave(wavfn, L, w, rate)
    tiers = [dict(t) for t in case["tiers"]]
    write_textgrid_long(tgfn, 0, dur, tiers)
    target = [t for t in tiers if t["name"] == case["target"]][0]
    ents = [tuple(x) for x in target["entries"]]
    if case.get("silenceLabel") is not None:
        ents = [x for x in ents if x[2] != case["silenceLabel"]]
    tgflag = case["tgflag"]
    viol = []
    try:
        exc = None
        try:
            with contextlib.redirect_stdout(io.StringIO()):
                praatio_scripts.splitAudioOnTier(wavfn, tgfn, case["target"], outdir, tgflag, case["nameStyle"],
                                                 case["noPartial"], case.get("silenceLabel"))
        except Exception as ex:  # noqa
            exc = ex
        if exc is not None:
            if not ents:
                return [("splitAudioOnTier: tier without entries to extract raises %s instead of writing no file" % type(exc).__name__,
                         "no file, no error", "%s: %s" % (type(exc).__name__, exc))]
            return [("splitAudioOnTier raises %s" % type(exc).__name__, "%d files" % len(ents), "%s: %s" % (type(exc).__name__, exc))]
        files = sorted(os.listdir(outdir)) if os.path.isdir(outdir) else []
        wavs = [f for f in files if f.endswith(".wav")]
        tgs = [f for f in files if f.endswith(".TextGrid")]
        if len(wavs) != len(ents) or len(tgs) != (len(ents) if tgflag is not False else 0) or len(files) != len(wavs) + len(tgs):
            return [("splitAudioOnTier: not one file per entry", "%d wav, %d TextGrid" % (len(ents), len(ents) if tgflag is not False else 0), repr(files))]
        # which file belongs to which entry (naming according to the documented name styles)
        ns = case["nameStyle"]
        stems = []
        if ns == "label":
            stems = [lab for (_, _, lab) in ents]
        elif ns == "append_no_i":
            stems = ["%s_%s" % (name, lab) for (_, _, lab) in ents]
        else:
            pat = re.compile(r"^%s_(\d+)%s$" % (re.escape(name), "_(.*)" if ns == "append" else "()"))
            found = []
            for f in wavs:
                m = pat.match(f[:-4])
                if not m:
                    return [("splitAudioOnTier: output name does not follow the documented name style", "%s_<number>%s.wav" % (name, "_<label>" if ns == "append" else ""), f)]
                found.append((int(m.group(1)), f[:-4], m.group(2)))
            found.sort()
            if len(set(x[0] for x in found)) != len(found):
                return [("splitAudioOnTier: output name does not follow the documented name style", "distinct interval numbers", repr(wavs))]
            stems = [x[1] for x in found]
            if ns == "append" and [x[2] for x in found] != [lab for (_, _, lab) in ents]:
                return [("splitAudioOnTier: output name does not follow the documented name style", "labels in entry order", repr(wavs))]
        for (s, e, lab), stem in zip(ents, stems):
            v = _check_subwav(os.path.join(outdir, stem + ".wav"), L, w, rate, s, e, "splitAudioOnTier")
            if v:
                return v
            if tgflag is False:
                continue
            tf = os.path.join(outdir, stem + ".TextGrid")
            if not os.path.exists(tf):
                return [("splitAudioOnTier: not one file per entry", stem + ".TextGrid", repr(files))]
            try:
                tg = read_textgrid_short(tf)
            except Exception as ex:  # noqa
                return [("splitAudioOnTier: cropped TextGrid is not a readable short-format TextGrid", "short text format", "%s: %s" % (type(ex).__name__, ex))]
            length = e - s
            if not (_teq(tg["xmin"], 0.0, exact) and _teq(tg["xmax"], length, exact)):
                return [("splitAudioOnTier: cropped TextGrid does not span exactly [0, interval length]", "[0, %r] for entry %r" % (length, (s, e, lab)),
                         "[%r, %r]" % (tg["xmin"], tg["xmax"]))]
            wantnames = [t["name"] for t in tiers] if tgflag is True else [tgflag]
            if [t["name"] for t in tg["tiers"]] != wantnames:
                return [("splitAudioOnTier: cropped TextGrid has the wrong tiers", repr(wantnames), repr([t["name"] for t in tg["tiers"]]))]
            for t in tg["tiers"]:
                src = [x for x in tiers if x["name"] == t["name"]][0]
                if src["type"] == "interval":
                    if t["class"] != "IntervalTier":
                        return [("splitAudioOnTier: cropped TextGrid has the wrong tiers", "IntervalTier " + t["name"], t["class"])]
                    want = []
                    for (a, b, l2) in src["entries"]:
                        if a >= s and b <= e:
                            want.append((a - s, b - s, l2))
                        elif b <= s or a >= e:
                            continue
                        elif not case["noPartial"]:
                            want.append((max(a, s) - s, min(b, e) - s, l2))
                    got = [x for x in t["entries"] if x[2] != ""]
                    okk = len(got) == len(want) and all(_teq(g[0], x[0], exact) and _teq(g[1], x[1], exact) and g[2] == x[2] for g, x in zip(got, want))
                    if not okk:
                        if t["name"] == case["target"]:
                            return [("splitAudioOnTier: cropped TextGrid does not contain the entry's label over [0, interval length]",
                                     repr(want), repr(got))]
                        return [("splitAudioOnTier: entries of a non-target tier in the cropped TextGrid differ (noPartialIntervals=%s)" % case["noPartial"],
                                 "entry %r, tier %s -> %r" % ((s, e, lab), t["name"], want), repr(got))]
                    # praat-conformant: intervals cover the tier without gaps
                    allx = t["entries"]
                    if allx and not (_teq(allx[0][0], 0.0, exact) and _teq(allx[-1][1], length, exact)
                                     and all(_teq(allx[k][1], allx[k + 1][0], exact) for k in range(len(allx) - 1))):
                        return [("splitAudioOnTier: cropped TextGrid tier does not cover [0, interval length]", "[0,%r] without gaps" % length, repr(allx))]
                else:
                    if t["class"] != "TextTier":
                        return [("splitAudioOnTier: cropped TextGrid has the wrong tiers", "TextTier " + t["name"], t["class"])]
                    want = [(a - s, l2) for (a, l2) in src["entries"] if s < a < e]
                    got = [x for x in t["entries"] if not (_teq(x[0], 0.0, exact) or _teq(x[0], length, exact))]
                    bad = any(not (0 <= x[0] <= length + 1e-9) for x in t["entries"])
                    if bad or len(got) != len(want) or not all(_teq(g[0], x[0], exact) and g[1] == x[1] for g, x in zip(got, want)):
                        return [("splitAudioOnTier: points of a point tier in the cropped TextGrid differ",
                                 "entry %r, tier %s -> %r" % ((s, e, lab), t["name"], want), repr(t["entries"]))]
        return viol
    finally:
        shutil.rmtree(d, ignore_errors=True)


def eval_gen(case):
    """kind 'gen': AudioGenerator.generateSilence / generateSineWave produce round(rate*duration) samples"""
    w, rate, dur = case["w"], case["rate"], case["dur"]
    x = Fraction(dur) * rate
    fl = math.floor(x)
    fr = x - fl
    want = (fl, fl + 1) if abs(fr - HALF) <= EPS else ((fl,) if fr < HALF else (fl + 1,))
    if case.get("fromwav"):
        gen = audio.AudioGenerator.fromWav(mkwav([0, 1], w, rate))
    else:
        gen = audio.AudioGenerator(w, rate)
    try:
        if case["what"] == "silence":
            b = gen.generateSilence(dur)
        else:
            b = gen.generateSineWave(dur, case["freq"], case.get("amp"))
    except Exception as ex:  # noqa
        return [("%s raises %s" % (case["what"], type(ex).__name__), "%s samples" % (want,), "%s: %s" % (type(ex).__name__, ex))]
    g = dec(b, w)
    if g is None or len(g) not in want:
        return [("generated %s does not have round(rate x duration) samples" % case["what"], "%s samples of %d bytes" % (" or ".join(map(str, want)), w),
                 "%d bytes" % len(b))]
    if case["what"] == "silence" and any(v != 0 for v in g):
        return [("generated silence is not all zero", "zeros", _short(g))]
    return []


def _disjoint_lists(n, maxk):
    """all lists of <= maxk disjoint (possibly touching) intervals with integer ends in 0..n"""
    out = [[]]

    def rec(start, cur):
        if len(cur) == maxk:
            return
        for a in range(start, n):
            for b in range(a + 1, n + 1):
                nxt = cur + [(a, b)]
                out.append(nxt)
                rec(b, nxt)

    rec(0, [])
    return out


def _c17_family(task, col, st):
    kind = task["kind"]

    def run(c, fn):
        st["cases"] += 1
        v = fn(c)
        for (what, e, o) in v:
            col.add(what, c, e, o)
        return v

    if kind == "rfat_enum":
        w, rate, n = task["w"], task["rate"], task["n"]
        L = task["samples"]
        lists = _disjoint_lists(n, task["maxk"])
        for iv in lists:
            for f in task["fracs"]:
                if f and not iv:
                    continue
                tiv = [[(a + (f if a < n else 0)) / rate, (b + (f if b < n else 0)) / rate] for a, b in iv]
                if any(a >= b for a, b in tiv):
                    continue
                for mode in ("keep", "delete"):
                    if not iv:
                        if mode == "keep":
                            continue
                        mode = "delete_empty"
                    for rep in task["reps"]:
                        c = {"kind": "rfat", "w": w, "rate": rate, "samples": L, "mode": mode, "intervals": tiv, "replace": rep}
                        run(c, eval_rfat)
                        st["distinct"] += 1
                        if not st["samples"] and len(iv) == 2 and f == 0 and rep == "silence":
                            st["samples"].append(c)
        c = {"kind": "rfat", "w": w, "rate": rate, "samples": L, "mode": "none", "intervals": [], "replace": None}
        run(c, eval_rfat)
        # rejected inputs
        for rep in task["reps"]:
            for iv in lists[1:40:3]:
                tiv = [[a / rate, b / rate] for a, b in iv]
                for iv2 in ([[0.0, 1 / rate]], tiv):
                    c = {"kind": "rfat", "w": w, "rate": rate, "samples": L, "mode": "both", "intervals": tiv, "intervals2": iv2,
                         "replace": rep, "expect": "ArgumentError"}
                    run(c, eval_rfat)
                    st["distinct"] += 1
            for mode in ("keep", "delete"):
                for a in (0, 1, n - 1):
                    for over in (0.25, 0.5, 1, 3):
                        for pre in ([], [[0.0, 1 / rate]] if a >= 1 else []):
                            if a >= n + over:
                                continue
                            c = {"kind": "rfat", "w": w, "rate": rate, "samples": L, "mode": mode,
                                 "intervals": pre + [[a / rate, (n + over) / rate]], "replace": rep, "expect": "ArgumentError"}
                            run(c, eval_rfat)
                            st["distinct"] += 1
        return
    rng = random.Random(task.get("seed", 0))
    if kind == "rfat_rand":
        for _ in range(task["count"]):
            w = rng.choice(WIDTHS)
            rate = rng.choice(DYADIC_RATES + OTHER_RATES)
            n = rng.choice((1, 2, 3, 8, 20, 50, 133, 400))
            L = make_samples(rng.choice(("ramp", "extremes", "random")), n, w, rng)
            k = rng.randint(1, 5)
            grid = rng.random() < 0.6
            pts = sorted(rng.randint(0, n) for _ in range(2 * k))
            iv = []
            for a, b in zip(pts[0::2], pts[1::2]):
                if a < b:
                    iv.append((a, b))
            if not grid:
                f = rng.choice((0.1, 0.25, 0.3, 0.5, 0.6, 0.75, 0.9))
                tiv = [[(a + (f if a < n else 0)) / rate, (b + (f if b < n else 0)) / rate] for a, b in iv]
                tiv = [x for x in tiv if x[0] < x[1]]
            else:
                tiv = [[a / rate, b / rate] for a, b in iv]
            if not tiv:
                continue
            c = {"kind": "rfat", "w": w, "rate": rate, "samples": L, "mode": rng.choice(("keep", "delete")), "intervals": tiv,
                 "replace": rng.choice((None, "silence", ["sine", 200, None], ["sine", 3, 100]))}
            run(c, eval_rfat)
            st["distinct"] += 1
        return
    if kind == "extract":
        w, rate, L = task["w"], task["rate"], task["samples"]
        n = len(L)
        for a in task["starts"]:
            for b in range(a + 1, n + 1):
                c = {"kind": "extract", "w": w, "rate": rate, "samples": L, "s": a / rate, "e": b / rate}
                run(c, eval_extract)
                st["distinct"] += 1
                if task.get("off") and (a + b) % task["off"] == 0 and b < n:
                    for f in (0.3, 0.5, 0.75):
                        c = {"kind": "extract", "w": w, "rate": rate, "samples": L, "s": (a + f) / rate, "e": (b + rng.choice((0, f, 0.1))) / rate}
                        run(c, eval_extract)
                        st["distinct"] += 1
        if not st["samples"] and n <= 12:
            st["samples"].append({"kind": "extract", "w": w, "rate": rate, "samples": L, "s": 1 / rate, "e": 3 / rate})
        return
    if kind == "split":
        for c in task["cases"]:
            v = run(c, eval_split)
            st["distinct"] += 1
            if not st["samples"] and len(c["samples"]) <= 24 and not v:
                st["samples"].append(c)
        return
    if kind == "gen":
        w, rate = task["w"], task["rate"]
        durs = [k / rate for k in range(0, task["maxn"] + 1)]
        for k in range(0, task["maxn"], 7):
            for f in (0.1, 0.25, 0.4, 0.5, 0.6, 0.75, 0.9):
                durs.append((k + f) / rate)
        durs += [d for d in (0.001, 0.002, 0.005, 0.01, 0.0123, 0.05, 0.1) if d * rate <= 4500]
        for d in durs:
            for what in ("silence", "sine"):
                c = {"kind": "gen", "w": w, "rate": rate, "dur": d, "what": what, "fromwav": (len(durs) % 2 == 0)}
                if what == "sine":
                    c["freq"] = 200 if rate > 1000 else 2
                    c["amp"] = None if int(d * rate) % 2 else hi(w) // 3
                run(c, eval_gen)
                st["distinct"] += 1
        return
    raise ValueError(kind)


FAMILIES["c17"] = _c17_family


def _split_cases(rng, count):
    cases = []
    styles = (None, "append", "append_no_i", "label")
    k = 0
    while len(cases) < count:
        k += 1
        w = WIDTHS[k % 3]
        rate = (DYADIC_RATES + OTHER_RATES)[(k // 3) % 6]
        grid = (k % 5) != 0
        n = rng.choice((12, 24, 60, 200, 400))
        L = make_samples(rng.choice(("ramp", "extremes", "random")), n, w, rng)
        # target tier: disjoint entries, some touching, sometimes at the edges, sometimes none
        ne = rng.choice((0, 1, 1, 2, 3, 4, 6, 11)) if k % 9 else 0
        ne = min(ne, n // 2)
        pts = sorted(rng.sample(range(0, n + 1), min(2 * ne, n + 1)))
        ents = []
        for a, b in zip(pts[0::2], pts[1::2]):
            ents.append([a, b])
        if ents and rng.random() < 0.3:
            ents[0][0] = 0
        if ents and rng.random() < 0.3:
            ents[-1][1] = n
        for i in range(len(ents) - 1):
            if rng.random() < 0.3:
                ents[i][1] = ents[i + 1][0]
        f = 0 if grid else rng.choice((0.25, 0.3, 0.5, 0.7))
        labs = ["w%c%d" % ("abcdefghijklmnop"[i % 16], i) for i in range(len(ents))]
        silence = None
        if ents and rng.random() < 0.25:
            silence = "sil"
            for i in range(len(ents)):
                if rng.random() < 0.3:
                    labs[i] = "sil"
        tgt = [[(a + (f if a < n else 0)) / rate, (b + (f if b < n else 0)) / rate, lab] for (a, b), lab in zip(ents, labs)]
        tgt = [x for x in tgt if x[0] < x[1]]
        tiers = [{"name": "words", "type": "interval", "entries": tgt}]
        # another interval tier: finer entries under some target entries only, entries straddling target boundaries
        other = []
        cur = 0
        style = rng.choice(("fine", "sparse", "empty", "straddle"))
        if style != "empty":
            while cur < n:
                step = rng.randint(1, max(1, n // (12 if style == "fine" else 4)))
                a, b = cur, min(n, cur + step)
                cur = b + (rng.randint(0, n // 3) if style == "sparse" else rng.choice((0, 0, 1)))
                if a < b:
                    other.append([a / rate, b / rate, "p%d" % len(other)])
        otiers = [{"name": "phones", "type": "interval", "entries": other}]
        if rng.random() < 0.6:
            pn = rng.choice((0, 1, 3, 8))
            ptt = sorted(set(rng.randint(0, 2 * n) for _ in range(pn)))
            otiers.append({"name": "marks", "type": "point", "entries": [[t / (2 * rate), "m%d" % i] for i, t in enumerate(ptt)]})
        if rng.random() < 0.5:
            tiers = otiers[:1] + tiers + otiers[1:]
        else:
            tiers = tiers + otiers
        cases.append({"kind": "split", "w": w, "rate": rate, "samples": L, "name": "rec", "tiers": tiers, "target": "words",
                      "nameStyle": styles[k % 4], "noPartial": bool((k // 4) % 2),
                      "tgflag": (False, True, True, "phones", "words")[(k // 8) % 5], "silenceLabel": silence})
    return cases


def run_c17(tier, seed, jobs):
    t0 = time.time()
    rng = random.Random(seed)
    thorough = tier == "thorough"
    tasks = []
    reps = [None, "silence", ["sine", 2, None]]
    combos = [(w, rate) for w in WIDTHS for rate in ((8, 16, 1024, 8000, 16000, 44100) if thorough else (8, 1024, 8000, 44100))]
    nenum = 7 if thorough else 6
    for (w, rate) in combos:
        L = make_samples("ramp" if w > 1 else "random", nenum, w, rng)
        tasks.append({"kind": "rfat_enum", "w": w, "rate": rate, "n": nenum, "samples": L, "maxk": 3,
                      "fracs": (0, 0.25, 0.3, 0.5, 0.75) if thorough else (0, 0.3, 0.5), "reps": reps})
    nrand = 60000 if thorough else 6000
    for a in range(0, nrand, 500):
        tasks.append({"kind": "rfat_rand", "seed": rng.randrange(2 ** 31), "count": 500})
    # extractSubwav: all pairs of sample positions of a short recording at every rate, plus off-sample
    nx = 120 if thorough else 40
    for rate in DYADIC_RATES + OTHER_RATES:
        for w in (WIDTHS if thorough else (WIDTHS[rate % 3],)):
            L = make_samples("ramp", nx, w, rng)
            starts = list(range(nx))
            for a in range(0, nx, 10):
                tasks.append({"kind": "extract", "w": w, "rate": rate, "samples": L, "starts": starts[a:a + 10], "off": 3, "seed": a})
    for rate in OTHER_RATES:
        L = make_samples("random", 400, 2, rng)
        tasks.append({"kind": "extract", "w": 2, "rate": rate, "samples": L, "starts": [0, 1, 199, 398, 399], "off": 7, "seed": 1})
    nsplit = 6000 if thorough else 720
    sc = _split_cases(rng, nsplit)
    for a in range(0, len(sc), 60):
        tasks.append({"kind": "split", "cases": sc[a:a + 60]})
    for w in WIDTHS:
        for rate in DYADIC_RATES + OTHER_RATES:
            tasks.append({"kind": "gen", "w": w, "rate": rate, "maxn": 400 if thorough else 120})
    cases, distinct, viols, samples, _ = _run_tasks("c17", tasks, jobs)
    return {
        "report": {
            "what": "C17: audio.readFramesAtTimes (keep/delete lists, silence/sine replacement, rejected inputs), extractSubwav, "
                    "praatio_scripts.splitAudioOnTier (files, names, cropped TextGrids), AudioGenerator sample counts vs a list-of-samples model; "
                    "strict for boundaries on sample positions, within one sample (start and length of each stretch) for off-sample boundaries; "
                    "files written/read with the wave module and an own TextGrid writer/reader",
            "bound": "widths {1,2,4}; readFramesAtTimes: ALL lists of <=3 disjoint (possibly touching, edge) intervals with ends on the %d-sample grid, each also shifted "
                     "off-grid, x {keep,delete} x {no replacement, silence, sine} at %d width/rate combinations, rejected inputs (both lists; ends beyond by 0.25..3 samples), "
                     "%d random lists on recordings of <=400 samples; extractSubwav: all pairs of sample positions of a %d-sample recording at 6 rates + off-sample variants; "
                     "splitAudioOnTier: %d generated cases (2-3 tiers, target tier with 0..11 entries incl. touching/edge/off-sample, other tier fine/sparse/empty/straddling, "
                     "point tier) x nameStyle {None,append,append_no_i,label} x noPartialIntervals x outputTGFlag {False,True,tier name} x silenceLabel; "
                     "generators: durations k/rate (k<=%d), (k+f)/rate, decimal durations at 6 rates; seed %d"
                     % (nenum, len(combos), nrand, nx, nsplit, 400 if thorough else 120, seed),
            "cases": cases, "distinct": distinct, "exhaustive": False,
            "wall_s": round(time.time() - t0, 2), "samples": samples,
        },
        "violations": viols,
    }


# ----------------------------------------------------------------------------------------
# C18
# ----------------------------------------------------------------------------------------

HANG = "findNearestZeroCrossing does not terminate (watchdog)"
WATCHDOG_S = 1.0


def sgn(v):
    return (v > 0) - (v < 0)


def genuine(L, i):
    """the sample at index i is zero or differs in sign from a neighbour"""
    if not (0 <= i < len(L)):
        return False
    if L[i] == 0:
        return True
    if i > 0 and sgn(L[i - 1]) != sgn(L[i]):
        return True
    if i + 1 < len(L) and sgn(L[i + 1]) != sgn(L[i]):
        return True
    return False


def zc_samples(kind, n, w, rng):
    H = hi(w)
    L_ = lo(w)
    if kind == "random":
        return [rng.choice((-1, 1)) * rng.randint(1, H) for _ in range(n)]
    if kind == "random0":
        return [rng.choice((0, 0, L_, H, -1, 1, rng.randint(L_, H))) for _ in range(n)]
    if kind == "positive":
        return [rng.randint(1, H) for _ in range(n)]
    if kind == "negative":
        return [rng.randint(L_, -1) for _ in range(n)]
    if kind == "zero":
        return [0] * n
    if kind == "sparse0":
        out = [rng.randint(1, H) for _ in range(n)]
        for _ in range(max(1, n // 12)):
            out[rng.randrange(n)] = 0
        return out
    if kind == "single":
        k = rng.randint(1, max(1, n - 1))
        return [rng.randint(1, H) if i < k else rng.randint(L_, -1) for i in range(n)]
    if kind == "sine":
        per = rng.choice((4.0, 7.3, 10.0, 16.5))
        ph = rng.choice((0.0, 0.4, 1.1))
        return [int(round(H * 0.9 * math.sin(2 * math.pi * i / per + ph))) for i in range(n)]
    if kind == "dense":
        # sign change at least every 3 samples, never zero (for textgrid/splice tests)
        out = []
        sg = 1
        run = 0
        for i in range(n):
            if run >= rng.randint(1, 3):
                sg, run = -sg, 0
            run += 1
            out.append(sg * rng.randint(max(1, H // 50), H))
        return out
    raise ValueError(kind)


ZC_KINDS = ("random", "random0", "positive", "negative", "zero", "sparse0", "single", "sine")


def _step_class(step, rate):
    x = Fraction(step) * rate
    return "whole" if abs(x - round(x)) <= EPS else "fractional"


def eval_zc(case):
    """kind 'zc': findNearestZeroCrossing(target, timeStep); with "edits": after a first lookup and some edits on the same Wav"""
    w, rate, t, step = case["w"], case["rate"], case["t"], case["step"]
    L = list(case["samples"])
    fn = None
    q = None
    if case.get("query"):
        fn = cached_wave(L, w, rate)
        q = audio.QueryWav(fn)
        obj = q
    else:
        obj = mkwav(L, w, rate)
    try:
        if case.get("edits") is not None:
            try:
                with watchdog(WATCHDOG_S):
                    try:
                        obj.findNearestZeroCrossing(case.get("t_first", 0.0), step) if step is not None else obj.findNearestZeroCrossing(case.get("t_first", 0.0))
                    except Exception:  # noqa
                        pass
            except Hang:
                return [(HANG, "returns or raises within %gs" % WATCHDOG_S, "still running")]
            for op in case["edits"]:
                L, _ = _model_apply(L, op, lambda tt: idx_choices(tt, rate)[0])
                if op[0] == "deleteSegment":
                    obj.deleteSegment(op[1], op[2])
                elif op[0] == "insert":
                    obj.insert(op[1], enc(op[2], w))
                elif op[0] == "replaceSegment":
                    obj.replaceSegment(op[1], op[2], enc(op[3], w))
                elif op[0] == "concatenate":
                    obj.concatenate(enc(op[1], w))
            if obj.frames != enc(L, w):
                return []  # edits are C16's business
        return _zc_check(obj, L, w, rate, t, step, " after edits of the same Wav" if case.get("edits") is not None else "")
    finally:
        if q is not None:
            q.audiofile.close()


def _zc_check(obj, L, w, rate, t, step, suffix=""):
    n = len(L)
    dur = n / rate
    exc = None
    res = None
    try:
        with watchdog(WATCHDOG_S):
            try:
                if step is None:
                    res = obj.findNearestZeroCrossing(t)
                else:
                    res = obj.findNearestZeroCrossing(t, step)
            except Exception as e:  # noqa
                exc = e
    except Hang:
        return [(HANG, "returns or raises within %gs" % WATCHDOG_S, "still running")]
    st = audio.ZERO_CROSSING_TIMESTEP if step is None else step
    if step is None and st != 0.002:
        return [("default timeStep is not the documented 0.002", "0.002", repr(st))]
    xs = Fraction(st) * rate
    sc = _step_class(st, rate)
    if exc is not None:
        if isinstance(exc, errors.FindZeroCrossingError):
            _bump("lookup: FindZeroCrossingError")
            return []
        if isinstance(exc, errors.ArgumentError):
            if xs < 2 + EPS:
                _bump("lookup: ArgumentError (timeStep < 2 samples)")
                return []
            return [("findNearestZeroCrossing: ArgumentError for a timeStep of at least two samples", "a time or FindZeroCrossingError", str(exc)[:120])]
        if isinstance(exc, struct.error) and w > 1:
            return [("findNearestZeroCrossing raises struct.error (window not sample aligned, width>1, %s-sample timeStep)" % sc,
                     "a time or FindZeroCrossingError", str(exc))]
        return [("findNearestZeroCrossing raises %s" % type(exc).__name__, "a time or a documented error", "%s: %s" % (type(exc).__name__, exc))]
    if xs < 2 - EPS:
        return [("findNearestZeroCrossing: timeStep below two samples not rejected with ArgumentError", "ArgumentError", repr(res))]
    if not isinstance(res, (int, float)) or res != res:
        return [("findNearestZeroCrossing returns a non-number", "a time", repr(res))]
    if not (-1e-9 <= res <= dur + 1e-9):
        return [("findNearestZeroCrossing: result outside [0, duration]", "[0, %r]" % dur, repr(res))]
    if not is_grid(t, rate):
        _bump("lookup: returned, arbitrary target (range checked)")
        return []
    _bump("lookup: returned, target on a sample position (crossing checked)")
    x = res * rate
    i = int(round(x))
    if abs(x - i) > 1e-6:
        return [("findNearestZeroCrossing: result not on a sample position although the target is (%s-sample timeStep)" % sc,
                 "a multiple of 1/%d" % rate, "%r = sample %r" % (res, x))]
    if not genuine(L, i):
        return [("findNearestZeroCrossing: returned time is not a genuine crossing (%s-sample timeStep)%s" % (sc, suffix),
                 "a zero sample or a sign change next to the returned sample in %s" % _short(L, 200), "%r = sample %d" % (res, i))]
    return []


def _build_tg(case, dur):
    tg = textgrid.Textgrid(0, dur)
    for t in case["tiers"]:
        if t["type"] == "interval":
            tier = textgrid.IntervalTier(t["name"], [Interval(a, b, lab) for a, b, lab in t["entries"]], 0, dur)
        else:
            tier = textgrid.PointTier(t["name"], [Point(a, lab) for a, lab in t["entries"]], 0, dur)
        tg.addTier(tier)
    return tg


def eval_tgzc(case):
    """kind 'tgzc': praatio_scripts.tgBoundariesToZeroCrossings"""
    w, rate = case["w"], case["rate"]
    L = list(case["samples"])
    n = len(L)
    dur = n / rate
    wav = mkwav(L, w, rate)
    tg = _build_tg(case, dur)
    exc = None
    try:
        with watchdog(3 * WATCHDOG_S):
            try:
                out = praatio_scripts.tgBoundariesToZeroCrossings(tg, wav, case["adjustPoint"], case["adjustInterval"])
            except Exception as e:  # noqa
                exc = e
    except Hang:
        return [(HANG, "returns", "tgBoundariesToZeroCrossings still running")]
    sc = _step_class(0.002, rate)
    if exc is not None:
        if isinstance(exc, errors.FindZeroCrossingError):
            _bump("tgBoundariesToZeroCrossings: FindZeroCrossingError (accepted)")
            return []
        if isinstance(exc, errors.ArgumentError) and Fraction(0.002) * rate < 2 + EPS:
            return []
        if isinstance(exc, struct.error) and w > 1:
            return [("tgBoundariesToZeroCrossings raises struct.error (window not sample aligned, width>1, %s-sample default timeStep)" % sc,
                     "a textgrid", str(exc))]
        return [("tgBoundariesToZeroCrossings raises %s (%s-sample default timeStep)" % (type(exc).__name__, sc), "a textgrid", "%s: %s" % (type(exc).__name__, exc))]
    _bump("tgBoundariesToZeroCrossings: returned (checked)")
    if wav.frames != enc(L, w):
        return [("tgBoundariesToZeroCrossings changes the audio", "unchanged", "changed")]
    names = [t["name"] for t in case["tiers"]]
    if list(out.tierNames) != names:
        return [("tgBoundariesToZeroCrossings: tier order or names changed", repr(names), repr(list(out.tierNames)))]
    if out.minTimestamp != 0 or out.maxTimestamp != dur:
        return [("tgBoundariesToZeroCrossings: textgrid span changed", repr((0, dur)), repr((out.minTimestamp, out.maxTimestamp)))]
    for t in case["tiers"]:
        tier = out.getTier(t["name"])
        isint = t["type"] == "interval"
        if isinstance(tier, textgrid.IntervalTier) != isint:
            return [("tgBoundariesToZeroCrossings: tier type changed", t["type"], type(tier).__name__)]
        ents = [tuple(e) for e in tier.entries]
        src = [tuple(e) for e in t["entries"]]
        adj = case["adjustInterval"] if isint else case["adjustPoint"]
        if not adj:
            if ents != src:
                return [("tgBoundariesToZeroCrossings: a tier that was not to be adjusted changed", repr(src), repr(ents))]
            continue
        if len(ents) != len(src):
            return [("tgBoundariesToZeroCrossings: entry count of a tier changed", "%d entries in %s" % (len(src), t["name"]), repr(ents))]
        if isint:
            okl = [e[-1] for e in ents] == [e[-1] for e in src]
        else:
            okl = sorted(e[-1] for e in ents) == sorted(e[-1] for e in src)
        if not okl:
            return [("tgBoundariesToZeroCrossings: labels of a tier changed", repr([e[-1] for e in src]), repr([e[-1] for e in ents]))]
        if (tier.minTimestamp, tier.maxTimestamp) != (0, dur):
            return [("tgBoundariesToZeroCrossings: textgrid span changed", "tier span " + repr((0, dur)), repr((tier.minTimestamp, tier.maxTimestamp)))]
        for e in ents:
            for tm in e[:-1]:
                if not (-1e-9 <= tm <= dur + 1e-9):
                    return [("tgBoundariesToZeroCrossings: new timestamp outside [0, duration]", "[0,%r]" % dur, repr(tm))]
                x = tm * rate
                i = int(round(x))
                if abs(x - i) > 1e-6:
                    return [("tgBoundariesToZeroCrossings: new timestamp not on a sample position although all boundaries were (%s-sample default timeStep)" % sc,
                             "multiples of 1/%d" % rate, "%r = sample %r in %r" % (tm, x, e))]
                if not genuine(L, i):
                    return [("tgBoundariesToZeroCrossings: new timestamp is not a genuine crossing (%s-sample default timeStep)" % sc,
                             "zero sample or sign change at the new time", "%r = sample %d in %r, samples around %r" % (tm, i, e, L[max(0, i - 2):i + 3]))]
    return []


def _arith_tag(case):
    """when every time in the case is a multiple of 2**-30 all textgrid arithmetic on them is exact"""
    ts = [case["insertStart"]] + ([case["insertStop"]] if case.get("insertStop") is not None else [])
    for t in case["tiers"]:
        for e in t["entries"]:
            ts += list(e[:-1])
    ts.append(len(case["samples"]) / case["rate"])
    ts.append(len(case["segment"]) / case["rate"])
    if all(Fraction(t).denominator <= 2 ** 30 for t in ts):
        return "dyadic times (exact arithmetic)"
    return "non-dyadic times (float rounding possible)"


def eval_splice(case):
    """kind 'splice': praatio_scripts.audioSplice"""
    w, rate = case["w"], case["rate"]
    L = list(case["samples"])
    S = list(case["segment"])
    n = len(L)
    dur = n / rate
    wav = mkwav(L, w, rate)
    seg = mkwav(S, w, rate)
    tg = _build_tg(case, dur)
    t0, t1, align = case["insertStart"], case.get("insertStop"), case["align"]
    label = case.get("label", "NEW")
    tgt = case["target"]
    exc = None
    try:
        with watchdog(3 * WATCHDOG_S):
            try:
                outw, outtg = praatio_scripts.audioSplice(wav, seg, tg, tgt, label, t0, t1, align)
            except Exception as e:  # noqa
                exc = e
    except Hang:
        return [(HANG, "returns", "audioSplice still running")]
    sc = _step_class(0.002, rate)
    tag = "alignToZeroCrossing=%s" % align
    if exc is not None:
        if isinstance(exc, errors.FindZeroCrossingError) and align:
            _bump("audioSplice: FindZeroCrossingError (accepted)")
            return []
        if isinstance(exc, errors.ArgumentError) and align and Fraction(0.002) * rate < 2 + EPS:
            return []
        if isinstance(exc, errors.CollisionError) and case.get("collision_ok"):
            _bump("audioSplice: CollisionError, insertion inside an entry or moved by alignment (accepted)")
            return []
        if isinstance(exc, struct.error) and w > 1:
            return [("audioSplice raises struct.error (byte index not sample aligned, width>1), %s" % tag, "audio and textgrid", str(exc))]
        return [("audioSplice raises %s, %s, %s" % (type(exc).__name__, tag, _arith_tag(case)), "audio and textgrid", "%s: %s" % (type(exc).__name__, exc))]
    _bump("audioSplice: returned (checked), alignToZeroCrossing=%s" % align)
    out = dec(outw.frames, w)
    misaligned = False
    if w > 1 and not align and not (is_grid(t0, rate) and (t1 is None or is_grid(t1, rate))):
        # classification only: does byte-unit rounding reproduce the observed bytes?
        b = enc(L, w)
        bi = _byte_hypothesis_idx(t1 if t1 is not None else t0, rate, w)
        hb = b[:bi] + enc(S, w) + b[bi:]
        if t1 is not None:
            hb = hb[:_byte_hypothesis_idx(t0, rate, w)] + hb[_byte_hypothesis_idx(t1, rate, w):]
        misaligned = hb == outw.frames and hb != enc(L[:idx_choices(t0, rate)[0]] + S + L[idx_choices(t1 if t1 is not None else t0, rate)[0]:], w)
    if misaligned:
        return [("audioSplice: " + MISALIGNED, "audio = original[:p] + segment + original[q:] in whole samples", "bytes spliced at a byte offset that is not a multiple of %d" % w)]
    if out is None:
        return [("audioSplice: resulting audio is not a whole number of samples", "multiple of %d bytes" % w, "%d bytes" % len(outw.frames))]
    viol = []
    odur = len(out) / rate
    if not abs(outw.duration - odur) <= 1e-12:
        return [("duration != samples/rate", repr(odur), repr(outw.duration))]
    if abs(odur - outtg.maxTimestamp) > 1 / rate + 1e-9 or outtg.minTimestamp != 0:
        return [("audioSplice: audio and textgrid durations differ by more than a sample, %s" % tag, "audio %r" % odur,
                 "textgrid [%r, %r]" % (outtg.minTimestamp, outtg.maxTimestamp))]
    names = [t["name"] for t in case["tiers"]]
    if list(outtg.tierNames) != names:
        return [("audioSplice: tier order or names changed", repr(names), repr(list(outtg.tierNames)))]
    news = []
    for t in case["tiers"]:
        tier = outtg.getTier(t["name"])
        for e in tier.entries:
            if e[-1] == label:
                news.append((t["name"], tuple(e)))
    if len(news) != 1 or news[0][0] != tgt or len(news[0][1]) != 3:
        return [("audioSplice: not exactly one new interval with the given label in the target tier, %s" % tag, "one interval %r in %s" % (label, tgt), repr(news))]
    ns, ne, _ = news[0][1]
    i, j = int(round(ns * rate)), int(round(ne * rate))
    if abs(ns * rate - i) > 0.5 + 1e-6 or abs(ne * rate - j) > 0.5 + 1e-6 or not (0 <= i <= j <= len(out)):
        return [("audioSplice: new interval outside the audio", "within [0,%r]" % odur, repr((ns, ne)))]
    ins = out[i:j]
    # the inserted audio: the whole segment, or (alignToZeroCrossing) a contiguous non-empty part of it
    if align:
        okins = len(ins) > 0 and any(S[a:a + len(ins)] == ins for a in range(0, len(S) - len(ins) + 1))
    else:
        okins = ins == S
    head_ok = out[:i] == L[:i]
    qq = len(L) - (len(out) - j)
    tail_ok = 0 <= qq <= len(L) and out[j:] == L[qq:] and qq >= i
    if not align:
        pi = idx_choices(t0, rate)
        pq = idx_choices(t1, rate) if t1 is not None else pi
        head_ok = head_ok and i in pi
        tail_ok = tail_ok and qq in pq
    if not (okins and head_ok and tail_ok):
        return [("audioSplice: new interval does not cover the inserted audio / surrounding audio changed, %s" % tag,
                 "audio = original[:p] + segment + original[q:], interval = [p, p+len(segment)] (in samples)",
                 "interval samples %d..%d; inserted part ok %s, audio before ok %s, audio after ok %s; out %s" % (i, j, okins, head_ok, tail_ok, _short(out, 200)))]
    # entries before the insertion point unchanged, later entries keep their labels
    slack = (0.002 + 2 / rate) if align else 0.0
    P = min(t0, ns) - slack
    Q = (t1 if t1 is not None else t0) + slack
    for t in case["tiers"]:
        tier = outtg.getTier(t["name"])
        ents = [tuple(e) for e in tier.entries]
        src = [tuple(e) for e in t["entries"]]
        before = [e for e in src if e[-2] < P]
        if ents[:len(before)] != before:
            return [("audioSplice: an entry that ended before the insertion point changed, %s" % tag, "tier %s starts with %r" % (t["name"], before), repr(ents))]
        # (a point exactly at the end of a replaced region belongs to that region: not required to survive)
        later = [e[-1] for e in src if (e[0] >= Q if len(e) == 3 else e[0] > Q)]
        got = [e[-1] for e in ents]
        if later and got[len(got) - len(later):] != later:
            return [("audioSplice: entries after the insertion point do not keep their labels, %s" % tag, "tier %s ends with labels %r" % (t["name"], later), repr(ents))]
        for e in ents:
            if not (e[0] >= -1e-9 and e[-2] <= outtg.maxTimestamp + 1e-9):
                return [("audioSplice: entry outside the resulting textgrid", "[0,%r]" % outtg.maxTimestamp, repr(e))]
    # a lookup on the returned audio must describe the returned audio
    if 16 / rate <= 0.002 * 50:
        v = _zc_check(outw, out, w, rate, i / rate, 16 / rate, " on the audio returned by audioSplice")
        if v:
            return v
    return viol


def _zc_steps(rate, n):
    whole = [2, 3, 5, 16, n + 3]
    frac = [2.5, 3.2, 7.75]
    out = [["whole", k / rate] for k in whole] + [["fractional", k / rate] for k in frac]
    return out


def _c18_family(task, col, st):
    kind = task["kind"]
    hangs = [0]
    sentinel = os.path.join(TMP_ROOT, "audio_hang_%s" % task.get("run_id", "x"))

    def run(c, fn):
        # a hang costs a full watchdog period: after 2 hangs in this task (1 once any worker has seen hangs) the rest
        # of the task is skipped so that the time budget holds; the hang itself is already reported as a violation
        if hangs[0] >= (1 if os.path.exists(sentinel) and hangs[0] else 2):
            st["notes"]["skipped_after_hangs"] = st["notes"].get("skipped_after_hangs", 0) + 1
            return []
        if hangs[0] == 0 and os.path.exists(sentinel) and st["cases"] > 200:
            st["notes"]["skipped_after_hangs"] = st["notes"].get("skipped_after_hangs", 0) + 1
            return []
        st["cases"] += 1
        st["distinct"] += 1
        v = fn(c)
        for (what, e, o) in v:
            if what == HANG:
                hangs[0] += 1
                try:
                    open(sentinel, "w").close()
                except OSError:
                    pass
            col.add(what, c, e, o)
        return v

    rng = random.Random(task.get("seed", 0))
    if kind == "zc":
        w, rate = task["w"], task["rate"]
        for skind in task["kinds"]:
            for n in task["sizes"]:
                for rep in range(task["reps"]):
                    L = zc_samples(skind, n, w, rng)
                    steps = _zc_steps(rate, n)
                    if 0.002 * rate >= 2:
                        steps.append(["default", None])
                    if rep == 0:
                        steps += [["small", 1 / rate], ["small", 1.5 / rate], ["small", 1.96875 / rate]]
                    for sname, step in steps:
                        for k in range(0, n + 1):
                            c = {"kind": "zc", "w": w, "rate": rate, "samples": L, "t": k / rate, "step": step,
                                 "query": (k + rep) % 4 == 0}
                            if skind == "zero" and n >= 1 and sname != "small":
                                pass
                            v = run(c, eval_zc)
                            if not v and not st["samples"] and n == 5 and skind == "random" and sname == "whole":
                                st["samples"].append(c)
                        # arbitrary times: termination, range, documented errors only
                        for _ in range(task["arb"]):
                            t = rng.choice((rng.uniform(0, n / rate), (rng.randint(0, max(0, n - 1)) + rng.choice((0.25, 0.5, 0.75))) / rate))
                            t = min(t, n / rate)
                            c = {"kind": "zc", "w": w, "rate": rate, "samples": L, "t": t, "step": step, "query": False}
                            run(c, eval_zc)
        return
    if kind == "zchist":
        for _ in range(task["count"]):
            w = rng.choice(WIDTHS)
            rate = rng.choice((8, 1024, 8000, 16000))
            n = rng.choice((5, 10, 24, 60))
            L = zc_samples(rng.choice(("random", "random0", "sparse0", "single", "sine")), n, w, rng)
            edits = []
            cur = n
            for _e in range(rng.randint(1, 3)):
                a, b = sorted((rng.randint(0, cur), rng.randint(0, cur)))
                name = rng.choice(("replaceSegment", "replaceSegment", "insert", "deleteSegment", "concatenate"))
                if name == "replaceSegment":
                    m = (b - a) if rng.random() < 0.7 else rng.randint(0, 4)
                    F = zc_samples(rng.choice(("random", "positive", "negative", "zero")), m, w, rng)
                    edits.append([name, a / rate, b / rate, F])
                    cur += m - (b - a)
                elif name == "insert":
                    F = zc_samples("random", rng.randint(1, 4), w, rng)
                    edits.append([name, a / rate, F])
                    cur += len(F)
                elif name == "deleteSegment":
                    edits.append([name, a / rate, b / rate])
                    cur -= b - a
                else:
                    F = zc_samples("random0", rng.randint(1, 4), w, rng)
                    edits.append([name, F])
                    cur += len(F)
            step = rng.choice((2, 3, 5, 16)) / rate
            c = {"kind": "zc", "w": w, "rate": rate, "samples": L, "t_first": rng.randint(0, n) / rate, "edits": edits,
                 "t": rng.randint(0, cur) / rate, "step": step, "query": False}
            run(c, eval_zc)
        return
    if kind == "tgzc":
        for c in task["cases"]:
            run(c, eval_tgzc)
        return
    if kind == "splice":
        for c in task["cases"]:
            v = run(c, eval_splice)
            if not v and not st["samples"] and len(c["samples"]) <= 40:
                st["samples"].append(c)
        return
    raise ValueError(kind)


FAMILIES["c18"] = _c18_family


def _tg_tiers(rng, n, rate, gap, with_points=True, offgrid=False):
    """tiers whose boundaries are sample positions at least `gap` samples apart (and from the edges unless on them)"""
    def pts(maxk):
        k = rng.randint(0, maxk)
        pitch = gap + gap // 3
        cand = list(range(gap, n - pitch + 1, pitch))
        rng.shuffle(cand)
        sel = sorted(cand[:k])
        return [p + rng.randint(0, gap // 3) for p in sel]

    tiers = []
    for nm in ("words", "phones"):
        b = pts(8)
        if rng.random() < 0.4:
            b = [0] + b
        if rng.random() < 0.4:
            b = b + [n]
        ents = []
        for a, c in zip(b[:-1], b[1:]):
            if rng.random() < 0.75:
                ents.append([a / rate, c / rate, "%s%d" % (nm[0], len(ents))])
        tiers.append({"name": nm, "type": "interval", "entries": ents})
        if nm == "words" and rng.random() < 0.3:
            break
    if with_points and rng.random() < 0.7:
        b = pts(6)
        tiers.append({"name": "marks", "type": "point", "entries": [[a / rate, "m%d" % i] for i, a in enumerate(b)]})
    return tiers


def _tgzc_cases(rng, count):
    cases = []
    k = 0
    while len(cases) < count:
        k += 1
        w = WIDTHS[k % 3]
        rate = (8000, 16000, 8000, 16000, 44100, 1024)[k % 6]
        n = rng.choice((150, 240, 400))
        skind = rng.choice(("dense", "dense", "sine", "zero"))
        L = zc_samples(skind, n, w, rng)
        if skind == "sine":
            per = rng.choice((4.0, 7.3, 10.0))
            L = [int(round(hi(w) * 0.9 * math.sin(2 * math.pi * (i + 0.37) / per))) for i in range(n)]
            L = [v if v != 0 else 1 for v in L]
        tiers = _tg_tiers(rng, n, rate, 12 if rate <= 1024 else 30)
        flags = ((True, True), (True, True), (True, False), (False, True))[k % 4]
        cases.append({"kind": "tgzc", "w": w, "rate": rate, "samples": L, "tiers": tiers, "adjustPoint": flags[0], "adjustInterval": flags[1]})
    return cases


def _splice_cases(rng, count):
    cases = []
    k = 0
    while len(cases) < count:
        k += 1
        w = WIDTHS[k % 3]
        align = (k // 3) % 2 == 1
        if align:
            rate = (8000, 16000, 8000, 44100)[(k // 6) % 4]
        else:
            rate = (DYADIC_RATES + OTHER_RATES)[(k // 6) % 6]
        n = rng.choice((40, 120, 240, 400))
        L = zc_samples("dense", n, w, rng)
        m = rng.choice((1, 2, 7, 30)) if not align else rng.choice((60, 100))
        S = zc_samples("dense", m, w, rng)
        # mark the segment so that it cannot be confused with the recording
        gap = 4 if not align else 30
        if n < 3 * gap:
            n = 400
            L = zc_samples("dense", n, w, rng)
        tiers = _tg_tiers(rng, n, rate, gap)
        words = tiers[0]["entries"]
        # insertion points that are not strictly inside an entry of the target tier
        bounds = sorted(set([0.0, n / rate] + [e[0] for e in words] + [e[1] for e in words]))
        inside = lambda t: any(e[0] < t < e[1] for e in words)  # noqa
        cands = list(bounds)
        for _ in range(4):
            p = rng.randint(0, n) / rate
            if not inside(p):
                cands.append(p)
        offgrid = (not align) and k % 5 == 0
        t0 = rng.choice(cands)
        t1 = None
        if rng.random() < 0.5:
            later = [c for c in cands if c >= t0 + gap / rate]
            if later:
                t1 = rng.choice(later)
        coll = False
        if not align and t1 is not None and k % 4 == 0:
            m = int(round((t1 - t0) * rate))
            if 1 <= m <= 150:
                S = zc_samples(rng.choice(("dense", "positive", "zero")), m, w, rng)
        if offgrid:
            f = rng.choice((0.25, 0.3, 0.7)) / rate
            if t0 + f < n / rate and not inside(t0 + f):
                t0 = t0 + f
            if t1 is not None and t1 + f < n / rate and not inside(t1 + f) and t1 + f > t0:
                t1 = t1 + f
        if k % 11 == 0 and words:
            # insertion strictly inside an entry of the target tier: a CollisionError is acceptable there
            e = rng.choice(words)
            t0, t1, coll = (e[0] + e[1]) / 2, None, True
        cases.append({"kind": "splice", "w": w, "rate": rate, "samples": L, "segment": S, "tiers": tiers, "target": "words",
                      "insertStart": t0, "insertStop": t1, "align": align, "collision_ok": coll or align})
    return cases


def run_c18(tier, seed, jobs):
    t0 = time.time()
    rng = random.Random(seed)
    thorough = tier == "thorough"
    tasks = []
    rates = (8, 16, 1024, 8000, 16000, 44100) if thorough else (8, 1024, 8000, 44100)
    sizes = (1, 2, 3, 5, 10, 24, 60) if thorough else (1, 2, 5, 10, 24)
    for w in WIDTHS:
        for rate in rates:
            for kinds in (ZC_KINDS[:3], ZC_KINDS[3:6], ZC_KINDS[6:]):
                tasks.append({"kind": "zc", "w": w, "rate": rate, "kinds": kinds, "sizes": sizes, "reps": 3 if thorough else 1,
                              "arb": 6 if thorough else 3, "seed": rng.randrange(2 ** 31)})
    ntg = 6000 if thorough else 600
    tc = _tgzc_cases(rng, ntg)
    for a in range(0, len(tc), 50):
        tasks.append({"kind": "tgzc", "cases": tc[a:a + 50]})
    nsp = 12000 if thorough else 1200
    sp = _splice_cases(rng, nsp)
    for a in range(0, len(sp), 100):
        tasks.append({"kind": "splice", "cases": sp[a:a + 100]})
    nh = 20000 if thorough else 3000
    for a in range(0, nh, 500):
        tasks.append({"kind": "zchist", "count": 500, "seed": rng.randrange(2 ** 31)})
    run_id = "%d_%d" % (os.getpid(), int(time.time() * 1000) % 10 ** 9)
    for t in tasks:
        t["run_id"] = run_id
    try:
        cases, distinct, viols, samples, notes = _run_tasks("c18", tasks, jobs)
    finally:
        try:
            os.remove(os.path.join(TMP_ROOT, "audio_hang_%s" % run_id))
        except OSError:
            pass
    return {
        "report": {
            "what": "C18: findNearestZeroCrossing terminates (per-call watchdog %gs), result in [0,duration], on a sample position when the target is, a genuine crossing "
                    "(zero sample or sign change next to it) else one of the documented errors; tgBoundariesToZeroCrossings changes only timestamps, to such crossings; "
                    "audioSplice keeps audio and textgrid in step - all against a list-of-samples model" % WATCHDOG_S,
            "bound": "widths {1,2,4}; rates %s; recordings of %s samples of kinds %s; EVERY target on a sample position 0..n plus arbitrary/quarter/half-sample targets "
                     "(termination, range, errors only); timeStep in {2,3,5,16,n+3 samples; 2.5,3.2,7.75 samples; default 0.002 s where >= 2 samples; 1,1.5,1.97 samples -> ArgumentError}; "
                     "Wav and (every 4th) QueryWav; %d textgrids (1-3 tiers, boundaries on sample positions >= 12/30 samples apart, recordings 150..400 samples with dense crossings/sine/all-zero, "
                     "rates 1024/8000/16000/44100) x adjustPointTiers/adjustIntervalTiers; %d audioSplice cases (recording 40..400, segment 1..100 samples, insertion at tier boundaries/gaps/"
                     "0/end/off-sample, optional replaced region (also of exactly the segment's length), alignToZeroCrossing both, followed by a zero-crossing lookup on the "
                     "returned audio); %d lookups after 1-3 edits (replaceSegment of equal length, insert, delete, concatenate) of the same Wav; seed %d"
                     % (list(rates), list(sizes), list(ZC_KINDS), ntg, nsp, nh, seed),
            "cases": cases, "distinct": distinct, "exhaustive": False,
            "wall_s": round(time.time() - t0, 2), "samples": samples, "notes": notes,
        },
        "violations": viols,
    }


# ----------------------------------------------------------------------------------------
# replay
# ----------------------------------------------------------------------------------------

EVAL = {"ops": eval_ops, "insdel": eval_insdel, "convert": eval_convert, "file": eval_file,
        "rfat": eval_rfat, "extract": eval_extract, "split": eval_split, "gen": eval_gen,
        "zc": eval_zc, "tgzc": eval_tgzc, "splice": eval_splice}


def replay(case):
    fn = EVAL[case["kind"]]
    try:
        v = fn(case)
    finally:
        _cleanup()
    if v:
        return {"reproduced": True, "observed": "; ".join("%s: expected %s, observed %s" % (a, _short(b, 200), _short(c, 200)) for a, b, c in v[:3])}
    return {"reproduced": False, "observed": "no violation"}


CHECKS = {"c16_wav_model": run_c16, "c17_extraction": run_c17, "c18_zero_crossing": run_c18}
