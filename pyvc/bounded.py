"""Bounded stand-ins (DESIGN 2.11): executed on the real code, never counted as proved."""


def run(name, prop, tier, seed, jobs):
    raise NotImplementedError(name)


def replay(rep):
    raise NotImplementedError
