"""Spec functions for scalar helpers (C15, C16, C18, C01 numeric kernel): written from the property text."""
import math
from praatio.utilities.constants import Point
from praatio.utilities import errors


def sign(x):
    if x > 0:
        return 1
    if x < 0:
        return -1
    return 0


def getInterval(startTime, duration, max, reverse):
    """an interval of the given duration before/after startTime, clamped to [0, max]"""
    if reverse is True:
        lo = startTime - duration
        hi = startTime
    else:
        lo = startTime
        hi = startTime + duration
    if lo < 0:
        lo = 0
    if hi > max:
        hi = max
    return (lo, hi)


def chooseClosestTime(targetTime, candidateA, candidateB):
    if candidateA is None and candidateB is None:
        raise errors.ArgumentError("")
    if candidateA is None:
        return candidateB
    if candidateB is None:
        return candidateA
    if abs(candidateA - targetTime) <= abs(candidateB - targetTime):
        return candidateA
    return candidateB


def overlap_length(a0, a1, b0, b1):
    return max(0, min(a1, b1) - max(a0, b0))


def trunc(x):
    return int(x)


def near_int(x):
    """within 1e-14 (relative) of an integer (the exemption allowed by C01)"""
    return abs(x - int(x)) <= 1e-14 * max(abs(x), abs(int(x)))


# ---- C20: median filter ------------------------------------------------------------------
# "medianFilter returns a list of the input's length whose element i is the median of element i and its
# floor(window/2) neighbours on either side, with the series extended by its edge values when padding is on
# and the element left unchanged near the edges when it is off"

import statistics
from spec.prims import forall, exists, pairwise, adjacent, strip, is_sorted, subset, first_index


def medianFilter(dist, window, useEdgePadding):
    off = window // 2
    n = len(dist)
    return [(statistics.median([dist[max(0, min(x + k, n - 1))] for k in range(-off, off + 1)])
             if (useEdgePadding or (0 <= x - off and x + off < n)) else dist[x])
            for x in range(n)]


# ---- C19: KlattGrid value modification -------------------------------------------------------
# "modifySubtiers/modifyValues apply the given function to every value of the addressed tiers exactly once
# and leave all times and all other tiers untouched"


def KlattPointTier_modifyValues(self, modFunc):
    self._entries = [(t, modFunc(float(v))) for t, v in self.entries]


def toIntOrFloat(val):
    if float(val) == float(int(val)):
        return int(val)
    return float(val)


# ---- C03: blank removal --------------------------------------------------------------------
# "With includeEmptyIntervals=False exactly the entries whose label is empty are omitted and nothing else changes"


def removeBlanks(tier):
    tier["entries"] = [e for e in tier["entries"] if e[-1] != ""]


# ---- C14: the threshold comparison of dejitter ------------------------------------------------
# "moves a timestamp ... if and only if it lies within maxDifference of it" (1e-14 relative slack = rounding noise)


def isclose(a, b, rel_tol=1e-14, abs_tol=0.0):
    return abs(a - b) <= max(rel_tol * max(abs(a), abs(b)), abs_tol)


# ---- C02 / C04: blank filling ---------------------------------------------------------------
# "When blank filling is on, each interval tier in the file is an ascending, gap-free, overlap-free partition
# of the file's [xmin, xmax]" ; "saving changes the annotation only by adding empty-labelled intervals in
# unlabelled stretches" ; "if an entry would fall outside the requested span the save raises"


def fillInBlanks(tier, blankLabel, minTime, maxTime):
    if minTime is None:
        minTime = tier["xmin"]
    if maxTime is None:
        maxTime = tier["xmax"]
    E = tier["entries"]
    if len(E) == 0:
        tier["entries"] = [(minTime, maxTime, blankLabel)]
        return
    first = E[0]
    last = E[-1]
    if first[0] < minTime:
        raise errors.ParsingError("")
    if last[1] > maxTime:
        raise errors.ParsingError("")
    # every entry in order, each preceded by a blank over the gap to its predecessor (if any gap)
    body = [first] + [x for a, b in zip(E, E[1:]) for x in gap_then(a, b, blankLabel)]
    head = [(minTime, first[0], blankLabel)] if first[0] > minTime else []
    tail = [(last[1], maxTime, blankLabel)] if last[1] < maxTime else []
    tier["entries"] = head + body + tail


def gap_then(a, b, blankLabel):
    if a[1] < b[0]:
        return [(a[1], b[0], blankLabel), b]
    return [b]


# ---- C18: zero crossings in a block of samples ("the sample there is zero or differs in sign from a neighbour")


def sgn(x):
    return 1 if x > 0 else (-1 if x < 0 else 0)


def nearest_zero(samples, reverse):
    """index of the first (last when searching backwards) sample that is exactly 0, else None"""
    n = len(samples)
    if reverse:
        k = first_index(samples[::-1], lambda x: x == 0)
        return None if k < 0 else n - 1 - k
    i = first_index(samples, lambda x: x == 0)
    return None if i < 0 else i


def sign_changes(samples):
    """changes[i] <=> samples[i] and samples[i+1] differ in sign (0 counts as a sign of its own)"""
    return [sgn(samples[i]) != sgn(samples[i + 1]) for i in range(len(samples) - 1)]


def threshold_crossing(samples, reverse):
    """the first (last) position i where samples[i] and samples[i+1] differ in sign; of the two samples the one nearer
    to zero (the earlier one when equally near); None if there is no sign change"""
    changes = sign_changes(samples)
    if reverse:
        k = first_index(changes[::-1], lambda c: c)
        if k < 0:
            return None
        i = len(changes) - 1 - k
    else:
        i = first_index(changes, lambda c: c)
        if i < 0:
            return None
    if abs(samples[i]) > abs(samples[i + 1]):
        return i + 1
    return i


def next_zero_crossing(startTime, samples, frameRate, reverse):
    z = nearest_zero(samples, reverse)
    if z is None:
        z = threshold_crossing(samples, reverse)
        if z is None:
            return None
    return startTime + z / float(frameRate)


# ---- C01 / C03 / C04: the dictionary stages of saving and of the plain json format -------------------------------


def json_down_up(tgAsDict):
    """the plain json format keeps names, order, types and entries; by design one span for the whole textgrid"""
    return {"xmin": tgAsDict["xmin"], "xmax": tgAsDict["xmax"],
            "tiers": [{"class": t["class"], "name": t["name"], "xmin": tgAsDict["xmin"], "xmax": tgAsDict["xmax"],
                       "entries": t["entries"]} for t in tgAsDict["tiers"]]}


def prepTgForSaving_verbatim(tg, includeBlankSpaces, minTimestamp, maxTimestamp, minimumIntervalLength):
    """blank filling off (or only point tiers): entries are written verbatim, in time order; a span override becomes
    the file's span; tier names, classes and spans are untouched"""
    for t in tg["tiers"]:
        t["entries"] = sorted(t["entries"])
    if minTimestamp is not None:
        tg["xmin"] = minTimestamp
    if maxTimestamp is not None:
        tg["xmax"] = maxTimestamp
    return tg


# ---- C20: detectPitchErrors: "jumps by more than the given ratio" ------------------------------------------------


def detectPitchErrors(pitchList, maxJumpThreshold=0.70, tgToMark=None):
    """the times of the samples whose pitch, relative to the preceding sample, fell to at most the ratio or rose to at
    least its inverse, each marked with the ratio current / previous (voiced pitch tracks: every value > 0)"""
    if maxJumpThreshold < 0 or maxJumpThreshold > 1:
        raise errors.ArgumentError("")
    return ([Point(pitchList[i][0], str(pitchList[i][1] / pitchList[i - 1][1]))
             for i in range(1, len(pitchList))
             if (pitchList[i - 1][1] <= pitchList[i][1] * maxJumpThreshold
                 or pitchList[i - 1][1] >= pitchList[i][1] / maxJumpThreshold)], None)


# ---- C20: getPitchMeasures: "mean, max, min, range, population variance and deviation, with optional zero removal"


def getPitchMeasures(f0Values, name=None, label=None, medianFilterWindowSize=None, filterZeroFlag=False):
    fs = f0Values if medianFilterWindowSize is None else medianFilter(f0Values, medianFilterWindowSize, True)
    vs = [v for v in fs if v != 0] if filterZeroFlag else fs
    if len(vs) == 0:
        return (0.0, 0.0, 0.0, 0.0, 0.0, 0.0)
    mean = sum(vs) / float(len(vs))
    var = sum([(v - mean) ** 2 for v in vs]) / float(len(vs))
    return (mean, max(vs), min(vs), max(vs) - min(vs), var, math.sqrt(var))


def KlattContainerTier_modifySubtiers(self, tierName, modFunc):
    """every value of every point tier of the addressed intermediate tier goes through modFunc exactly once; times,
    the other intermediate tiers and the hierarchy are untouched; an unknown tier name is a KeyError"""
    if tierName not in self.tierDict:
        raise KeyError(tierName)
    kit = self.tierDict[tierName]
    for name in kit.tierNameList:
        KlattPointTier_modifyValues(kit.tierDict[name], modFunc)
