"""Contract registry and the obligation generator.

A contract names a real function of /repo, gives symbolic inputs + `requires`, and a *spec
function* written in /verif/spec from the property statement.  The obligation for every
path of the real body is: the outcome (returned value or exception class, and the final
state of every argument) equals the outcome of the spec function on the same inputs.
Extra `ensures` clauses are postconditions proved on the real outcome.  At call sites of
*other* functions under verification the spec stands in for the body (modular).
"""
import ast
import time
import traceback

import z3

from . import core
from .core import (Unsupported, PathAbort, EngineError, Fraction, AList, Atom, Conc, ElemType, Explorer,
                   is_z3, to_z3, REAL, INT, STR, BOOL, TRUE)
from .values import *  # noqa
from .interp import Interp, Env, PDict


class Contract:
    def __init__(self, target, **kw):
        self.target = target
        # a second contract on the same function (other configurations, weaker claim) is registered under target#variant
        self.variant = kw.pop("variant", None)
        self.key = target + ("#" + self.variant if self.variant else "")
        self.configs = kw.pop("configs", {})
        self.inputs = kw.pop("inputs")
        self.requires = kw.pop("requires", [])
        self.spec = kw.pop("spec", None)
        self.ensures = kw.pop("ensures", [])
        self.serves = kw.pop("serves", [])
        self.modular = kw.pop("modular", True)
        self.spec_module = kw.pop("spec_module", "spec.tiers")
        self.loops = kw.pop("loops", {})
        self.frame = kw.pop("frame", None)  # names of arguments that must stay unchanged
        self.known = kw.pop("known", [])
        self.float_mode = kw.pop("float_mode", "REAL")
        self.compare_state = kw.pop("compare_state", True)
        self.skip_config = kw.pop("skip_config", None)
        self.spec_first = kw.pop("spec_first", False)
        # heavier instantiation strategies, switched on per contract (they multiply the ground facts)
        self.engine_opts = kw.pop("engine_opts", {})
        self.raises = kw.pop("raises", None)  # {exception class name: condition text}: raised iff condition
        self.may_raise = kw.pop("may_raise", None)  # exception class names a raising path may have (nothing else)
        self.opts = kw
        if kw.keys() - {"note", "canaries", "max_paths", "replay_candidates"}:
            raise TypeError("unknown contract options %s" % sorted(kw))


class Registry:
    def __init__(self):
        self.contracts = {}
        self.order = []

    def add(self, c):
        self.contracts[c.key] = c
        self.order.append(c.key)

    def spec_for_call(self, I, f):
        c = self.contracts.get(f.qualname)
        if c is None or c.spec is None or not c.modular:
            return None
        if I.verifying == f.qualname:
            return None
        if f.module.name.startswith("spec."):
            return None
        return c

    def call_spec(self, I, f, c, args, kwargs):
        """the callee's spec stands in for its body - but only where the callee's explicit preconditions are proved
        at this call site; otherwise NotImplemented is returned and the caller executes the real body"""
        sf = I.get_function(c.spec)
        # the spec takes the same parameters as the real function; bind through the real signature
        # so that defaults of the real function are used
        local = I.bind_args(f, args, kwargs)
        # (1) only configurations that were verified: a parameter the contract enumerates (doShrink in [False]) must
        #     have one of the enumerated values at this call
        for key, values in (c.configs or {}).items():
            if key in local and all(v is None or isinstance(v, (bool, int, str)) for v in values) and "sym" not in values:
                actual = local[key]
                if is_z3(actual) or not any(actual is v or (type(actual) is type(v) and actual == v) for v in values):
                    I.spec_declined = getattr(I, "spec_declined", 0) + 1
                    return NotImplemented
        # (2) the explicit preconditions, proved from the caller's path (full solver budget: a verdict that depends
        #     on machine load would make the two sides of a refinement disagree)
        if c.requires:
            S = Sym(I, c.spec_module)
            for text in c.requires:
                try:
                    cond = I.pure(S.expr_fn(text, [], dict(local)))
                    ok = I.ctx.entails(cond)
                except (Unsupported, Raise):
                    ok = False
                if not ok:
                    I.spec_declined = getattr(I, "spec_declined", 0) + 1
                    return NotImplemented
        a = f.node.args
        params = [p.arg for p in a.posonlyargs + a.args + a.kwonlyargs]
        I.spec_uses.add(c.target)
        return I.call_function(sf, [local[p] for p in params], {}, force_body=True)

    def loop_rule(self, I, env, st):
        if env.func is None:
            return None
        cur = getattr(I, "current_contract", None)
        c = cur if (cur is not None and cur.target == env.func.qualname) else self.contracts.get(env.func.qualname)
        if c is None or not c.loops:
            return None
        # loops are keyed by ordinal within the function body
        ordn = loop_ordinal(env.func.node, st)
        return c.loops.get(ordn)


def loop_ordinal(fnode, st):
    # deterministic source order
    loops = [n for n in ast.walk(fnode) if isinstance(n, (ast.For, ast.While))]
    loops.sort(key=lambda n: (n.lineno, n.col_offset))
    for i, n in enumerate(loops):
        if n is st:
            return "loop#%d" % (i + 1)
    return None


REGISTRY = Registry()


def contract(target, **kw):
    c = Contract(target, **kw)
    REGISTRY.add(c)
    return c


# ----------------------------------------------------------------------------- symbolic inputs


class Sym:
    """Builds symbolic inputs; deterministic names so the same inputs can be built twice."""

    def __init__(self, I, spec_module):
        self.I = I
        self.spec_module = spec_module

    @property
    def ctx(self):
        return self.I.ctx

    def real(self, name):
        v = z3.Real(name)
        self.ctx.inputs[name] = v
        return v

    def int(self, name):
        v = z3.Int(name)
        self.ctx.inputs[name] = v
        return v

    def bool(self, name):
        v = z3.Bool(name)
        self.ctx.inputs[name] = v
        return v

    def str(self, name):
        v = z3.Const(name, STR)
        self.ctx.inputs[name] = v
        return v

    def func(self, name, arity=1):
        """an arbitrary (uninterpreted, pure) callable Real^arity -> Real"""
        f = z3.Function(name, *([REAL] * (arity + 1)))
        from .core import as_real
        return Builtin(name, lambda I, args, kw: f(*[as_real(a) for a in args]))

    def etype(self, kind):
        I = self.I
        if isinstance(kind, ElemType):
            return kind
        if kind == "Interval":
            cls = I.load_module("praatio.utilities.constants").ns["Interval"]
            return ElemType("tuple", fields=["start", "end", "label"], sorts=[REAL, REAL, STR], ntcls=cls)
        if kind == "Point":
            cls = I.load_module("praatio.utilities.constants").ns["Point"]
            return ElemType("tuple", fields=["time", "label"], sorts=[REAL, STR], ntcls=cls)
        if kind == "tuple3":
            return ElemType("tuple", fields=["f0", "f1", "f2"], sorts=[REAL, REAL, STR], ntcls=None)
        if kind == "tuple2":
            return ElemType("tuple", fields=["f0", "f1"], sorts=[REAL, STR], ntcls=None)
        if kind == "pair":
            return ElemType("tuple", fields=["f0", "f1"], sorts=[REAL, REAL], ntcls=None)
        if kind == "real":
            return core.scalar_type(REAL)
        if kind == "int":
            return core.scalar_type(INT)
        if kind == "str":
            return core.scalar_type(STR)
        raise KeyError(kind)

    def expr_fn(self, text, params, variables):
        """compile a spec-language expression into a pure python function over interpreter values"""
        I = self.I
        node = ast.parse(text.strip(), mode="eval").body
        mod = I.load_module(self.spec_module)

        def fn(*args):
            env = Env(mod)
            env.vars = dict(variables)
            for p, a in zip(params, args):
                env.vars[p] = a
            return to_z3(I.eval(node, env))
        return fn

    def list(self, name, kind, all=None, pair=None, adj=None, env=None, is_tuple=False):
        I = self.I
        et = self.etype(kind)
        a = self.ctx.atom(name, et)
        env = env or {}
        if not getattr(a, "_facts_done", False):
            a._facts_done = True
            if all:
                f = self.expr_fn(all, ["e", "i"], env)
                a.all_facts.append((TRUE, (lambda elem, idx, f=f: I.pure(f, elem, idx)), "requires"))
            if pair:
                f = self.expr_fn(pair, ["a", "b"], env)
                a.pair_facts.append((TRUE, (lambda x, y, f=f: I.pure(f, x, y)), "requires"))
            if adj:
                f = self.expr_fn(adj, ["a", "b"], env)
                a.adj_facts.append((TRUE, (lambda x, y, f=f: I.pure(f, x, y)), "requires"))
            self.ctx.inputs[name] = a
        box = I.new_alist(a, is_tuple=is_tuple)
        box.owner = "input"
        return box

    def obj(self, clsqual, **attrs):
        cls = self.I.get_function(clsqual)
        o = SObj(cls)
        o.owner = "input"
        o.attrs.update(attrs)
        return o

    def assume(self, text, variables):
        f = self.expr_fn(text, [], variables)
        self.ctx.assume(self.I.pure(f))

    # helpers that exist in the same form on the native Sym used by replay ----------------------------
    def attr(self, obj, name):
        return obj.attrs[name]

    def mark_distinct(self, lst):
        """`requires`: the entries of this list are pairwise distinguishable under their == (see R-ERASE)"""
        lst.term.requires_distinct = True

    def nt(self, clsqual, values):
        return self.I.make_nt(self.I.get_function(clsqual), list(values), {})

    def pylist(self, items):
        """a python list of known length whose items may be symbolic"""
        b = self.I.new_list(list(items))
        b.owner = "input"
        return b

    def odict(self, pairs):
        from .builtins_model import SDict
        d = SDict(pairs)
        d.owner = "input"
        return d


# ----------------------------------------------------------------------------- outcomes


class Outcome:
    def __init__(self, kind, value=None, exc=None, note=None):
        self.kind = kind  # 'return' | 'raise' | 'unsupported'
        self.value = value
        self.exc = exc
        self.note = note

    def describe(self):
        if self.kind == "raise":
            return "raises %s" % self.exc.cls.name
        if self.kind == "return":
            return "returns"
        return "unsupported: %s" % self.note


def run_outcome(I, thunk):
    try:
        return Outcome("return", thunk())
    except Raise as r:
        return Outcome("raise", exc=r.exc, note=r.note)


class Obligation:
    def __init__(self, name, function, config, status, detail="", model=None, ms=0.0, line=None, kind="refine"):
        self.name = name
        self.function = function
        self.config = config
        self.status = status  # 'discharged' | 'failed' | 'undecided' | 'unsupported'
        self.detail = detail
        self.model = model
        self.ms = ms
        self.kind = kind

    def to_json(self):
        return {"name": self.name, "function": self.function, "config": self.config, "result": self.status,
                "detail": self.detail[:400], "ms": round(self.ms, 1), "kind": self.kind,
                "model": self.model}


def model_to_inputs(I, ctx, goal):
    """A model of  path-facts AND NOT goal, projected onto the declared inputs (for replay)."""
    if goal is None:
        r = ctx.check()
    else:
        r = ctx.check(z3.Not(goal))
    if r != z3.sat:
        return None, str(r)
    m = getattr(ctx, "_last_model", None) or ctx.solver.model()
    ctx._last_model = None
    names = StringNames(I, m)
    out = {}

    def val_to_py(v):
        if v.sort() == STR:
            return names.name(v)
        return val_to_py0(v)
    for name, v in ctx.inputs.items():
        if isinstance(v, Atom):
            n = m.eval(v.length(), model_completion=True).as_long()
            # only the registered member indices are constrained; materialise those
            idxs = {}
            for mem in v.members:
                if z3.is_true(m.eval(mem.cond, model_completion=True)):
                    k = m.eval(mem.idx, model_completion=True).as_long()
                    if 0 <= k < n:
                        idxs[k] = [val_to_py(m.eval(to_z3(p), model_completion=True)) for p in I.elem_parts(mem.elem)]
            out[name] = {"len": n, "at": {str(k): idxs[k] for k in sorted(idxs)}}
        else:
            out[name] = val_to_py(m.eval(v, model_completion=True))
    return out, "sat"


class StringNames:
    """python strings for the elements of the uninterpreted string universe of a model: literals map to
    themselves; other elements get fresh names ordered by their rank, wrapped in spaces when the model says
    they are not their own strip()"""

    def __init__(self, I, m):
        self.I, self.m = I, m
        self.names = {}
        self.counter = 0

    def name(self, v, depth=0):
        v = self.m.eval(v, model_completion=True)
        key = str(v)
        if key in self.names:
            return self.names[key]
        lv = core.lit_value(v)
        if lv is None:
            # equal (in the model) to a literal?
            for s, c in core._LITS.items():
                if str(self.m.eval(c, model_completion=True)) == key:
                    lv = s
                    break
        if lv is not None:
            self.names[key] = lv
            return lv
        sv = self.m.eval(self.I.strip_fn(v), model_completion=True)
        if str(sv) != key and depth < 2:
            nm = " " + self.name(sv, depth + 1) + " "
        else:
            r = self.m.eval(self.I.rank_fn(v), model_completion=True)
            try:
                rv = float(r.as_fraction()) if z3.is_rational_value(r) else 0.0
            except Exception:
                rv = 0.0
            self.counter += 1
            # names sort like their ranks for ranks in a moderate range
            nm = "L%s%d" % (("%012.4f" % (rv + 500000)) if abs(rv) < 400000 else "", self.counter)
        self.names[key] = nm
        return nm


def val_to_py0(v):
    if z3.is_int_value(v):
        return v.as_long()
    if z3.is_rational_value(v):
        return {"q": [v.numerator_as_long(), v.denominator_as_long()]}
    if z3.is_true(v):
        return True
    if z3.is_false(v):
        return False
    if z3.is_algebraic_value(v):
        return {"approx": v.approx(20).as_decimal(20)}
    return {"z3": str(v)}


# ----------------------------------------------------------------------------- verification of one contract


def config_list(c):
    keys = list(c.configs.keys())
    if not keys:
        return [{}]
    out = [{}]
    for k in keys:
        out = [dict(o, **{k: v}) for o in out for v in c.configs[k]]
    if c.skip_config:
        out = [o for o in out if not c.skip_config(o)]
    return out


def cfg_name(cfg):
    return ",".join("%s=%s" % (k, cfg[k]) for k in cfg)


def verify_contract(I, c, only_config=None):
    """returns the list of Obligations of contract c on the current tree"""
    obligations = []
    fn = I.get_function(c.target)
    specf = I.get_function(c.spec) if c.spec else None
    for cfg in config_list(c):
        if only_config is not None and cfg_name(cfg) != only_config:
            continue
        obligations.extend(verify_config(I, c, fn, specf, cfg))
    return obligations


def build_args(I, c, cfg):
    S = Sym(I, c.spec_module)
    d = c.inputs(S, cfg)
    return S, d


def call_with(I, f, argd, force_body):
    a = f.node.args
    params = [p.arg for p in a.posonlyargs + a.args + a.kwonlyargs]
    args = [argd[p] for p in params if p in argd]
    if len(args) != len([p for p in params if p in argd]):
        raise EngineError("input mismatch")
    kwargs = {}
    return I.call_function(f, [argd[p] for p in params if p in argd], kwargs, force_body=force_body)


def verify_config(I, c, fn, specf, cfg):
    obligations = []
    ex = Explorer(I, max_paths=c.opts.get("max_paths", 600))
    tag = "%s[%s]" % (c.key.split(".")[-1] if "." in c.key else c.key, cfg_name(cfg))
    short = ".".join(c.key.split(".")[-2:]) if c.key.count(".") >= 2 else c.key
    tag = "%s[%s]" % (short, cfg_name(cfg))
    pathno = [0]
    I.verifying = c.target
    I.current_contract = c
    I.float_mode = c.float_mode
    I.engine_opts = dict(c.engine_opts)
    I.registry_model = lambda goal: model_to_inputs(I, I.ctx, goal)

    def one(ctx):
        t0 = time.time()
        pathno[0] += 1
        k = pathno[0]
        S, args1 = build_args(I, c, cfg)
        for r in c.requires:
            S.assume(r, args1)
        # The spec runs FIRST: its lists are then built in their general form, before the branch decisions of
        # the real body specialise the path (the real body re-uses the same hash-consed terms).
        sp = None
        if specf is not None and c.spec_first:
            try:
                S2, args2 = build_args(I, c, cfg)
                I.verifying = None
                sp = run_outcome(I, lambda: call_with(I, specf, args2, True))
            except Unsupported as u:
                return [Obligation("%s#%d" % (tag, k), c.key, cfg, "unsupported", "spec: %s" % u,
                                   ms=1000 * (time.time() - t0))]
            finally:
                I.verifying = c.target
        try:
            I.spec_uses = set()
            I.mutations = []
            real = run_outcome(I, lambda: call_with(I, fn, args1, True))
            muts = I.mutations
            I.mutations = None
        except Unsupported as u:
            I.mutations = None
            return [Obligation("%s#%d" % (tag, k), c.key, cfg, "unsupported", str(u), ms=1000 * (time.time() - t0))]
        name = "%s#%d:%s" % (tag, k, real.describe())
        notes = ";".join(ctx.notes)
        res = []
        if ctx.check() == z3.unsat:
            raise PathAbort()
        # frame: arguments that must not be mutated (every mutating construct executed on the path was recorded)
        if c.frame is not None:
            t1 = time.time()
            reach = {}
            for a in c.frame:
                for o in reachable(args1.get(a)):
                    reach[id(o)] = a
            hit = sorted(set(reach[id(m)] for m in muts if id(m) in reach))
            if hit:
                model, status = model_to_inputs(I, ctx, None)
                res.append(Obligation("%s#%d:frame" % (tag, k), c.key, cfg, "failed" if status == "sat" else "undecided",
                                      "modifies argument(s) %s which must stay unchanged | %s" % (hit, notes), model,
                                      ms=1000 * (time.time() - t1), kind="frame"))
            else:
                res.append(Obligation("%s#%d:frame" % (tag, k), c.key, cfg, "discharged",
                                      "no mutating construct executed on %s" % c.frame, kind="frame"))
        if specf is not None:
            if sp is None:
                try:
                    S2, args2 = build_args(I, c, cfg)
                    I.verifying = None
                    sp = run_outcome(I, lambda: call_with(I, specf, args2, True))
                except Unsupported as u:
                    I.verifying = c.target
                    return [Obligation(name, c.key, cfg, "unsupported", "spec: %s" % u, ms=1000 * (time.time() - t0))]
                finally:
                    I.verifying = c.target
            ok, why = compare_outcomes(I, c, real, sp, args1, args2)
            st, detail, model = "discharged", "%s | %s" % (real.describe(), notes), None
            if not ok:
                pre = None
                if isinstance(why, tuple) and len(why) == 4:
                    pre = (why[2], why[3])
                    why = why[:2]
                msg, goal = why if isinstance(why, tuple) else (str(why), None)
                if ok is None:
                    # the engine cannot compare these values: never a violation
                    model, st = None, "undecided"
                else:
                    model, status = pre if pre is not None else model_to_inputs(I, ctx, goal)
                    # a definite mismatch (goal None: different outcome kind / exception class / shape) on a
                    # satisfiable path, or a counter-model of the equality goal
                    st = "failed" if status == "sat" else "undecided"
                detail = "real %s vs spec %s: %s | %s" % (real.describe(), sp.describe(), msg, notes)
            res.append(Obligation(name, c.key, cfg, st, detail, model, ms=1000 * (time.time() - t0)))
        # "raises nothing but ...": the exception class of every raising path is one of the listed ones
        if c.may_raise is not None and real.kind == "raise":
            t1 = time.time()
            en = real.exc.cls.name
            oname = "%s#%d:raises-only (%s)" % (tag, k, en)
            if en in c.may_raise:
                res.append(Obligation(oname, c.key, cfg, "discharged", "raises only %s" % ", ".join(c.may_raise),
                                      ms=1000 * (time.time() - t1), kind="raises-only"))
            else:
                model, status = model_to_inputs(I, ctx, None)
                res.append(Obligation(oname, c.key, cfg, "failed" if status == "sat" else "undecided",
                                      "raises %s, allowed: %s | %s" % (en, ", ".join(c.may_raise), notes), model,
                                      ms=1000 * (time.time() - t1), kind="raises-only"))
        # exceptional postconditions: an exception of class E is raised iff its condition holds
        if c.raises is not None:
            t1 = time.time()
            oname = "%s#%d:raises-table (%s)" % (tag, k, real.describe())
            try:
                conds = {}
                Sold, old = build_args(I, c, cfg)
                for ecls, text in c.raises.items():
                    conds[ecls] = I.pure(S.expr_fn(text, [], dict(args1, old=old)))
                if real.kind == "raise":
                    en = real.exc.cls.name
                    if en not in conds:
                        model, status = model_to_inputs(I, ctx, None)
                        res.append(Obligation(oname, c.key, cfg, "failed" if status == "sat" else "undecided",
                                              "raises %s which the contract does not allow | %s" % (en, notes), model,
                                              ms=1000 * (time.time() - t1), kind="raises"))
                    else:
                        g = conds[en]
                        ok_ = ctx.entails(g, patient=True)
                        model, status = (None, None) if ok_ else model_to_inputs(I, ctx, g)
                        res.append(Obligation(oname, c.key, cfg, "discharged" if ok_ else
                                              ("failed" if status == "sat" else "undecided"),
                                              "raises %s only if: %s | %s" % (en, c.raises[en], notes), model,
                                              ms=1000 * (time.time() - t1), kind="raises"))
                else:
                    g = z3.And([z3.Not(v) for v in conds.values()]) if conds else z3.BoolVal(True)
                    ok_ = ctx.entails(g, patient=True)
                    model, status = (None, None) if ok_ else model_to_inputs(I, ctx, g)
                    res.append(Obligation(oname, c.key, cfg, "discharged" if ok_ else
                                          ("failed" if status == "sat" else "undecided"),
                                          "returns although a raise condition holds | %s" % notes, model,
                                          ms=1000 * (time.time() - t1), kind="raises"))
            except Unsupported as u:
                res.append(Obligation(oname, c.key, cfg, "unsupported", str(u), kind="raises"))
        # extra postconditions on the real outcome
        for ei, (ename, text) in enumerate(c.ensures):
            t1 = time.time()
            if real.kind != "return" and not text.startswith("raises:"):
                continue
            env = dict(args1)
            env["result"] = real.value
            if "old[" in text:
                env["old"] = build_args(I, c, cfg)[1]
            try:
                f = S.expr_fn(text, [], env)
                g = I.pure(f)
                if ctx.entails(g, patient=True):
                    res.append(Obligation("%s#%d:ensures %s" % (tag, k, ename), c.key, cfg, "discharged", text,
                                          ms=1000 * (time.time() - t1), kind="ensures"))
                else:
                    model, status = model_to_inputs(I, ctx, g)
                    res.append(Obligation("%s#%d:ensures %s" % (tag, k, ename), c.key, cfg,
                                          "failed" if status == "sat" else "undecided", text + " | " + notes, model,
                                          ms=1000 * (time.time() - t1), kind="ensures"))
            except Unsupported as u:
                res.append(Obligation("%s#%d:ensures %s" % (tag, k, ename), c.key, cfg, "unsupported", str(u),
                                      kind="ensures"))
        return res

    try:
        for ctx, res in ex.explore(one):
            obligations.extend(res)
    except Unsupported as u:
        obligations.append(Obligation("%s#explore" % tag, c.key, cfg, "unsupported", str(u)))
    finally:
        I.verifying = None
    return obligations


def reachable(v, seen=None):
    """heap objects reachable from a value"""
    from .builtins_model import SDict
    if seen is None:
        seen = {}
    if isinstance(v, (SObj, AList, dict, SDict)):
        if id(v) in seen:
            return []
        seen[id(v)] = v
        if isinstance(v, SObj):
            for x in v.attrs.values():
                reachable(x, seen)
        elif isinstance(v, dict):
            for x in v.values():
                reachable(x, seen)
        elif isinstance(v, SDict):
            for _, x in v.pairs:
                reachable(x, seen)
        elif isinstance(v, AList) and isinstance(v.term, Conc):
            for x in v.term.items:
                reachable(x, seen)
    elif isinstance(v, tuple):
        for x in v:
            reachable(x, seen)
    return list(seen.values())


def compare_outcomes(I, c, real, sp, args1, args2):
    if real.kind != sp.kind:
        return False, ("outcome kind differs", None)
    if real.kind == "raise":
        if real.exc.cls is not sp.exc.cls:
            return False, ("exception class %s vs %s" % (real.exc.cls.name, sp.exc.cls.name), None)
    else:
        ok, why = I.same_value(real.value, sp.value, "result")
        if not ok:
            return ok, why
    if c.compare_state:
        # final state of every (mutable) argument
        for k in args1:
            a, b = args1[k], args2[k]
            if isinstance(a, (SObj, AList, dict)):
                ok, why = I.same_value(a, b, "final(%s)" % k)
                if not ok:
                    return ok, why
    return True, None
