#!/usr/bin/env python3-vt
"""Development driver: verify the contracts whose target contains <substr> (serially, uncached) and print every
obligation.   tools/dev.py <substr> [<config-substr>] [--extra /path/to/draft_contracts.py]
[--mutate relpath::old::new]  (in-memory source rewrite, like a canary)"""
import importlib.util
import os
import sys
import time

ROOT = os.path.dirname(os.path.dirname(os.path.abspath(__file__)))
sys.path.insert(0, ROOT)
sys.setrecursionlimit(20000)


def main(argv):
    extra = None
    if "--extra" in argv:
        i = argv.index("--extra")
        extra = argv[i + 1]
        argv = argv[:i] + argv[i + 2:]
    over = None
    if "--mutate" in argv:
        i = argv.index("--mutate")
        f, old, new = argv[i + 1].split("@@" if "@@" in argv[i + 1] else "::")
        argv = argv[:i] + argv[i + 2:]
        path = os.path.join(os.environ.get("PRAATIO_REPO", "/repo"), f)
        src = open(path).read()
        assert old in src, "mutation text not found"
        over = {path: src.replace(old, new, 1)}
    from pyvc import check, contracts as pcm
    pc = check.load_contracts()
    if extra:
        spec = importlib.util.spec_from_file_location("draft_contracts", extra)
        m = importlib.util.module_from_spec(spec)
        spec.loader.exec_module(m)
    sub = argv[0]
    cfgsub = argv[1] if len(argv) > 1 else None
    bad = 0
    for target, c in pc.REGISTRY.contracts.items():
        if sub not in target:
            continue
        for cfg in pcm.config_list(c):
            name = pcm.cfg_name(cfg)
            if cfgsub and cfgsub not in name:
                continue
            t0 = time.time()
            I = check.make_interp(over)
            I.registry = pc.REGISTRY
            obs = pcm.verify_contract(I, c, only_config=name)
            print("== %s [%s] %.1fs" % (target, name, time.time() - t0))
            for o in obs:
                print("   %-11s %s" % (o.status, o.name))
                if o.status != "discharged":
                    bad += 1
                    print("       ", (o.detail or "")[:600])
                    if getattr(o, "model", None):
                        print("        model:", str(o.model)[:600])
    return 1 if bad else 0


if __name__ == "__main__":
    sys.exit(main(sys.argv[1:]))
