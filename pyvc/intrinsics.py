"""Symbolic meaning of the spec primitives in /verif/spec/prims.py."""
import z3

from .core import Unsupported, AList, is_z3, to_z3, TRUE
from .values import *  # noqa
from . import builtins_model as bm
from . import listops


def _pure_call(I, fn, *args):
    I.ctx.pure_depth += 1
    try:
        r = I.call(fn, list(args), {})
    finally:
        I.ctx.pure_depth -= 1
    b = I.as_bool_expr(r)
    if b is None:
        raise Unsupported("spec predicate returned a non-boolean")
    return b


def _term_of(I, L):
    """the list term of an abstract list; a symbolic range(n) is its index space"""
    if isinstance(L, bm.LazySeq) and L.kind == "range" and L.concrete_items(I) is None:
        from .loops import IndexSpace
        if len(L.parts) != 1:
            raise Unsupported("quantifier over a general range")
        return IndexSpace(I, L.parts[0], 0)
    return L.term


def forall(I, args, kw):
    L, p = args
    items = I.try_iter_concrete(L)
    if items is not None:
        acc = [_pure_call(I, p, e) for e in items]
        return bm.simp_bool(z3.And(acc)) if acc else True
    b, m = listops.exists_in(I, _term_of(I, L), lambda e, i: z3.Not(_pure_call(I, p, e)), "forall")
    return z3.Not(b)


def exists(I, args, kw):
    L, p = args
    items = I.try_iter_concrete(L)
    if items is not None:
        acc = [_pure_call(I, p, e) for e in items]
        return bm.simp_bool(z3.Or(acc)) if acc else False
    b, m = listops.exists_in(I, _term_of(I, L), lambda e, i: _pure_call(I, p, e), "exists")
    return b


def pairwise(I, args, kw):
    L, r = args
    items = I.try_iter_concrete(L)
    if items is not None:
        acc = [_pure_call(I, r, items[i], items[j]) for i in range(len(items)) for j in range(i + 1, len(items))]
        return bm.simp_bool(z3.And(acc)) if acc else True
    ctx = I.ctx
    t = L.term
    b = ctx.fresh_bool("pw")
    i, j = ctx.fresh_int("pi"), ctx.fresh_int("pj")
    c = z3.Not(b)
    mi = t.new_member(c, i)
    mj = t.new_member(c, j)
    ctx.assume(z3.Implies(c, z3.And(i < j, z3.Not(_pure_call(I, r, mi.elem, mj.elem)))))
    t.pair_facts.append((b, lambda x, y: _pure_call(I, r, x, y), "pairwise"))
    return b


def adjacent(I, args, kw):
    L, r = args
    items = I.try_iter_concrete(L)
    if items is not None:
        acc = [_pure_call(I, r, items[i], items[i + 1]) for i in range(len(items) - 1)]
        return bm.simp_bool(z3.And(acc)) if acc else True
    ctx = I.ctx
    t = L.term
    b = ctx.fresh_bool("adj")
    i = ctx.fresh_int("ai")
    c = z3.Not(b)
    mi = t.new_member(c, i)
    mj = t.new_member(c, i + 1)
    ctx.assume(z3.Implies(c, z3.Not(_pure_call(I, r, mi.elem, mj.elem))))
    listops.add_adjacent_fact(I, t, b, lambda x, y: _pure_call(I, r, x, y), "adjacent")
    return b


def strip(I, args, kw):
    (s,) = args
    if isinstance(s, str):
        return s.strip()
    return I.strip_of(s)


def is_sorted(I, args, kw):
    (L,) = args
    le = bm.elem_lex_le(I)
    return adjacent(I, [L, Builtin("lex_le", lambda I, a, k: le(a[0], a[1]))], {})


def insert_at(I, args, kw):
    L, i, x = args
    items = I.try_iter_concrete(L)
    if items is not None and isinstance(i, int):
        return I.new_list(items[:i] + [x] + items[i:])
    return I.new_alist(listops.InsertAt(I, L.term, i, x))


def first_index(I, args, kw):
    L, p = args
    if isinstance(L, bm.LazySeq) and L.kind == "range" and L.concrete_items(I) is None:
        # first k in 0..n-1 with p(k): an index-space search
        from .loops import IndexSpace
        n = L.parts[0] if len(L.parts) == 1 else None
        if n is None:
            raise Unsupported("first_index over a general range")
        sp = IndexSpace(I, n, 0)
        b, m = listops.exists_in(I, sp, lambda e, i: _pure_call(I, p, i), "first_index")
        k = m.idx
        def before(elem, idx):
            def ev():
                return z3.Implies(idx < k, z3.Not(_pure_call(I, p, idx)))
            try:
                return ev()
            except Unsupported:
                return I.ctx.eval_under(z3.And(idx >= 0, idx < sp.length()), ev)
        sp.all_facts.append((b, before, "first-index"))
        return z3.If(b, k, z3.IntVal(-1))
    items = I.try_iter_concrete(L)
    if items is not None:
        for i, e in enumerate(items):
            if I.truth(I.call(p, [e], {}), "first_index"):
                return i
        return -1
    t = L.term
    b, m = listops.exists_in(I, t, lambda e, i: _pure_call(I, p, e), "first_index")
    k = m.idx

    def before(elem, idx):
        return z3.Implies(idx < k, z3.Not(_pure_call(I, p, elem)))
    t.all_facts.append((b, before, "first-index"))
    return z3.If(b, k, z3.IntVal(-1))


def remove_at(I, args, kw):
    L, i = args
    items = I.try_iter_concrete(L)
    if items is not None and isinstance(i, int):
        return I.new_list(items[:i] + items[i + 1:])
    return I.new_alist(listops.RemoveAt(I, L.term, i))


def subset(I, args, kw):
    A, B = args
    ia, ib = I.try_iter_concrete(A), I.try_iter_concrete(B)
    if ia is not None and ib is not None:
        acc = []
        for a in ia:
            acc.append(z3.Or([I.elem_eq(a, b) for b in ib]) if ib else z3.BoolVal(False))
        return bm.simp_bool(z3.And(acc)) if acc else True
    ta = A.term if isinstance(A, AList) else bm.as_term(I, A)
    tb = B.term if isinstance(B, AList) else bm.as_term(I, B)
    # a proof-only primitive: True when the inclusion is provable now, otherwise unsupported (never assumed)
    if listops.subset_of(I, ta, tb):
        return True
    raise Unsupported("subset(): inclusion not provable")


INTRINSICS = {
    "spec.prims.subset": subset,
    "spec.prims.first_index": first_index,
    "spec.prims.insert_at": insert_at,
    "spec.prims.remove_at": remove_at,
    "spec.prims.forall": forall,
    "spec.prims.exists": exists,
    "spec.prims.pairwise": pairwise,
    "spec.prims.adjacent": adjacent,
    "spec.prims.strip": strip,
    "spec.prims.is_sorted": is_sorted,
}
