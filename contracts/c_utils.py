"""Sidecar contracts for praatio/utilities/utils.py"""
from pyvc.contracts import contract

DOM = ["0 <= start", "start < end", "end <= 1e15"]

contract(
    "praatio.utilities.utils.getIntervalsInInterval",
    serves=["C06", "C07", "C10", "C11", "C17"],
    configs={"mode": ["strict", "lax", "truncated", "bogus"]},
    inputs=lambda S, cfg: dict(
        start=S.real("start"), end=S.real("end"),
        intervals=S.list("intervals", "Interval", all="valid(e) and 0 <= e.start and e.end <= 1e15"),
        mode=cfg["mode"]),
    requires=DOM,
    spec="spec.tiers.getIntervalsInInterval",
)
