"""Laws over several operations, stated as contracts on compositions in spec/harness.py; the operations inside are
replaced by their own (separately verified) specs, so each law is a lemma over those contracts."""
from pyvc.contracts import contract
from contracts.c_tiers import wf_interval_tier, wf_point_tier

contract("spec.harness.shift_there_and_back", serves=["C09"], spec_module="spec.tiers", modular=False,
         configs={"tier": ["interval", "point"]},
         inputs=lambda S, cfg: dict(tier=(wf_interval_tier(S, "tier") if cfg["tier"] == "interval" else wf_point_tier(S, "tier")),
                                    x=S.real("x")),
         # "when nothing was clipped": no entry is moved to before time 0 on the way
         requires=["0 <= tier.minTimestamp", "0 <= tier.minTimestamp + x", "-1e15 <= x", "x <= 1e15"],
         frame=["tier"], raises={},
         ensures=[("entries-restored", "result.entries == tier.entries"),
                  ("same-name", "result.name == tier.name"),
                  ("span-never-shrinks", "result.minTimestamp <= tier.minTimestamp and result.maxTimestamp >= tier.maxTimestamp")])
