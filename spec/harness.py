"""Compositions of real praatIO functions whose joint behaviour a property speaks about (lemmas over
several functions).  These are interpreted like repo code; the functions they call are the real ones."""
from praatio.utilities import my_math
from praatio.utilities import utils


def num_roundtrip(x):
    """C01 numeric kernel: what a timestamp becomes when written by the text writers and read back"""
    return utils.strToIntOrFloat(my_math.numToStr(x))


def num_text_fixed_point(x):
    """re-saving a re-read number prints the same text"""
    return (my_math.numToStr(x), my_math.numToStr(utils.strToIntOrFloat(my_math.numToStr(x))))


class Ref:
    """stand-in for a reference tier in dejitter contracts: only its `timestamps` are used"""

    def __init__(self, timestamps):
        self.timestamps = timestamps


def wav_insert_then_delete(wav, t, frames):
    """C16: inserting and then deleting the same stretch restores the original"""
    wav.insert(t, frames)
    wav.deleteSegment(t, t + len(frames) / wav.sampleWidth / wav.frameRate)
    return wav.frames


def wav_index_shift(wav, t, m):
    """byte distance between the sample positions nearest to t and to t + m samples"""
    return wav._getIndexAtTime(t + m / wav.frameRate) - wav._getIndexAtTime(t)


def json_down_up(tgAsDict):
    """C01 / C03, plain 'json' format: what a textgrid dictionary becomes when converted to the minimal json shape
    (as written) and converted back (as read); json.dumps / json.loads in between are assumption A3"""
    from praatio.utilities import textgrid_io
    return textgrid_io._upconvertDictionaryFromJson(textgrid_io._downconvertDictionaryForJson(tgAsDict))


def tg_dict_roundtrip(tg, reportingMode):
    """C01: the object -> dictionary -> object stages at the two ends of save / open (everything in between is the
    format writer / reader)"""
    from praatio.data_classes import textgrid as tgclasses
    from praatio import textgrid as tgmod
    return tgmod._dictionaryToTg(tgclasses._tgToDictionary(tg), reportingMode)


def shift_there_and_back(tier, x):
    """C09: shifting by +x then -x restores every entry when nothing was clipped"""
    return tier.editTimestamps(x, "silence").editTimestamps(-x, "silence")
