"""pyvc core: path exploration, path context, abstract list terms.

One *path* of a symbolic execution is run by re-executing the program from the
start under a prefix of branch decisions (no state copying).  A path context
(`Ctx`) owns a z3 solver holding everything known on the path: branch
conditions, contract assumptions, and *groundings* of the schematic facts that
abstract lists carry (all-facts, pairwise-facts, adjacency-facts), instantiated
on the finitely many member witnesses created on the path.  Instantiating a
universally quantified fact on some witnesses is sound; it may be incomplete.
"""
import fractions
import itertools
import os
import time

import z3

Fraction = fractions.Fraction


class Unsupported(Exception):
    """Construct outside the supported subset: the obligation is undecided."""


class PathAbort(Exception):
    """The current path is infeasible."""


class EngineError(Exception):
    """Internal inconsistency of the engine (exit 3)."""


STATS = {"solver_calls": 0, "solver_s": 0.0, "paths": 0}

SOLVER_TIMEOUT_MS = 10000
FEAS_TIMEOUT_MS = 1500


def is_z3(v):
    return isinstance(v, z3.ExprRef)


def as_sort(v, like):
    """coerce an arithmetic value to the sort of `like` (Int -> Real)"""
    if v.sort() != like.sort() and like.sort() == z3.RealSort() and v.sort() == z3.IntSort():
        return z3.ToReal(v)
    return v


def to_z3(v):
    """Lift a concrete scalar to z3."""
    if is_z3(v):
        return v
    if isinstance(v, bool):
        return z3.BoolVal(v)
    if isinstance(v, int):
        return z3.IntVal(v)
    if isinstance(v, Fraction):
        return z3.Q(v.numerator, v.denominator)
    if isinstance(v, float):
        f = Fraction(v)
        return z3.Q(f.numerator, f.denominator)
    if isinstance(v, str):
        return str_lit(v)
    raise Unsupported("cannot lift %r to z3" % (v,))


def as_real(e):
    e = to_z3(e)
    if e.sort() == z3.IntSort():
        return z3.ToReal(e)
    return e


class Decision:
    __slots__ = ("val", "flippable", "note")

    def __init__(self, val, flippable, note=None):
        self.val = val
        self.flippable = flippable
        self.note = note

    def __repr__(self):
        return "%s%s@%s" % ("T" if self.val else "F", "" if self.flippable else "!", self.note)


# --------------------------------------------------------------------------
# element types


class ElemType:
    """Describes the shape of list elements: a scalar sort or a (named)tuple of scalars."""

    def __init__(self, kind, fields=None, sorts=None, ntcls=None, sort=None):
        self.kind = kind  # 'scalar' | 'tuple'
        self.fields = fields
        self.sorts = sorts
        self.ntcls = ntcls  # class object used to build elements (or None for plain tuple)
        self.sort = sort

    def __repr__(self):
        if self.kind == "scalar":
            return "Elem(%s)" % self.sort
        return "Elem(%s%s)" % (getattr(self.ntcls, "name", "tuple"), tuple(str(s) for s in self.sorts))


REAL = z3.RealSort()
INT = z3.IntSort()
# Strings are an UNINTERPRETED sort: praatIO only compares, strips, orders and concatenates labels and
# names; z3's sequence theory is erratic on these queries (measured), EUF is not.  Literals are distinct
# constants, concatenation / length / strip / rank are uninterpreted functions with the axioms the
# proofs need instantiated by the engine (A4).
STR = z3.DeclareSort("Str")
_LITS = {}
S_CAT = z3.Function("str.cat", STR, STR, STR)
S_LEN = z3.Function("str.len", STR, z3.IntSort())
S_ITOS = z3.Function("str.from_int", z3.IntSort(), STR)
S_CONTAINS = z3.Function("str.contains", STR, STR, z3.BoolSort())
S_PREFIX = z3.Function("str.prefixof", STR, STR, z3.BoolSort())
S_SUFFIX = z3.Function("str.suffixof", STR, STR, z3.BoolSort())
S_REPLACE = z3.Function("str.replace_all", STR, STR, STR, STR)


def str_lit(s):
    c = _LITS.get(s)
    if c is None:
        c = z3.Const("str!" + repr(s), STR)
        _LITS[s] = c
    return c


def lit_value(e):
    """python string of a literal constant, else None"""
    if z3.is_const(e) and e.sort() == STR:
        n = e.decl().name()
        if n.startswith("str!"):
            for k, v in _LITS.items():
                if v.eq(e):
                    return k
    return None

BOOL = z3.BoolSort()


def scalar_type(sort):
    return ElemType("scalar", sort=sort)


# --------------------------------------------------------------------------
# abstract list terms
#
# Every term T has one uninterpreted function per element field, T.f(i) = field f of the
# element at position i (array encoding).  A *member* is an index term at which the
# schematic facts of T (and the structural definition of T) have been instantiated.


class Member:
    __slots__ = ("idx", "elem", "cond", "origin", "from_concat", "serial", "derived", "gen")
    deriving = [0]
    cur_gen = [0]
    _next = [0]

    def __init__(self, idx, elem, cond, origin=None):
        self.idx = idx
        self.elem = elem
        self.cond = cond
        self.origin = origin
        self.from_concat = None
        Member._next[0] += 1
        self.serial = Member._next[0]
        self.derived = Member.deriving[0] > 0
        self.gen = Member.cur_gen[0]


TRUE = z3.BoolVal(True)


class LTerm:
    """Immutable abstract list term.  Facts and members are per path (terms are re-created on
    every re-execution)."""

    def __init__(self, interp, etype):
        self.interp = interp
        self.etype = etype
        self.all_facts = []  # (cond, fn(elem, idx)->z3 Bool, tag)
        self.pair_facts = []  # (cond, fn(a,b)->z3 Bool, tag): for idx(a) < idx(b)
        self.adj_facts = []  # (cond, fn(a,b)): for idx(b) == idx(a)+1
        self.members = []
        self._len = None
        self.uid = interp.ctx.fresh_name("T")
        self._ufs = None
        interp.ctx.terms.append(self)

    @property
    def ctx(self):
        return self.interp.ctx

    def ufs(self):
        if self._ufs is None:
            et = self.etype
            if et is None:
                raise Unsupported("abstract list of non-element values")
            if et.kind == "scalar":
                self._ufs = [z3.Function("%s.val" % self.uid, INT, et.sort)]
            else:
                self._ufs = [z3.Function("%s.%s" % (self.uid, f), INT, s) for f, s in zip(et.fields, et.sorts)]
            for f in self._ufs:
                self.ctx.uf_owner[f.name()] = self
        return self._ufs

    def at(self, idx):
        """the element at index idx, as uninterpreted applications"""
        fs = self.ufs()
        idx = to_z3(idx)
        et = self.etype
        if et.kind == "scalar":
            return fs[0](idx)
        vals = [f(idx) for f in fs]
        if et.ntcls is not None:
            from .values import NT
            return NT(et.ntcls, vals)
        return tuple(vals)

    def length(self):
        raise NotImplementedError

    def new_member(self, cond=TRUE, idx=None):
        """register idx as an index of interest (valid when cond holds); returns the Member"""
        ctx = self.ctx
        if idx is None:
            idx = ctx.fresh_int("i")
        idx = to_z3(idx)
        m = self.find_member(idx, cond)
        if m is not None:
            return m
        m = Member(idx, self.at(idx), cond)
        self.members.append(m)
        self._mkeys[(idx.get_id(), cond.get_id())] = m
        ctx.assume(z3.Implies(cond, z3.And(idx >= 0, idx < self.length())))
        Member.deriving[0] += 1
        try:
            self.define_member(m)
        finally:
            Member.deriving[0] -= 1
        return m

    def define_member(self, m):
        pass

    def find_member(self, idx, cond):
        mk = getattr(self, "_mkeys", None)
        if mk is None or len(mk) != len(self.members):
            mk = {}
            for m in self.members:
                mk[(m.idx.get_id(), m.cond.get_id())] = m
            self._mkeys = mk
        return mk.get((to_z3(idx).get_id(), cond.get_id()))

    def any_member(self, idx=None):
        """member at an ARBITRARY index: valid only where the index is in range (never forces len > 0)"""
        ctx = self.ctx
        if idx is None:
            idx = ctx.fresh_int("i")
        idx = to_z3(idx)
        return self.new_member(z3.And(idx >= 0, idx < self.length()), idx)

    def describe(self):
        return type(self).__name__


class Atom(LTerm):
    def __init__(self, interp, name, etype):
        super().__init__(interp, etype)
        self.name = name
        self.uid = name
        self._len = z3.Int("len!" + name)
        self.ctx.assume(self._len >= 0)

    def length(self):
        return self._len

    def describe(self):
        return self.name


class Conc(LTerm):
    """A list of known length; items are arbitrary interpreter values."""

    def __init__(self, interp, items, etype=None):
        self.items = list(items)
        if etype is None and self.items:
            try:
                etype = interp.elem_type_of(self.items[0])
            except Unsupported:
                etype = None
        super().__init__(interp, etype)

    def length(self):
        return z3.IntVal(len(self.items))

    def define_member(self, m):
        ctx = self.ctx
        cases = []
        for k, it in enumerate(self.items):
            cases.append(z3.And(m.idx == k, self.interp.elem_eq(m.elem, it)))
        ctx.assume(z3.Implies(m.cond, z3.Or(cases) if cases else z3.BoolVal(False)))

    def describe(self):
        return "[%d items]" % len(self.items)


class FMPath:
    __slots__ = ("guard", "outs", "note")

    def __init__(self, guard, outs, note=None):
        self.guard = guard  # z3 Bool over the index variable (and src.at(index variable))
        self.outs = outs  # list of elements
        self.note = note


class FM(LTerm):
    """flatMap: for j = 0..len(src)-1 in order, emit paths[k].outs where paths[k].guard holds at j.
    Guards are mutually exclusive and exhaustive (paths that emit nothing are listed too)."""

    def __init__(self, interp, src, jvar, paths, etype, binds=()):
        super().__init__(interp, etype)
        self.src = src
        self.jvar = jvar  # z3 Int const: the source index the paths are written over
        # binds: (const, expression over jvar) - the loop variable's components are atomic constants
        # standing for src.at(jvar) (robust substitution, independent of z3's term normalisation)
        self.binds = list(binds)
        self.paths = paths
        self.maxouts = max([len(p.outs) for p in paths] + [0])
        # a pure map (every path emits exactly one element): output index == source index
        self.is_map = bool(paths) and all(len(p.outs) == 1 for p in paths)
        ctx = self.ctx
        self._mapped = []
        if self.is_map:
            self.base = lambda j: to_z3(j)
            self._len = src.length()
        else:
            self.base = z3.Function("base!" + self.uid, INT, INT)
            self._len = self.base(src.length())
            ctx.assume(self.base(z3.IntVal(0)) == 0)
            ctx.assume(self._len >= 0)
            # every source element contributes between minouts and maxouts elements (length of a flatMap)
            self.minouts = min(len(p.outs) for p in paths) if paths else 0
            sl = src.length()
            ctx.assume(z3.And(self._len >= self.minouts * sl, self._len <= self.maxouts * sl))

    def length(self):
        return self._len

    def inst(self, expr, j):
        if self.binds:
            expr = z3.substitute(expr, *self.binds)
        return z3.substitute(expr, (self.jvar, to_z3(j)))

    def inst_elem(self, out, j):
        return self.interp.elem_map(out, lambda e: self.inst(e, j))

    def count(self, j):
        if self.is_map:
            return z3.IntVal(1)
        c = z3.IntVal(0)
        for p in self.paths:
            if p.outs:
                c = z3.If(self.inst(p.guard, j), z3.IntVal(len(p.outs)), c)
        return c

    def define_member(self, m):
        ctx = self.ctx
        sj = ctx.fresh_int("sj")
        pos = ctx.fresh_int("pos")
        sm = self.src.new_member(m.cond, sj)
        cases = []
        for p in self.paths:
            g = self.inst(p.guard, sj)
            for k, o in enumerate(p.outs):
                cases.append(z3.And(g, pos == k, self.interp.elem_eq(m.elem, self.inst_elem(o, sj))))
        self.touch(cases, m.cond)
        ctx.assume(z3.Implies(m.cond, z3.And(z3.Or(cases) if cases else z3.BoolVal(False),
                                             m.idx == self.base(sj) + pos)))
        self.note_source_member(sm)
        m.origin = (sm, pos)
        if (not self.is_map and Member.cur_gen[0] == 0 and not getattr(self, "_in_succ", False)
                and self.interp.engine_opts.get("successor")):
            # successor instantiation: what the next source index contributes (so that "the last element of
            # the result comes from the last contributing source element" is derivable)
            self._in_succ = True
            try:
                nxt = self.src.new_member(z3.And(m.cond, sj + 1 < self.src.length()), sj + 1)
                self.note_source_member(nxt)
            finally:
                self._in_succ = False

    def note_source_member(self, sm):
        """base() bookkeeping for a source index (also used to learn that it produced nothing)."""
        ctx = self.ctx
        for (om) in self._mapped:
            if om.idx.eq(sm.idx) and om.cond.eq(sm.cond):
                return
        if self.is_map:
            self._mapped.append(sm)
            return
        cnt = self.count(sm.idx)
        ctx.assume(z3.Implies(sm.cond, z3.And(self.base(sm.idx) >= self.minouts * sm.idx,
                                              self.base(sm.idx) <= self.maxouts * sm.idx,
                                              self.base(sm.idx) + cnt <= self._len,
                                              self._len - (self.base(sm.idx) + cnt) >=
                                              self.minouts * (self.src.length() - sm.idx - 1))))
        for om in self._mapped:
            ocnt = self.count(om.idx)
            both = z3.And(sm.cond, om.cond)
            ctx.assume(z3.Implies(z3.And(both, om.idx < sm.idx), self.base(om.idx) + ocnt <= self.base(sm.idx)))
            ctx.assume(z3.Implies(z3.And(both, sm.idx < om.idx), self.base(sm.idx) + cnt <= self.base(om.idx)))
        self._mapped.append(sm)

    def touch(self, exprs, cond):
        if self.interp.engine_opts.get("touch"):
            self.ctx.touch(exprs, cond, skip=self)

    def out_k(self, j, k):
        cur = None
        for p in self.paths:
            if len(p.outs) > k:
                o = self.interp.coerce_elem(self.inst_elem(p.outs[k], j), self.etype)
                g = self.inst(p.guard, j)
                if cur is None:
                    cur = o
                else:
                    cur = self.interp.bm.ite(self.interp, g, o, cur)
        return cur

    def forward(self, sm):
        """image of a source member: the elements it produces are members of this list"""
        ctx = self.ctx
        self.note_source_member(sm)
        cnt = self.count(sm.idx)
        for k in range(self.maxouts):
            o = self.out_k(sm.idx, k)
            if o is None:
                continue
            cond = z3.And(sm.cond, cnt > k)
            self.touch(self.interp.elem_parts(o) + [cnt], sm.cond)
            idx = self.base(sm.idx) + k
            m = Member(idx, self.at(idx), cond, origin=(sm, z3.IntVal(k)))
            self.members.append(m)
            ctx.assume(z3.Implies(cond, z3.And(self.interp.elem_eq(m.elem, o), idx >= 0, idx < self._len)))

    def describe(self):
        return "FM(%s,%d paths)" % (self.src.describe(), len(self.paths))


class Concat(LTerm):
    def __init__(self, interp, parts, etype):
        flat = []
        for p in parts:
            if isinstance(p, Concat):
                flat.extend(p.parts)
            elif isinstance(p, Conc) and not p.items:
                continue
            else:
                flat.append(p)
        if etype is None:
            for p in flat:
                if p.etype is not None:
                    etype = p.etype
                    break
        super().__init__(interp, etype)
        self.parts = flat
        ln = z3.IntVal(0)
        for p in flat:
            ln = ln + p.length()
        self._len = z3.simplify(ln)

    def length(self):
        return self._len

    def define_member(self, m):
        ctx = self.ctx
        sel = ctx.fresh_int("part")
        off = z3.IntVal(0)
        alts = []
        for k, p in enumerate(self.parts):
            c = z3.And(m.cond, sel == k)
            pi = ctx.fresh_int("pi")
            pm = p.new_member(c, pi)
            pm.from_concat = self
            ctx.assume(z3.Implies(c, z3.And(self.interp.elem_eq(m.elem, pm.elem), m.idx == off + pi)))
            alts.append(sel == k)
            off = off + p.length()
        ctx.assume(z3.Implies(m.cond, z3.Or(alts) if alts else z3.BoolVal(False)))

    def forward(self, part_index, pm):
        ctx = self.ctx
        off = z3.IntVal(0)
        for p in self.parts[:part_index]:
            off = off + p.length()
        idx = z3.simplify(off + pm.idx)
        m = Member(idx, self.at(idx), pm.cond)
        self.members.append(m)
        ctx.assume(z3.Implies(pm.cond, z3.And(self.interp.elem_eq(m.elem, pm.elem), idx >= 0, idx < self._len)))

    def describe(self):
        return "Concat(%s)" % ",".join(p.describe() for p in self.parts)


class Drop1(LTerm):
    """inner[1:]"""

    def __init__(self, interp, inner):
        super().__init__(interp, inner.etype)
        self.inner = inner
        n = inner.length()
        self._len = z3.If(n >= 1, n - 1, 0)

    def length(self):
        return self._len

    def define_member(self, m):
        im = self.inner.new_member(m.cond, m.idx + 1)
        self.ctx.assume(z3.Implies(m.cond, self.interp.elem_eq(m.elem, im.elem)))

    def describe(self):
        return "%s[1:]" % self.inner.describe()


class Slice(LTerm):
    """inner[lo:hi] with python's clamping of out-of-range and negative bounds (step 1)"""

    def __init__(self, interp, inner, lo, hi):
        super().__init__(interp, inner.etype)
        self.inner = inner
        n = inner.length()

        def norm(x, default):
            if x is None:
                return default
            x = to_z3(x)
            return z3.If(x < 0, z3.If(x + n < 0, z3.IntVal(0), x + n), z3.If(x > n, n, x))
        self.lo = z3.simplify(norm(lo, z3.IntVal(0)))
        self.hi = z3.simplify(norm(hi, n))
        self._len = z3.simplify(z3.If(self.hi - self.lo > 0, self.hi - self.lo, 0))

    def length(self):
        return self._len

    def define_member(self, m):
        im = self.inner.new_member(m.cond, z3.simplify(self.lo + m.idx))
        self.ctx.assume(z3.Implies(m.cond, self.interp.elem_eq(m.elem, im.elem)))

    def describe(self):
        return "%s[a:b]" % self.inner.describe()


def mk_slice(interp, inner, lo, hi):
    ctx = interp.ctx
    t = Slice(interp, inner, lo, hi)
    key = ("slice", id(inner), t.lo.get_id(), t.hi.get_id())
    if key in ctx.hc:
        return ctx.hc[key]
    ctx.hc[key] = t
    ctx.hc[("pin", t.lo.get_id())] = t.lo  # keep the bound expressions (and so their ids) alive
    ctx.hc[("pin", t.hi.get_id())] = t.hi
    return t


class Reverse(LTerm):
    """inner[::-1]"""

    def __init__(self, interp, inner):
        super().__init__(interp, inner.etype)
        self.inner = inner

    def length(self):
        return self.inner.length()

    def define_member(self, m):
        im = self.inner.new_member(m.cond, self.inner.length() - 1 - m.idx)
        self.ctx.assume(z3.Implies(m.cond, self.interp.elem_eq(m.elem, im.elem)))

    def describe(self):
        return "%s[::-1]" % self.inner.describe()


class Sorted(LTerm):
    """A sorted permutation of `inner` (only created when inner is not provably sorted already)."""

    def __init__(self, interp, inner, lex_le):
        super().__init__(interp, inner.etype)
        self.inner = inner
        self.pair_facts.append((TRUE, lex_le, "sorted"))
        self.perm = z3.Function("perm!" + self.uid, INT, INT)

    def length(self):
        return self.inner.length()

    def define_member(self, m):
        ctx = self.ctx
        pi = self.perm(m.idx)
        im = self.inner.new_member(m.cond, pi)
        m.origin = im
        ctx.assume(z3.Implies(m.cond, self.interp.elem_eq(m.elem, im.elem)))
        for om in self.members:
            if om is not m:
                ctx.assume(z3.Implies(z3.And(m.cond, om.cond, om.idx != m.idx), self.perm(om.idx) != pi))

    def forward(self, pm):
        """an element of the unsorted list occurs somewhere in the sorted one"""
        ctx = self.ctx
        if getattr(self, "iperm", None) is None:
            self.iperm = z3.Function("iperm!" + self.uid, INT, INT)
        q = self.iperm(pm.idx)
        m = Member(q, self.at(q), pm.cond, origin=pm)
        for om in self.members:
            ctx.assume(z3.Implies(z3.And(pm.cond, om.cond, om.idx != q), self.perm(om.idx) != pm.idx))
        self.members.append(m)
        self._mkeys = None
        ctx.assume(z3.Implies(pm.cond, z3.And(self.perm(q) == pm.idx, q >= 0, q < self.length(),
                                              self.interp.elem_eq(m.elem, pm.elem))))
        return m

    def describe(self):
        return "Sorted(%s)" % self.inner.describe()


class Dedup(LTerm):
    """list(set(inner)): the distinct elements of `inner` in an unspecified order (scalar elements only).
    Every element is an element of inner (src), every element of inner occurs (img), no two positions hold equal
    values.  Only what follows from these three facts can be proved about it; in praatIO it is always sorted next."""

    def __init__(self, interp, inner):
        super().__init__(interp, inner.etype)
        if inner.etype is None or inner.etype.kind != "scalar":
            raise Unsupported("set() of a list of non-scalar values")
        self.inner = inner
        ctx = interp.ctx
        self._len = ctx.fresh_int("nset")
        n = inner.length()
        ctx.assume(z3.And(self._len >= 0, self._len <= n, (self._len == 0) == (n == 0)))
        self.src = z3.Function("src!" + self.uid, INT, INT)
        self.img = z3.Function("img!" + self.uid, INT, INT)
        self.pair_facts.append((TRUE, (lambda a, b: to_z3(a) != to_z3(b)), "distinct"))

    def length(self):
        return self._len

    def define_member(self, m):
        im = self.inner.new_member(m.cond, self.src(m.idx))
        m.origin = im
        self.ctx.assume(z3.Implies(m.cond, z3.And(self.interp.elem_eq(m.elem, im.elem), self.img(self.src(m.idx)) == m.idx)))

    def forward(self, pm):
        """an element of the list occurs in its set"""
        ctx = self.ctx
        q = self.img(pm.idx)
        m = Member(q, self.at(q), pm.cond, origin=pm)
        self.members.append(m)
        self._mkeys = None
        ctx.assume(z3.Implies(pm.cond, z3.And(q >= 0, q < self._len, self.interp.elem_eq(m.elem, pm.elem))))
        return m

    def describe(self):
        return "set(%s)" % self.inner.describe()


class AList:
    """Mutable box holding an abstract list term (python list / tuple semantics by reference)."""

    def __init__(self, term, is_tuple=False):
        self.term = term
        self.is_tuple = is_tuple

    def __repr__(self):
        return "AList<%s>" % self.term.describe()


# hash-consing: structurally identical terms built twice on one path (by the real body and by the
# spec, say) are the same object, so facts / witnesses attach to one term.

PLACEHOLDER_J = z3.Int("?j")


def _val_key(interp, v):
    parts = interp.elem_parts(v)
    return tuple((p.sexpr() if is_z3(p) else repr(p)) for p in parts) + (type(v).__name__,)


def mk_fm(interp, src, jvar, paths, etype, binds=()):
    ctx = interp.ctx
    try:
        pk = []

        def canon(e):
            if binds:
                e = z3.substitute(e, *binds)
            return z3.substitute(e, (jvar, PLACEHOLDER_J))
        for p in paths:
            g = canon(p.guard).sexpr()
            outs = tuple(_val_key(interp, interp.elem_map(o, canon)) for o in p.outs)
            pk.append((g, outs))
        key = ("fm", id(src), tuple(sorted(pk)), repr(etype))
    except Exception:
        key = None
    if key is not None and key in ctx.hc:
        return ctx.hc[key]
    # identity map (e.g. re-normalising entries that are already normalised): the list itself
    if (src.etype is not None and etype is not None and binds and paths and all(len(p.outs) == 1 for p in paths)
            and src.etype.kind == etype.kind and src.etype.ntcls is etype.ntcls
            and repr(src.etype.sorts if etype.kind == "tuple" else src.etype.sort)
            == repr(etype.sorts if etype.kind == "tuple" else etype.sort) and ctx.unify_fms):
        consts = [c_ for c_, _ in binds]
        n = len(interp.elem_parts(src.at(jvar)))
        if len(consts) == n:
            goal = []
            for p in paths:
                parts = interp.elem_parts(interp.coerce_elem(p.outs[0], etype))
                goal.append(z3.Implies(p.guard, z3.And([a == b for a, b in zip(parts, consts)])))
            goal = z3.substitute(z3.And(goal), *binds)
            ctx.unify_fms = False
            ctx.quick_mode = True
            try:
                with ctx.scoped():
                    gm = src.any_member(jvar)
                    ident = ctx.entails(z3.Implies(gm.cond, goal))
            finally:
                ctx.unify_fms = True
                ctx.quick_mode = False
            if ident:
                if key is not None:
                    ctx.hc[key] = src
                return src
    t = FM(interp, src, jvar, paths, etype, binds)
    t.pkey = key[2:] if key is not None else None
    ctx.all_fms.append(t)
    if key is not None:
        ctx.hc[key] = t
    # semantic unification: an FM over the same source that is provably the same list (pointwise equal
    # bodies) is the same term, so that witnesses / bounds computed by the real body and by the spec meet
    if ctx.unify_fms and etype is not None:
        from . import listops
        for o in list(ctx.fm_terms):
            if (o.src is src or listops.src_same(o.src, src)) and o.maxouts == t.maxouts and repr(o.etype) == repr(etype):
                ctx.unify_fms = False
                ctx.quick_mode = True
                try:
                    with ctx.scoped():
                        ok, _ = listops.same_fm(interp, o, t)
                finally:
                    ctx.unify_fms = True
                    ctx.quick_mode = False
                if ok:
                    if key is not None:
                        ctx.hc[key] = o
                    return o
        ctx.fm_terms.append(t)
    return t


def mk_sorted(interp, inner, lex_le):
    ctx = interp.ctx
    key = ("sorted", id(inner))
    if key in ctx.hc:
        return ctx.hc[key]
    t = Sorted(interp, inner, lex_le)
    ctx.hc[key] = t
    return t


def mk_concat(interp, parts, etype):
    ctx = interp.ctx
    flat = []
    for p in parts:
        if isinstance(p, Concat):
            flat.extend(p.parts)
        elif isinstance(p, Conc) and not p.items:
            continue
        else:
            flat.append(p)
    if len(flat) == 1:
        return flat[0]
    key = ("concat", tuple(id(p) for p in flat))
    if key in ctx.hc:
        return ctx.hc[key]
    t = Concat(interp, flat, etype)
    ctx.hc[key] = t
    return t


def mk_conc(interp, items, etype=None):
    ctx = interp.ctx
    try:
        key = ("conc", tuple(_val_key(interp, x) for x in items), repr(etype))
        if not all(interp.is_elem(x) for x in items):
            key = None
    except Exception:
        key = None
    if key is not None and key in ctx.hc:
        return ctx.hc[key]
    t = Conc(interp, items, etype)
    if key is not None:
        ctx.hc[key] = t
    return t


def mk_unary(interp, cls, inner):
    ctx = interp.ctx
    key = (cls.__name__, id(inner))
    if key in ctx.hc:
        return ctx.hc[key]
    t = cls(interp, inner)
    ctx.hc[key] = t
    return t


# --------------------------------------------------------------------------
# path context


class Ctx:
    def __init__(self, explorer, prefix, parent=None):
        self.ex = explorer
        self.interp = explorer.interp
        self.prefix = prefix
        self.pos = 0
        self.trace = []
        self.solver = z3.Solver()
        self.solver.set("timeout", SOLVER_TIMEOUT_MS)
        self.facts = []
        self.counter = {}
        self.terms = []
        self.atoms = {}
        self._grounded = set()
        self.parent = parent
        self.pure_depth = 0
        self.notes = []
        self.obligations = []
        self.guard = []  # decisions taken on this path (z3 conds) - used by sub explorations
        self.scope = explorer.scope
        self.children = 0
        self.inputs = {}
        self.hc = {}
        self.fm_terms = []
        self.all_fms = []
        self.uf_owner = {}
        self.links = []
        self._strip_seen = set()
        self._strip_visited = set()
        self.quick_mode = False
        self._nlits = 0
        self.gs = {}
        self.templates = {}
        self._grounding = False
        self.unify_fms = True
        self.fwd_budget = 1500
        self.sk_installed = set()
        self._sk_seen = set()
        if parent is not None:
            self.sk_installed = set(parent.sk_installed)
            parent.ground()
            self.solver.add(parent.solver.assertions())
            self.terms = list(parent.terms)
            self.atoms = parent.atoms
            self._grounded = set(parent._grounded)
            self.inputs = parent.inputs
            self.hc = dict(parent.hc)
            self.fm_terms = list(parent.fm_terms)
            self.all_fms = list(parent.all_fms)
            self.uf_owner = parent.uf_owner
            self.links = list(parent.links)
            self.gs = {k: list(v) for k, v in parent.gs.items()}
            self.templates = parent.templates

    # naming -----------------------------------------------------------
    def fresh_name(self, base):
        n = self.counter.get(base, 0)
        self.counter[base] = n + 1
        return "%s%s#%d" % (base, self.scope, n)

    def fresh_int(self, base):
        return z3.Int(self.fresh_name(base))

    def fresh_real(self, base):
        return z3.Real(self.fresh_name(base))

    def fresh_bool(self, base):
        return z3.Bool(self.fresh_name(base))

    def fresh_str(self, base):
        return z3.Const(self.fresh_name(base), STR)

    def fresh_const(self, base, sort):
        return z3.Const(self.fresh_name(base), sort)

    def fresh_elem(self, etype, base):
        return self.interp.fresh_elem(self, etype, base)

    def atom(self, name, etype):
        a = self.atoms.get(name)
        if a is None:
            a = Atom(self.interp, name, etype)
            self.atoms[name] = a
        return a

    # facts ------------------------------------------------------------
    def assume(self, fact):
        if isinstance(fact, bool):
            if not fact:
                raise PathAbort()
            return
        self.facts.append(fact)
        self.solver.add(fact)
        if len(_LITS) != self._nlits:
            self._literal_axioms()
        if self.interp.skolems:
            self.sk_scan(fact)

    # iteration skolems ---------------------------------------------------
    # A min()/max() evaluated inside an abstracted loop body picks, in iteration j, the element at position W(j) of
    # its argument list R, for a fresh function W.  Whenever W(a) occurs in a fact or a goal for a new argument a,
    # the defining facts of the choice are installed for a:  0 <= W(a) < len(R), and for every element x of R at
    # position i:  key_a(R[W(a)]) <= key_a(x), strictly if i < W(a)  (python returns the first extremal element);
    # key_a is the key expression of the body with the loop variables taken at iteration a.  Defining W at
    # iterations that never reach the call is a conservative extension (R is non-empty whenever the facts apply).
    def sk_scan(self, expr):
        reg = self.interp.skolems
        if expr.get_id() in self._sk_seen:
            return
        if "argm!" not in expr.sexpr():
            # one C-side print instead of a Python traversal: most facts mention no skolem function
            self._sk_seen.add(expr.get_id())
            return
        todo = [expr]
        seen = self._sk_seen
        found = []
        while todo:
            e = todo.pop()
            i = e.get_id()
            if i in seen:
                continue
            seen.add(i)
            if z3.is_app(e):
                if e.num_args() == 1 and e.decl().name() in reg:
                    found.append(e)
                todo.extend(e.children())
            elif z3.is_quantifier(e):
                todo.append(e.body())
        for e in found:
            self.sk_install(reg[e.decl().name()], e.arg(0))

    def sk_install(self, d, a):
        key = (d["W"].name(), a.get_id())
        if key in self.sk_installed or a.eq(d["j"]):
            return
        self.sk_installed.add(key)
        t = d["term"]
        wa = d["W"](a)
        nonempty = t.length() > 0
        binds, jv, tmpl, e_ph, i_ph = d["binds"], d["j"], d["tmpl"], d["e_ph"], d["i_ph"]
        interp = self.interp

        def at_a(x):
            if binds:
                x = z3.substitute(x, *binds)
            return z3.substitute(x, (jv, a))

        def fact(elem, idx):
            parts = [to_z3(x) for x in interp.elem_parts(elem)]
            f = z3.substitute(tmpl, *(list(zip(e_ph, parts)) + [(i_ph, to_z3(idx))]))
            return at_a(f)
        t.new_member(nonempty, wa)
        t.all_facts.append((nonempty, fact, "minmax-sk"))

    def _literal_axioms(self):
        lits = list(_LITS.items())
        new = lits[self._nlits:]
        old = lits[:self._nlits]
        self._nlits = len(lits)
        for i, (s, c) in enumerate(new):
            self.solver.add(S_LEN(c) == len(s))
            for (s2, c2) in old + new[:i]:
                self.solver.add(c != c2)

    def _strip_instances(self, fact):
        """ground instances of  strip(strip(t)) == strip(t)  for every strip-application that appears
        (replaces a quantified axiom: keeps the solver quantifier-free)"""
        sf = getattr(self.interp, "strip_fn", None)
        if sf is None or not self.interp.strip_used:
            return
        seen = self._strip_seen
        visited = self._strip_visited
        stack = [fact]
        new = []
        while stack:
            e = stack.pop()
            k = e.get_id()
            if k in visited:
                continue
            visited.add(k)
            if z3.is_app(e):
                if e.decl().eq(sf):
                    a = e.arg(0)
                    if a.get_id() not in seen:
                        seen.add(a.get_id())
                        new.append(a)
                stack.extend(e.children())
            elif z3.is_quantifier(e):
                stack.append(e.body())
        for a in new:
            self.solver.add(sf(sf(a)) == sf(a))

    # ---- instantiation of schematic facts through cached templates -----------------------
    def _template(self, t, fn, arity):
        key = id(fn)
        ent = self.templates.get(key)
        if ent is not None and ent[0] is fn:
            return ent[1]
        et = t.etype
        try:
            phs = []
            elems = []
            for k in range(arity):
                if et is None:
                    elems.append(None)
                else:
                    e = self.interp.fresh_elem(self, et, "?p%d" % k)
                    elems.append(e)
                    phs.extend(self.interp.elem_parts(e))
            if arity == 1:
                ix = z3.Int("?ix")
                expr = fn(elems[0], ix)
                phs.append(ix)
            else:
                expr = fn(elems[0], elems[1])
            if isinstance(expr, bool):
                expr = z3.BoolVal(expr)
            tpl = (phs, expr)
        except Unsupported:
            tpl = None
        self.templates[key] = (fn, tpl)
        return tpl

    def inst1(self, t, fn, m):
        tpl = self._template(t, fn, 1)
        if tpl is None:
            return fn(m.elem, m.idx)
        phs, expr = tpl
        vals = ([to_z3(p) for p in self.interp.elem_parts(m.elem)] if t.etype is not None else []) + [m.idx]
        return z3.substitute(expr, *[(p, as_sort(v, p)) for p, v in zip(phs, vals)])

    def inst2(self, t, fn, m1, m2):
        tpl = self._template(t, fn, 2)
        if tpl is None:
            return fn(m1.elem, m2.elem)
        phs, expr = tpl
        vals = [to_z3(p) for p in self.interp.elem_parts(m1.elem)] + [to_z3(p) for p in self.interp.elem_parts(m2.elem)]
        return z3.substitute(expr, *[(p, as_sort(v, p)) for p, v in zip(phs, vals)])

    def ground(self):
        """Instantiate schematic list facts on the member witnesses (to a fixpoint)."""
        changed = True
        rounds = 0
        if self._grounding:
            return  # no nested grounding (a fact being instantiated may itself evaluate under a scope)
        self._grounding = True
        Member.deriving[0] += 1
        try:
            self._ground_loop()
        finally:
            Member.deriving[0] -= 1
            self._grounding = False

    def _ground_loop(self):
        changed = True
        rounds = 0
        while changed:
            changed = False
            rounds += 1
            if rounds > 45 and os.environ.get("PYVC_DEBUG_GROUND"):
                print("ROUND", rounds, [(t.describe(), len(t.members), len(t.all_facts), len(t.pair_facts), len(t.adj_facts), self.gs.get(id(t))) for t in self.terms])
            if rounds > 50:
                raise EngineError("grounding does not terminate")
            # linked terms (proved equal as lists): indices of interest are shared
            for (t1, t2) in list(self.links):
                # congruence: the same map/filter over equal lists gives equal lists
                for f1 in self.all_fms:
                    if f1.src is t1 and f1.pkey is not None:
                        for f2 in self.all_fms:
                            if f2.src is t2 and f2.pkey == f1.pkey and f1 is not f2 and \
                                    not any((a is f1 and b is f2) or (a is f2 and b is f1) for a, b in self.links):
                                self.links.append((f1, f2))
                                self.assume(f1.length() == f2.length())
                                changed = True
                j1, j2 = getattr(t1, "_joins", None), getattr(t2, "_joins", None)
                if j1 and j2:
                    for sep, v1 in j1.items():
                        if sep in j2 and (id(t1), id(t2), sep) not in self.hc:
                            self.hc[(id(t1), id(t2), sep)] = True
                            self.assume(v1 == j2[sep])
                            changed = True
                for (a, b) in ((t1, t2), (t2, t1)):
                    done = a.__dict__.setdefault("_linked_%d" % id(b), set())
                    for m in list(a.members):
                        if m.serial in done:
                            continue
                        done.add(m.serial)
                        if m.gen > 0:
                            continue  # indices are shared across a link at most twice (no ping-pong)
                        if b.find_member(m.idx, m.cond) is not None:
                            continue
                        if self.fwd_budget <= 0:
                            continue
                        self.fwd_budget -= 1
                        Member.cur_gen[0] = m.gen + 1
                        try:
                            bm_ = b.new_member(m.cond, m.idx)
                        finally:
                            Member.cur_gen[0] = 0
                        b.__dict__.setdefault("_linked_%d" % id(a), set()).add(bm_.serial)
                        if a.etype is not None and b.etype is not None:
                            self.assume(z3.Implies(m.cond, self.interp.elem_eq(m.elem, bm_.elem)))
                        changed = True
            # forward propagation: images of source members in lists that carry universal facts
            # a filter whose length the program looked at: what each known source element contributes
            for t in list(self.terms):
                if isinstance(t, FM) and not t.is_map and getattr(t, "len_observed", False):
                    n0 = t.__dict__.get("_noted_n", 0)
                    sms = t.src.members
                    if len(sms) != n0:
                        for sm in list(sms):
                            t.note_source_member(sm)
                        t._noted_n = len(sms)
                        changed = True
            flagged = set()
            work = [t for t in self.terms if (t.all_facts or t.pair_facts or t.adj_facts)]
            while work:
                t = work.pop()
                if id(t) in flagged:
                    continue
                flagged.add(id(t))
                if isinstance(t, FM):
                    work.append(t.src)
                elif isinstance(t, Concat):
                    work.extend(t.parts)
                elif isinstance(t, Sorted):
                    work.append(t.inner)
                elif isinstance(t, (Reverse, Slice, Dedup)):
                    work.append(t.inner)
            for t in list(self.terms):
                if id(t) not in flagged:
                    continue
                if isinstance(t, Dedup):
                    done = t.__dict__.setdefault("_fwd", set())
                    have = set(id(m.origin) for m in t.members if m.origin is not None)
                    for pm in list(t.inner.members):
                        if pm.serial in done:
                            continue
                        done.add(pm.serial)
                        if id(pm) in have or pm.gen > 1 or self.fwd_budget <= 0:
                            continue
                        self.fwd_budget -= 1
                        Member.cur_gen[0] = pm.gen + 1
                        try:
                            t.forward(pm)
                        finally:
                            Member.cur_gen[0] = 0
                        changed = True
                    continue
                if isinstance(t, Slice):
                    # an element of the underlying list inside the window is an element of the slice
                    done = t.__dict__.setdefault("_fwd", set())
                    for pm in list(t.inner.members):
                        if pm.serial in done:
                            continue
                        done.add(pm.serial)
                        if pm.gen > 0 or self.fwd_budget <= 0:
                            continue
                        k = z3.simplify(pm.idx - t.lo)
                        if any(m.idx.eq(k) or z3.simplify(t.lo + m.idx).eq(pm.idx) for m in t.members):
                            continue
                        self.fwd_budget -= 1
                        Member.cur_gen[0] = 1
                        try:
                            t.new_member(z3.And(pm.cond, k >= 0, k < t.length()), k)
                        finally:
                            Member.cur_gen[0] = 0
                        changed = True
                    continue
                if isinstance(t, Reverse):
                    # an element of the underlying list is the mirrored element of the reversed one
                    done = t.__dict__.setdefault("_fwd", set())
                    for pm in list(t.inner.members):
                        if pm.serial in done:
                            continue
                        done.add(pm.serial)
                        if pm.gen > 0 or self.fwd_budget <= 0:
                            continue
                        k = z3.simplify(t.length() - 1 - pm.idx)
                        if any(m.idx.eq(k) or z3.simplify(t.length() - 1 - m.idx).eq(pm.idx) for m in t.members):
                            continue
                        self.fwd_budget -= 1
                        Member.cur_gen[0] = 1
                        try:
                            t.new_member(pm.cond, k)
                        finally:
                            Member.cur_gen[0] = 0
                        changed = True
                    continue
                if type(t).__name__ == "PairSpace" and t.source.kind == "adjzip" and \
                        self.interp.engine_opts.get("pair_forward"):
                    # an element of the underlying list takes part in the pairs (i-1, i) and (i, i+1)
                    done = t.__dict__.setdefault("_fwd", set())
                    T = t.source.term
                    for pm in list(T.members):
                        if pm.serial in done:
                            continue
                        done.add(pm.serial)
                        if pm.gen > 0 or self.fwd_budget <= 0:
                            continue
                        self.fwd_budget -= 2
                        Member.cur_gen[0] = 1
                        try:
                            for k in (pm.idx - 1, pm.idx):
                                k = z3.simplify(k)
                                if not any(m.idx.eq(k) for m in t.members):
                                    t.new_member(z3.And(pm.cond, k >= 0, k < t.length()), k)
                        finally:
                            Member.cur_gen[0] = 0
                        changed = True
                    continue
                if isinstance(t, FM):
                    done = t.__dict__.setdefault("_fwd", set())
                    if len(t.src.members) == t.__dict__.get("_fwd_n", -1):
                        continue
                    have = set(id(m.origin[0]) for m in t.members if isinstance(m.origin, tuple))
                    for sm in list(t.src.members):
                        if sm.serial in done:
                            continue
                        done.add(sm.serial)
                        # members that were created *from* this FM (backward) already have their image
                        if id(sm) in have:
                            continue
                        if self.fwd_budget <= 0:
                            continue
                        self.fwd_budget -= 1
                        Member.cur_gen[0] = sm.gen
                        try:
                            t.forward(sm)
                        finally:
                            Member.cur_gen[0] = 0
                        changed = True
                    t._fwd_n = len(t.src.members)
                elif isinstance(t, Sorted) and self.interp.engine_opts.get("sorted_forward"):
                    done = t.__dict__.setdefault("_fwd", set())
                    have = set(id(m.origin) for m in t.members if m.origin is not None)
                    for pm in list(t.inner.members):
                        if pm.serial in done:
                            continue
                        done.add(pm.serial)
                        if id(pm) in have:
                            continue
                        if self.fwd_budget <= 0:
                            continue
                        self.fwd_budget -= 1
                        Member.cur_gen[0] = pm.gen
                        try:
                            t.forward(pm)
                        finally:
                            Member.cur_gen[0] = 0
                        changed = True
                elif isinstance(t, Concat):
                    done = t.__dict__.setdefault("_fwd", set())
                    for pi, p in enumerate(t.parts):
                        if isinstance(p, Conc) and p.etype is not None and not getattr(p, "_all_members", False):
                            p._all_members = True
                            for k in range(len(p.items)):
                                p.new_member(TRUE, z3.IntVal(k))
                    for pi, p in enumerate(t.parts):
                        for pm in list(p.members):
                            if pm.serial in done:
                                continue
                            done.add(pm.serial)
                            if getattr(pm, "from_concat", None) is t:
                                continue
                            if self.fwd_budget <= 0:
                                continue
                            self.fwd_budget -= 1
                            Member.cur_gen[0] = pm.gen
                            try:
                                t.forward(pi, pm)
                            finally:
                                Member.cur_gen[0] = 0
                            changed = True
            sf = self.interp.strip_fn
            for t in list(self.terms):
                ms = t.members
                st = self.gs.get(id(t))
                if st is None:
                    st = [0, 0, 0, 0]
                    self.gs[id(t)] = st
                nm, na, npf, nj = st
                M, A, P, J = len(ms), len(t.all_facts), len(t.pair_facts), len(t.adj_facts)
                if (nm, na, npf, nj) == (M, A, P, J):
                    continue
                changed = True
                # idempotence of strip on every string component of a new member (A4)
                if t.etype is not None:
                    for m in ms[nm:]:
                        for p in self.interp.elem_parts(m.elem):
                            if is_z3(p) and p.sort() == STR:
                                self.solver.add(sf(sf(p)) == sf(p))
                for mi in range(M):
                    m = ms[mi]
                    lo = 0 if mi >= nm else na
                    for fi in range(lo, A):
                        fc, fn, tag = t.all_facts[fi]
                        self.assume(z3.Implies(z3.And(m.cond, fc), self.inst1(t, fn, m)))
                if P or J:
                    for i1 in range(M):
                        for i2 in range(M):
                            if i1 == i2:
                                continue
                            new_pair = i1 >= nm or i2 >= nm
                            m1, m2 = ms[i1], ms[i2]
                            for fi in range(0 if new_pair else npf, P):
                                fc, fn, tag = t.pair_facts[fi]
                                self.assume(z3.Implies(z3.And(m1.cond, m2.cond, fc, m1.idx < m2.idx),
                                                       self.inst2(t, fn, m1, m2)))
                            for fi in range(0 if new_pair else nj, J):
                                fc, fn, tag = t.adj_facts[fi]
                                self.assume(z3.Implies(z3.And(m1.cond, m2.cond, fc, m2.idx == m1.idx + 1),
                                                       self.inst2(t, fn, m1, m2)))
                # (written back through the dict: a scoped evaluation inside a fact replaces ctx.gs by its snapshot)
                self.gs[id(t)] = [M, A, P, J]

    def touch(self, exprs, cond, skip=None):
        """trigger-based instantiation: every element  T.f(i)  of a list that the expressions mention becomes an
        index of interest of T (valid where cond holds and i is in range)"""
        owners = self.uf_owner
        seen = set()
        stack = [e for e in exprs if is_z3(e)]
        found = []
        while stack:
            e = stack.pop()
            k = e.get_id()
            if k in seen:
                continue
            seen.add(k)
            if z3.is_app(e):
                d = e.decl()
                if d.kind() == z3.Z3_OP_UNINTERPRETED and e.num_args() == 1:
                    t = owners.get(d.name())
                    if t is not None and t is not skip:
                        found.append((t, e.arg(0)))
                stack.extend(e.children())
        for t, idx in found:
            if not any(m.idx.eq(idx) for m in t.members):
                t.new_member(z3.And(cond, idx >= 0, idx < t.length()), idx)

    def eval_under(self, cond, thunk):
        """evaluate thunk() (a pure computation returning z3 expressions) with cond assumed; the assumption and
        any witnesses are discarded, the elements the result mentions are re-registered under cond"""
        with self.scoped():
            self.assume(cond)
            r = thunk()
        self.touch([r] if is_z3(r) else [x for x in (r if isinstance(r, (list, tuple)) else []) if is_z3(x)], cond)
        return r

    # scoped proof attempts -------------------------------------------
    def scoped(self):
        """context manager: everything assumed / every witness created inside is discarded afterwards
        (used for side proofs such as 'this list is already sorted', so that their arbitrary indices
        do not stay around and multiply instantiations)"""
        return _Scope(self)

    # solving ----------------------------------------------------------
    def check(self, *extra, quick=False):
        if self.interp.skolems:
            for e in extra:
                if z3.is_expr(e):
                    self.sk_scan(e)
        self.ground()
        t0 = time.time()
        if quick:
            self.solver.set("timeout", FEAS_TIMEOUT_MS)
        try:
            r = self.solver.check(*extra)
        finally:
            if quick:
                self.solver.set("timeout", SOLVER_TIMEOUT_MS)
        if r == z3.unknown and not quick:
            # second opinion from a fresh (non-incremental) solver: different tactic pipeline
            s2 = z3.Solver()
            s2.set("timeout", SOLVER_TIMEOUT_MS * 2)
            s2.add(self.solver.assertions())
            s2.add(*extra)
            r = s2.check()
            STATS["fresh_retries"] = STATS.get("fresh_retries", 0) + 1
            if r == z3.sat:
                self._last_model = s2.model()
        STATS["solver_calls"] += 1
        STATS["solver_s"] += time.time() - t0
        return r

    def entails(self, goal, quick=False, patient=False):
        """True iff goal follows from the path facts (unsat of the negation).  `patient`: a final proof goal - an
        `unknown` (time-out, e.g. on a loaded machine) is retried once with four times the budget, so that verdicts
        do not depend on the load; a refuted goal answers `sat` quickly and is not affected."""
        if isinstance(goal, bool):
            return goal
        goal = z3.simplify(goal)
        if z3.is_true(goal):
            return True
        r = self.check(z3.Not(goal), quick=quick or self.quick_mode)
        if r == z3.unknown and patient and not (quick or self.quick_mode):
            s2 = z3.Solver()
            s2.set("timeout", SOLVER_TIMEOUT_MS * 8)
            s2.add(self.solver.assertions())
            s2.add(z3.Not(goal))
            t0 = time.time()
            r = s2.check()
            STATS["patient_retries"] = STATS.get("patient_retries", 0) + 1
            STATS["solver_s"] += time.time() - t0
            if r == z3.sat:
                self._last_model = s2.model()
        return r == z3.unsat

    def model_for(self, *extra):
        r = self.check(*extra)
        if r == z3.sat:
            return self.solver.model()
        return None

    def decide(self, cond, note=None):
        if isinstance(cond, bool):
            return cond
        cond = z3.simplify(cond)
        if z3.is_true(cond):
            return True
        if z3.is_false(cond):
            return False
        if self.pure_depth:
            # no fork inside a pure evaluation: the condition must already be decided by the path
            if self.check(z3.Not(cond), quick=True) == z3.unsat:
                return True
            if self.check(cond, quick=True) == z3.unsat:
                return False
            raise Unsupported("branch on a symbolic condition inside a pure (fact) evaluation: %s" % str(cond)[:200])
        if self.pos < len(self.prefix):
            d = self.prefix[self.pos]
        else:
            t = self.check(cond, quick=True)
            f = self.check(z3.Not(cond), quick=True)
            if t == z3.unsat and f == z3.unsat:
                raise PathAbort()
            if t == z3.unsat:
                d = Decision(False, False, note)
            elif f == z3.unsat:
                d = Decision(True, False, note)
            else:
                d = Decision(True, True, note)
        self.pos += 1
        self.trace.append(d)
        c = cond if d.val else z3.Not(cond)
        self.guard.append(c)
        self.assume(c)
        if d.flippable or not d.val:
            self.notes.append("%s=%s" % (note, d.val))
        return d.val


BOOK_PREFIXES = ("_fwd", "_noted_n", "_linked_", "_all_members", "_empty_known", "_joins", "_mkeys", "_sorted_proved")


def snapshot_terms(terms):
    """lengths of the per-term registries and copies of the per-term bookkeeping (all of it is per path /
    per scope: anything recorded while a scope or a child exploration is active must be forgotten afterwards)"""
    snap = []
    for t in terms:
        book = {}
        for k, v in t.__dict__.items():
            if k.startswith(BOOK_PREFIXES):
                book[k] = set(v) if isinstance(v, set) else (dict(v) if isinstance(v, dict) else v)
        snap.append((t, len(t.members), len(t.all_facts), len(t.pair_facts), len(t.adj_facts),
                     len(getattr(t, "_mapped", [])), book))
    return snap


def restore_terms(snap):
    for (t, nm, na, np_, nj, nmap, book) in snap:
        del t.members[nm:]
        del t.all_facts[na:]
        del t.pair_facts[np_:]
        del t.adj_facts[nj:]
        if hasattr(t, "_mapped"):
            del t._mapped[nmap:]
        for k in [k for k in t.__dict__ if k.startswith(BOOK_PREFIXES)]:
            del t.__dict__[k]
        for k, v in book.items():
            if k == "_mkeys":
                continue
            t.__dict__[k] = set(v) if isinstance(v, set) else (dict(v) if isinstance(v, dict) else v)
        t._mkeys = None


class _Scope:
    def __init__(self, ctx):
        self.ctx = ctx

    def __enter__(self):
        ctx = self.ctx
        ctx.ground()
        ctx.solver.push()
        self.nterms = len(ctx.terms)
        self.snap = snapshot_terms(ctx.terms)
        self.nfacts = len(ctx.facts)
        self.gs = {k: list(v) for k, v in ctx.gs.items()}
        self.hc = dict(ctx.hc)
        self.nfm = len(ctx.fm_terms)
        self.nallfm = len(ctx.all_fms)
        self.nlinks = len(ctx.links)
        self.nlits = ctx._nlits
        self.budget = ctx.fwd_budget
        self.rank_terms = list(ctx.__dict__.get("rank_terms", []))
        self.sk_installed = set(ctx.sk_installed)
        self.sk_seen = set(ctx._sk_seen)
        return self

    def __exit__(self, *exc):
        ctx = self.ctx
        ctx.solver.pop()
        restore_terms(self.snap)
        del ctx.terms[self.nterms:]
        del ctx.facts[self.nfacts:]
        ctx.gs = self.gs
        ctx.hc = self.hc
        del ctx.fm_terms[self.nfm:]
        del ctx.all_fms[self.nallfm:]
        del ctx.links[self.nlinks:]
        ctx._nlits = self.nlits
        ctx.fwd_budget = self.budget
        if "rank_terms" in ctx.__dict__:
            ctx.rank_terms = self.rank_terms
        ctx.sk_installed = self.sk_installed
        ctx._sk_seen = self.sk_seen
        return False


class Explorer:
    def __init__(self, interp, max_paths=4000, scope=""):
        self.interp = interp
        self.max_paths = max_paths
        self.scope = scope

    def child(self, parent_ctx):
        parent_ctx.children += 1
        return Explorer(self.interp, self.max_paths, scope="%s~%d" % (parent_ctx.scope, parent_ctx.children))

    def explore(self, fn, parent=None):
        """Run fn(ctx) on every feasible path; yields (ctx, result)."""
        prefix = []
        n = 0
        while True:
            ctx = Ctx(self, prefix, parent=parent)
            n += 1
            STATS["paths"] += 1
            if n > self.max_paths:
                raise Unsupported("path limit exceeded")
            prev = self.interp.ctx
            self.interp.ctx = ctx
            try:
                res = fn(ctx)
            except PathAbort:
                res = PathAbort
            finally:
                self.interp.ctx = prev
            if res is not PathAbort:
                yield ctx, res
            tr = ctx.trace
            while tr and not (tr[-1].flippable and tr[-1].val is True):
                tr.pop()
            if not tr:
                return
            last = tr[-1]
            tr[-1] = Decision(False, False, last.note)
            prefix = tr
