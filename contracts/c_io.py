"""Sidecar contracts for the dictionary stages of saving (C01-C04): the plain-json conversion pair and
_prepTgForSaving (override plumbing, verbatim writing, blank filling through the real _fillInBlanks).

The number of tiers is enumerated (0..3 / 0..2); names, spans and entries are symbolic."""
from pyvc.contracts import contract
IO = "praatio.utilities.textgrid_io."


def tg_dict(S, k, kinds="IP", lo=None, hi=None):
    """a textgrid dictionary with k tiers (count enumerated; names, spans, entries symbolic).  lo / hi: span overrides
    that enclose every entry (outside that region the property demands an exception: known finding KF02)"""
    tiers = []
    env = {}
    inside = {"I": "(lo is None or lo <= e[0]) and (hi is None or e[1] <= hi)",
              "P": "(lo is None or lo <= e[0]) and (hi is None or e[0] <= hi)"}
    for i in range(k):
        interval = kinds[i % len(kinds)] == "I"
        n = S.str("t%d.name" % i)
        env["n%d" % i] = n
        tiers.append({"class": "IntervalTier" if interval else "TextTier", "name": n,
                      "xmin": S.real("t%d.xmin" % i), "xmax": S.real("t%d.xmax" % i),
                      "entries": S.list("t%d.entries" % i, "tuple3" if interval else "tuple2",
                                        all=inside["I" if interval else "P"], env={"lo": lo, "hi": hi})})
    for i in range(k):
        for j in range(i + 1, k):
            S.assume("n%d != n%d" % (i, j), env)
    return {"xmin": S.real("xmin"), "xmax": S.real("xmax"), "tiers": S.pylist(tiers)}


contract("spec.harness.json_down_up", serves=["C01", "C03"], spec_module="spec.scalars", modular=False,
         configs={"k": [0, 1, 2, 3]},
         inputs=lambda S, cfg: dict(tgAsDict=tg_dict(S, cfg["k"])),
         spec="spec.scalars.json_down_up", raises={})

def prep_inputs(S, cfg):
    lo = None if cfg["minTimestamp"] is None else S.real("minTimestamp")
    hi = None if cfg["maxTimestamp"] is None else S.real("maxTimestamp")
    return dict(tg=tg_dict(S, cfg["k"], "IP" if cfg["blanks"] is False else "P", lo, hi),
                includeBlankSpaces=cfg["blanks"] is not False, minTimestamp=lo, maxTimestamp=hi,
                minimumIntervalLength=S.real("minimumIntervalLength"))


contract(IO + "_prepTgForSaving", serves=["C04", "C01"], spec_module="spec.scalars",
         configs={"k": [0, 1, 2], "blanks": [False, "points-only"], "minTimestamp": [None, "sym"],
                  "maxTimestamp": [None, "sym"]},
         inputs=lambda S, cfg: prep_inputs(S, cfg),
         spec="spec.scalars.prepTgForSaving_verbatim", raises={})


def fill_inputs(S, cfg):
    lo = None if cfg["minTimestamp"] is None else S.real("minTimestamp")
    hi = None if cfg["maxTimestamp"] is None else S.real("maxTimestamp")
    tiers = []
    for i in range(cfg["k"]):
        tiers.append({"class": "IntervalTier", "name": S.str("t%d.name" % i),
                      "xmin": S.real("t%d.xmin" % i), "xmax": S.real("t%d.xmax" % i),
                      "entries": S.list("t%d.entries" % i, "Interval", all="e.start < e.end", pair="a.end <= b.start")})
    return dict(tg={"xmin": S.real("xmin"), "xmax": S.real("xmax"), "tiers": S.pylist(tiers)},
                includeBlankSpaces=True, minTimestamp=lo, maxTimestamp=hi, minimumIntervalLength=None)


FLO = "(old['tg']['xmin'] if minTimestamp is None else minTimestamp)"
FHI = "(old['tg']['xmax'] if maxTimestamp is None else maxTimestamp)"
OUTSIDE = " or ".join("(len(old['tg']['tiers']) > %d and len(old['tg']['tiers'][%d]['entries']) > 0 and "
                      "(old['tg']['tiers'][%d]['entries'][0][0] < %s or old['tg']['tiers'][%d]['entries'][-1][1] > %s))"
                      % (i, i, i, FLO, i, FHI) for i in range(2))

contract(IO + "_prepTgForSaving", variant="fill", serves=["C04", "C02"], spec_module="spec.scalars",
         configs={"k": [1, 2], "minTimestamp": [None, "sym"], "maxTimestamp": [None, "sym"]},
         inputs=fill_inputs,
         requires=[r.replace("old['tg']", "tg") for r in
                   ["0 <= %s" % FLO, "%s < %s" % (FLO, FHI), "%s <= 1e15" % FHI]],
         engine_opts={"successor": True, "touch": True, "pair_forward": True, "sorted_forward": True},
         raises={"ParsingError": OUTSIDE},
         ensures=[("file-span", "result['xmin'] == %s and result['xmax'] == %s" % (FLO, FHI)),
                  ("gap-free", "forall(result['tiers'], lambda t: adjacent(t['entries'], lambda a, b: a[1] == b[0]))"),
                  ("positive-length", "forall(result['tiers'], lambda t: forall(t['entries'], lambda e: e[0] < e[1]))"),
                  ("tiles-the-span", "forall(result['tiers'], lambda t: t['entries'][0][0] == %s and "
                                     "t['entries'][-1][1] == %s)" % (FLO, FHI))])
from contracts.c_textgrid import _textgrid  # noqa: E402

contract("spec.harness.tg_dict_roundtrip", serves=["C01", "C03"], spec_module="spec.textgrids", modular=False,
         configs={"k": [0, 1, 2], "reportingMode": ["silence", "warning", "error"]},
         inputs=lambda S, cfg: dict(tg=_textgrid(S, "tg", cfg["k"])[0], reportingMode=cfg["reportingMode"]),
         frame=["tg"], raises={},
         ensures=[("same-span", "result.minTimestamp == tg.minTimestamp and result.maxTimestamp == tg.maxTimestamp"),
                  ("same-names-in-order", "result.tierNames == tg.tierNames"),
                  ("same-tiers", "forall(range(len(tg.tierNames)), lambda i: result.tiers[i].entries == tg.tiers[i].entries "
                                 "and type(result.tiers[i]) is type(tg.tiers[i]) "
                                 "and result.tiers[i].name == tg.tiers[i].name "
                                 "and result.tiers[i].minTimestamp == tg.tiers[i].minTimestamp "
                                 "and result.tiers[i].maxTimestamp == tg.tiers[i].maxTimestamp)")])


# ---- C02 / C01: the two text writers equal the format grammar (spec/render.py) for 0..2 tiers with any number of
# entries.  The string accumulation loops are summarised by R-STRFOLD (pyvc/loops.py): acc ++ join(flatMap(chunk))
contract(IO + "_tgToShortTextForm", serves=["C02", "C01"], spec_module="spec.render",
         configs={"k": [0, 1, 2]},
         inputs=lambda S, cfg: dict(tg=tg_dict(S, cfg["k"])),
         spec="spec.render.short_textgrid", frame=["tg"], raises={})
contract(IO + "_tgToLongTextForm", serves=["C02", "C01"], spec_module="spec.render",
         configs={"k": [0, 1, 2]},
         inputs=lambda S, cfg: dict(tg=tg_dict(S, cfg["k"])),
         spec="spec.render.long_textgrid", frame=["tg"], raises={})


# ---- C19: the writers of KlattGrid point tiers equal the grammar in spec/render.py (any number of points)
KG2 = "praatio.data_classes.klattgrid."
contract(KG2 + "KlattSubPointTier.getAsText", serves=["C19"], spec_module="spec.render",
         inputs=lambda S, cfg: dict(self=S.obj(KG2 + "KlattSubPointTier", name=S.str("self.name"),
                                               _entries=S.list("self.entries", "pair"),
                                               minTimestamp=S.real("self.min"), maxTimestamp=S.real("self.max"))),
         requires=["-1e15 <= self.minTimestamp", "self.minTimestamp <= 1e15"],
         spec="spec.render.klatt_subpoint_tier", raises={})
contract(KG2 + "KlattPointTier.getAsText", serves=["C19"], spec_module="spec.render",
         inputs=lambda S, cfg: dict(self=S.obj(KG2 + "KlattPointTier", name=S.str("self.name"),
                                               _entries=S.list("self.entries", "pair"),
                                               minTimestamp=S.real("self.min"), maxTimestamp=S.real("self.max"))),
         requires=["-1e15 <= self.minTimestamp", "self.minTimestamp <= 1e15"],
         spec="spec.render.klatt_point_tier", raises={})


# ---- C02 / C04: getTextgridAsStr renders the requested text format from the dictionary _prepTgForSaving hands over
# (blank filling off; the json formats go through json.dumps: assumption A3, not under contract)
def gtas_inputs(S, cfg):
    lo = None if cfg["override"] is None else S.real("minTimestamp")
    hi = None if cfg["override"] is None else S.real("maxTimestamp")
    return dict(tg=tg_dict(S, cfg["k"], "IP", lo, hi), format=cfg["format"], includeBlankSpaces=False,
                minTimestamp=lo, maxTimestamp=hi, minimumIntervalLength=S.real("minimumIntervalLength"))


contract(IO + "getTextgridAsStr", serves=["C02", "C04"], spec_module="spec.render",
         configs={"k": [1, 2], "format": ["short_textgrid", "long_textgrid", "bogus"], "override": [None, "sym"]},
         inputs=gtas_inputs, spec="spec.render.textgrid_as_str")
