"""Per-property plan: which level is claimed, which bounded stand-ins run, which canaries apply."""

PLAN = {
    "C06": {
        "level": "proof",
        "explanation": "crop: getIntervalsInInterval, IntervalTier.crop, PointTier.crop, Textgrid.crop and the two tier "
                       "constructors are symbolically executed from /repo's AST and proved equal, path by path, to spec "
                       "functions written from the property text; wf/span/name postconditions proved on the real outcome.",
        "bounded": [],
        "quick_canaries": 3,
        "claim": "For all well-formed tiers, windows, modes and rebase flags (no bound on tier size), every path of the real "
                 "crop code is proved to return exactly what the property prescribes (kept set, truncation, shift, span, "
                 "ArgumentError iff a >= b, no other exception), via per-function contracts discharged by z3.",
        "note": "REAL arithmetic (floats as reals); builtin/list models and the loop-shape reading are trusted (A1, A2); "
                "Textgrid.crop is covered through C12's contract when built",
        "technique": "contract-based deductive verification (symbolic execution of the real AST to VCs, z3)",
    },
}

TECH = "contract-based deductive verification (symbolic execution of the real AST to VCs, z3)"
NOTE = ("REAL arithmetic (floats as reals); builtin/list models and the loop-shape reading are trusted (A1, A2); "
        "spec functions in /verif/spec are the reference semantics")

PLAN["C08"] = {
    "level": "proof",
    "explanation": "insertSpace (both tier classes) proved equal, path by path, to the per-entry spec taken from the "
                   "property; span/wf postconditions proved on the real outcome; constructors under contract.",
    "bounded": [], "quick_canaries": 3,
    "claim": "For all well-formed tiers, insertion points, durations > 0 and collision modes, the real insertSpace "
             "returns exactly the entries the property prescribes (unchanged / shifted by d / stretched / split / "
             "rejected), span lengthened by d, result well-formed.",
    "note": NOTE + "; the rounding clause (RND/FP64) and the eraseRegion inverse law are separate obligations listed in "
                   "the evidence when built", "technique": TECH,
}
PLAN["C09"] = {
    "level": "proof",
    "explanation": "editTimestamps (both tier classes) and appendTier proved equal to the property-derived specs "
                   "(shift, drop, clip, OutOfBounds iff error mode and out of the old span, hull span); wf postconditions.",
    "bounded": [], "quick_canaries": 3,
    "claim": "For all well-formed tiers, offsets and reporting modes the real code moves every entry by exactly the "
             "offset, drops/clips at 0 as stated, reports as the mode says, never shrinks the span; appendTier yields "
             "A's entries followed by B's shifted by A's end with span [A.min, A.max+B.max].",
    "note": NOTE, "technique": TECH,
}

PLAN["C11"] = {
    "level": "proof",
    "explanation": "IntervalTier.insertEntry (3 collision modes x 2 reporting modes) and deleteEntry proved equal to the "
                   "list-model spec from the property text; wf of the mutated tier proved; the delete loops are "
                   "discharged by the R-ERASE rule under the stated distinguishability precondition.",
    "bounded": [], "quick_canaries": 3,
    "claim": "For all well-formed interval tiers with pairwise distinguishable entries and all new entries, insertEntry "
             "adds / replaces / merges exactly as the collision policy says, the tier stays sorted, disjoint and "
             "inside a span grown just enough; deleteEntry removes the first entry equal to the argument or raises.",
    "note": NOTE + "; precondition: no two entries equal under Interval.__eq__'s 1e-9 tolerance (the sliver region "
                   "is exercised by the bounded check c10_setops and recorded as a known finding); "
                   "collisionReportingMode='error' is outside the documented Literal and excluded; "
                   "PointTier.insertEntry is covered by the bounded layer only",
    "technique": TECH,
}

OTHER_NOTE = ("the deductive part is REAL-arithmetic, with builtin/list models and the loop-shape reading trusted (A1, A2); "
              "the bounded stand-ins execute the real code over the stated finite domains against oracles written "
              "from the property text / independent format specs in /verif/spec and are never counted as proved")
MIXED = "contract-based deductive verification of the kernels (pyvc/z3) + labelled bounded stand-ins for the rest"


def other(expl, claim, bounded, extra_note=""):
    return {"level": "other", "explanation": expl, "claim": claim, "bounded": bounded, "quick_canaries": 2,
            "note": OTHER_NOTE + extra_note, "technique": MIXED}


PLAN["C01"] = other(
    "Deductive: the numeric codec kernel numToStr o strToIntOrFloat is proved (on the Repr/Dec abstraction of repr() and "
    "%d) to return the timestamp bit-identically or, within 1e-14 relative of an integer, that integer, never to "
    "raise, and to be a fixed point of re-saving; the plain-json conversion pair (_downconvertDictionaryForJson then "
    "_upconvertDictionaryFromJson, <= 3 tiers, names / spans / entries symbolic) is proved to keep names, order, types "
    "and entries and to replace every tier span by the textgrid span (the stated exemption); _prepTgForSaving is proved "
    "to write entries verbatim (sorted) with blank filling off and to make a span override the file's span; the object "
    "-> dictionary -> object stages at the two ends of save / open (_tgToDictionary, _dictionaryToTg through the tier "
    "constructors' and addTier's contracts, <= 2 tiers) are proved to return the same span, names in order, tier "
    "classes, tier spans and entries, raising nothing; the two text writers equal the format grammar (shared with C02). "
    "Bounded: full save/open round trip through the four formats.",
    "Numbers survive the text codec exactly (proved, all x in [0,1e15]); the whole-file round trip holds on the stated "
    "bounded domain (labels with quotes/newlines/keywords, 9 critical numbers, 4 formats x 2 x 2 flags).",
    ["c01_roundtrip"], "; the regex/offset text readers are outside any solver's reach here (DESIGN 1)")
PLAN["C02"] = other(
    "Bounded: files written by save are parsed by an independent tokenizer written from Praat's format page and the "
    "README schemas; sizes, quote doubling, partition property, four formats agree; the spec writer/reader pair is "
    "itself checked. Deductive: numeric codec kernel (shared with C01); _fillInBlanks proved to produce an ascending, "
    "gap-free, overlap-free partition of the requested span; _prepTgForSaving (blank filling on, <= 2 interval tiers) "
    "proved to hand the writers tiers that each tile the file span; the two text writers _tgToShortTextForm and "
    "_tgToLongTextForm are proved equal, character atom by character atom, to the format grammar in spec/render.py "
    "(written from Praat's format page) for 0..2 tiers with ANY number of entries: header, span, <exists>, every "
    "declared size equal to the number of items written, fields in the documented order, items numbered from 1, "
    "every number printed by numToStr, every name / label passed through escapeQuotes between double quotes (string "
    "accumulation loops summarised by rule R-STRFOLD; strings are uninterpreted atoms under an associative "
    "concatenation, so what quote doubling does to the characters stays with the bounded check); getTextgridAsStr "
    "is proved to apply the requested text format's grammar to the dictionary prepared for saving (entries in time "
    "order, override as span; <= 2 tiers, blank filling off) and to reject an unknown format before touching anything.",
    "Written files are well-formed and the four formats agree on the stated bounded domain; numbers are printed "
    "decodably (proved kernel).", ["c02_wellformed", "spec_pair_selfcheck"])
PLAN["C03"] = other(
    "Deductive: numeric decode kernel; _removeBlanks omits exactly the empty-labelled entries; the plain-json "
    "up-conversion after down-conversion returns names, order, types and entries with the textgrid span on every tier "
    "(<= 3 tiers); _dictionaryToTg after _tgToDictionary returns an equal textgrid (<= 2 tiers). Bounded: files from "
    "the independent writers (long, short, ELAN-long, two JSON) x encodings x newlines x flags opened by praatio.",
    "The reader returns what a spec-conformant file encodes on the stated bounded domain; blank removal and number "
    "decoding are proved.", ["c03_reader"])
PLAN["C04"] = other(
    "Deductive: _fillInBlanks (closed-form fold rule for the carried prevEnd) is proved, for every sorted disjoint "
    "tier and every min/max override, to return a gap-free, positive-length, sorted chain from the requested start to "
    "the requested end, and to raise ParsingError exactly when the first entry starts before / the last ends after the "
    "requested span. _prepTgForSaving itself (the real _fillInBlanks executed at its call site; tier COUNT enumerated, "
    "<= 2) is proved: a min/max override becomes the file's span; with blank filling off, or for point tiers, entries "
    "are handed to the writers verbatim in time order with names, classes and tier spans untouched; with blank filling "
    "on and the threshold disabled every interval tier tiles the file span with positive-length intervals, and "
    "ParsingError is raised exactly when an entry of an interval tier lies outside the requested span. "
    "Bounded: sweep of sliver positions/lengths, thresholds, overrides and formats, files read back "
    "with the independent reader (absorption of slivers, verbatim writing without blank filling, point tiers).",
    "Blank filling yields a partition of the requested span and rejects entries outside it (proved for interval "
    "tiers); sliver absorption and the remaining clauses on the stated bounded domain.",
    ["c04_save_sweep"], "; _removeUltrashortIntervals (in-place accumulator fold) is not under contract; that the "
    "original entries are among the written ones is checked bounded, not proved")
PLAN["C10"] = other(
    "Deductive: the merge kernel IntervalTier.insertEntry(merge) that union is built on, and the overlap classifier "
    "getIntervalsInInterval (crop truncated) that intersection/mergeLabels/difference are built on, are proved against "
    "their specs; union (interval and point tiers) and difference are proved to return a well-formed tier without "
    "mutating their operands for all pairs of tiers (loop invariant rule R-INV over the insertEntry / eraseRegion "
    "contracts); intersection and mergeLabels return a well-formed tier or raise TextgridStateError, operands "
    "untouched; mergeTiers keeps names/order/spans. Bounded: all pairs of tiers on a 5-cell grid x 2 labels against the labelled-time algebra.",
    "Set operations obey the algebra of labelled time for all 571x571 grid pairs (+6-cell pairs in thorough, random "
    "larger pairs); their kernels, and well-formedness of union / difference results, are proved for all inputs.",
    ["c10_setops"])
PLAN["C14"] = other(
    "Deductive: PointTier.dejitter proved equal to the spec from the property for all tiers, all reference timestamp "
    "lists and all maxDifference > 0 (each time moves to the nearest reference timestamp - the first of two "
    "equidistant ones - iff within maxDifference, inclusive and tolerant like isclose; labels and count kept; "
    "adjusted times stay in time order; ValueError iff the reference has no timestamps); the per-iteration "
    "min(..., key=) is handled by an iteration skolem function. The tolerance comparison lessThanOrEqual / isclose "
    "is proved separately. IntervalTier.dejitter and morph are proved to return a well-formed tier with the same "
    "number of entries or to raise TextgridStateError (SafeZipException for mismatched counts) and nothing else, without "
    "touching their operands - the clause 'raises instead of returning an ill-formed tier' - by summarising their "
    "loops as arbitrary lists handed to the validating constructor (R-HAVOC). Bounded: which timestamps "
    "IntervalTier.dejitter moves, alignBoundariesAcrossTiers and morph's durations/gaps on dyadic grids (exhaustive) "
    "and random decimals.",
    "Boundary adjusters move times only as far as allowed and keep labels: proved for point-tier dejitter and the "
    "threshold kernel, the rest on the stated bounded domain.", ["c14_adjusters"])
PLAN["C15"] = other(
    "Deductive: getValuesInInterval (start <= t <= end, order kept), intervalOverlapCheck (no/time threshold, "
    "boundaryInclusive), find (exact / substring, both tier classes: exactly the matching indices, in order) and "
    "getNonEntries (exactly the positive-length unlabelled stretches of [0, maxTimestamp], ordered, in span), "
    "invertIntervalList (the complement of a sorted disjoint interval list within optional bounds: exactly the "
    "positive-length uncovered stretches, in order) and "
    "validate() of both tier classes in the non-raising modes (False exactly when an entry is invalid, out of span "
    "or out of order - for arbitrary, not necessarily well-formed tiers; Textgrid.validate for <= 2 tiers: False "
    "exactly when a tier's span differs from the textgrid's or a tier is invalid) and timestamps (strictly sorted, "
    "exactly the boundary times) proved for all inputs. Bounded: "
    "find with regular expressions, getValuesInIntervals/AtPoints, invertIntervalList on unsorted lists, equality and "
    "reportingMode='error' on exhaustive small grids.",
    "Queries agree with their definitions: eight queries proved for all inputs, the rest on the stated bounded "
    "domain.",
    ["c15_queries"])
PLAN["C16"] = other(
    "Deductive: Wav._getIndexAtTime is proved sample-aligned and equal to width*round(t*rate) for the enumerated "
    "rates/widths and all real t; getFrames, deleteSegment, insert, replaceSegment and concatenate are proved, for "
    "recordings of any length and arbitrary real times inside the recording, to act at exactly those byte offsets: "
    "whole samples, exactly the addressed bytes returned / removed / inserted, every other byte unchanged and in "
    "order (quantified postconditions over a slice term); inserting and then deleting the same stretch is proved to "
    "restore the byte string whenever the insertion time is not exactly half way between two samples (there "
    "round-half-even breaks the law: known finding KF08); duration * rate * width equals the byte count. Bounded: list-of-samples model for sequences of "
    "operations, conversions samples<->bytes, save/open, QueryWav.",
    "Every time-addressed Wav operation acts on whole samples at the nearest sample index and leaves everything else "
    "alone: proved per operation for all times and contents (rates/widths enumerated); byte<->sample conversion, "
    "files and operation sequences checked against the sample model on the stated bounded domain.",
    ["c16_wav_model"])
PLAN["C17"] = other(
    "Deductive: Wav._getIndexAtTime and the interval classifier are proved; the keep / delete partition is proved for "
    "interval lists of any length: utils.invertIntervalList returns exactly the positive-length stretches of "
    "[minValue, maxValue] not covered by a sorted, disjoint list (head stretch, gaps between non-touching neighbours, "
    "tail stretch, in order; an absent bound means no stretch on that side; ArgumentError iff an interval has "
    "non-positive length), and audio._computeKeepDeleteIntervals returns the given stretches labelled as given plus "
    "that complement labelled the other way, in time order, from the recording's start to its end, rejects both lists "
    "at once and keeps everything when neither is given. Bounded: readFramesAtTimes, extractSubwav, "
    "splitAudioOnTier and the generators against the sample model (files under out/tmp); that consecutive labelled "
    "stretches share their boundaries.",
    "The keep / delete partition is proved for all sorted disjoint interval lists inside the recording; assembly of "
    "the samples, the written files and the generators on the stated bounded domain.",
    ["c17_extraction"])
PLAN["C18"] = other(
    "Deductive: the search inside one block of samples - _getNearestZero, _getZeroThresholdCrossing and "
    "_findNextZeroCrossing (both directions) - is proved equal to the spec from the property for sample blocks of any "
    "length: the first (last) exact zero, else the first (last) adjacent pair that differs in sign, of which the "
    "sample nearer to zero; the reported position is a genuine crossing (zero, or differs in sign from a neighbour), "
    "lies inside the block, and None is returned iff the block has neither. utils.sign, getInterval (clamped to "
    "[0,max]) and chooseClosestTime are proved against their specs; the index computation is shared with C16. "
    "Bounded: the outer search loop of findNearestZeroCrossing (with a per-call watchdog for termination), "
    "tgBoundariesToZeroCrossings, audioSplice.",
    "Zero-crossing detection inside a block and the helpers around it are proved for all inputs; termination and "
    "range of the outer search, and splicing, are checked on the stated bounded domain.", ["c18_zero_crossing"],
    "; the termination variant of DESIGN 4/C18 is not built")
PLAN["C19"] = other(
    "Deductive: the value-modification clause - KlattPointTier.modifyValues is proved to replace every value v of the "
    "tier by modFunc(float(v)), once, keeping every time, the order and the span, for an arbitrary (uninterpreted) "
    "modFunc and entry lists of any length; KlattContainerTier.modifySubtiers is proved to do exactly that to every "
    "point tier of the addressed intermediate tier and to leave every other tier, the name lists and the spans "
    "untouched (KeyError for an unknown name; hierarchy of enumerated shape: 0..3 point tiers in the addressed tier, 0 "
    "or 2 in another); toIntOrFloat returns the same number; the writers of KlattGrid point tiers "
    "(KlattPointTier.getAsText, KlattSubPointTier.getAsText) are proved equal to the grammar in spec/render.py for any "
    "number of points: declared size = number of points, points numbered from 1, time and value of each point printed "
    "with repr (all digits), in order. "
    "Bounded: KlattGrid open/save/open (reference file and synthetic grids, 15 modification functions with an "
    "exactly-once counting wrapper) and point objects (all point lists <= 4 over the number set, 3 classes, long and "
    "short forms) against independent readers/writers in /verif/spec.",
    "Value modification touches exactly the addressed values, once (proved); KlattGrid and point-object files "
    "round-trip every number exactly on the stated bounded domain.",
    ["c19_klatt_roundtrip", "c19_points_roundtrip"], "; the offset-slicing readers and the text writers are outside "
    "the uninterpreted string model (DESIGN 9.3)")
PLAN["C20"] = other(
    "Deductive: medianFilter (through the real _stepFilter) is proved, for series of any length and windows 0..8 with "
    "and without edge padding, to return a list of the input's length whose element i is the median of element i and "
    "its floor(window/2) neighbours on either side (edge values repeated / element unchanged near the edges); "
    "getPitchMeasures is proved equal to the definitions for series of any length - mean = sum / count, max, min, "
    "range = max - min, population variance = sum of squared deviations / count, deviation = its square root, all "
    "zero for an empty series - with and without zero removal (exactly the zeros are removed) and median filtering "
    "(edge padding on; windows None, 3, 4); detectPitchErrors is proved, for voiced tracks of any length and every "
    "threshold in (0, 1], to mark exactly the samples whose pitch fell to at most the ratio of, or rose to at least "
    "the inverse ratio of, the preceding sample, at the sample's time, labelled with the ratio, in order, and to "
    "reject thresholds outside [0, 1]. statistics.median, sum and sqrt are uninterpreted (A6). "
    "Bounded: medianFilter, znormalizeData, rms, getPitchMeasures, detectPitchErrors, loadTimeSeriesData and the row "
    "filters against textbook definitions (exhaustive for short series over a small value set, random up to length 15).",
    "Median filtering, pitch measures and the jump detector equal their definitions for series of any length (proved; "
    "median / sum / sqrt uninterpreted); z-normalisation, rms, the listing parser and the row filters on the stated "
    "bounded domain.", ["c20_series"],
    "; znormalizeData / rms / znormWindowFilter (statistics of an abstract list), loadTimeSeriesData (text) and "
    "filterTimeSeriesData (rows are nested lists) are not under contract")

PLAN["C12"] = other(
    "Deductive: addTier/removeTier/renameTier/replaceTier proved equal to the ordered-map spec (names, order, "
    "mapping, duplicate rejected, span only widens, failed calls change nothing) and Textgrid.crop/insertSpace/"
    "editTimestamps proved to return the same names in the same order with each tier = the tier-level operation "
    "(tiers share the span for strict/truncated crop and insertSpace) - for every textgrid with 0..2 existing tiers "
    "(tier COUNT enumerated; names, indices, spans, contents symbolic); Textgrid.eraseRegion (truncating, tier-wise, span "
    "shrinks iff doShrink; <= 2 tiers without and <= 1 tier with shrinking) and Textgrid.appendTextgrid (<= 2 tiers "
    "each: names per onlyMatchingNames, order A then B) likewise; mergeTiers (2-3 tiers, default / reversed / partial "
    "selection): one tier per class named after the first selected tier of the class, unselected tiers kept in order, "
    "merged tiers well-formed, spans agree. Bounded: exhaustive depth-4/5 histories against a list model, contents of "
    "merged tiers.",
    "A Textgrid behaves as an ordered, uniquely named tier map and edits act tier-wise: proved per operation for up to 2 "
    "pre-existing tiers with everything else symbolic; whole histories and the remaining operations on the stated "
    "bounded domain.", ["c12_textgrid_model"], "; the enumeration of the number of existing tiers (0..2) is a bound")
PLAN["C13"] = other(
    "Deductive: for every copy-returning operation under contract (crop, insertSpace, editTimestamps, appendTier on tiers; "
    "crop/insertSpace/editTimestamps on textgrids) the frame obligation 'no mutating construct is executed on the "
    "receiver or an argument' is discharged on every path, and for the mutators (insertEntry, deleteEntry, addTier, "
    "removeTier, renameTier, replaceTier) every raising path is proved to leave the object equal to its initial state "
    "(the spec raises before changing anything). Textgrid.new() and TextgridTier.new() are proved to return an equal "
    "object that shares nothing with the original; find, getNonEntries, timestamps, validate, dejitter, union, "
    "difference, Textgrid.appendTextgrid / eraseRegion / validate carry the same frame obligation. Bounded: "
    "before/after snapshots of every operation incl. save.",
    "Copy-returning operations never mutate and failed mutations change nothing: proved per operation under contract; "
    "snapshots of all operations (incl. save with a pre-existing file) on the stated bounded domain.",
    ["c13_no_mutation"])

PLAN["C07"] = other(
    "Deductive: IntervalTier.eraseRegion without shrinking (truncate / categorical / error; the delete loop by the "
    "R-ERASE rule, the re-inserted edge pieces through insertEntry's contract, list equality by the sorted-sets lemma) "
    "and PointTier.eraseRegion with and without shrinking are proved equal to the per-entry spec from the property, "
    "with span/wf/nothing-inside postconditions; Textgrid.eraseRegion is proved to erase tier by tier in truncate mode, keep "
    "names and order and shrink the span iff doShrink. Bounded: shrinking of interval tiers (shift, join of the "
    "straddler, span end) and randomized decimals for the rounding clause.",
    "eraseRegion blanks exactly the region: proved for interval tiers without shrinking and for point tiers in both "
    "modes; the interval shrink/join step and the floating-point clause are checked on the stated bounded domain "
    "(the rounding defect found there was repaired: fix 334a102).", ["c07_erase"],
    "; precondition of the interval proofs: entries pairwise distinguishable under Interval.__eq__ (sliver region: KF04)")
PLAN["C05"] = other(
    "Deductive: the class invariant argument - both constructors are proved to establish well-formedness (or raise "
    "TextgridStateError / TimelessTextgridTierException), and crop, editTimestamps, insertSpace, appendTier, "
    "eraseRegion (no shrink; points both), insertEntry are each proved to return / leave a well-formed tier on every "
    "path (ensures valid, in-span, stripped, disjoint, sorted), raising only praatio errors. Bounded: random histories "
    "of all 15 operations (length <= 12). eraseRegion with shrinking is proved to return a well-formed tier or raise "
    "TextgridStateError / CollisionError (second contract on the function: R-HAVOC for the shift loop, R-FIND for the "
    "re-joining loop, validating constructor). union (both tier classes) and difference are proved to return a well-formed tier by carrying the class "
    "invariant through their loops (rule R-INV); intersection and mergeLabels are proved to return a well-formed tier "
    "or raise TextgridStateError whatever their loops collect (rule R-HAVOC + the validating constructor); "
    "PointTier.dejitter, deleteEntry, TextgridTier.new and mergeTiers likewise preserve it.",
    "Every tier produced by an operation under contract is well-formed for all inputs (invariant preservation, hence "
    "all histories of those operations); the remaining operations are covered by bounded histories.",
    ["c05_histories"])

PLAN["C08"] = other(
    "Deductive: insertSpace on both tier classes and on textgrids proved equal, path by path, to the per-entry spec "
    "taken from the property (unchanged / shifted by d / stretched / split / rejected; span + d; result well-formed). "
    "Bounded: the same on dyadic grids, the inverse law insertSpace;eraseRegion on label-at-time functions, and "
    "randomized decimals for the floating-point clause.",
    "insertSpace opens exactly the requested gap for all tiers, points, durations and modes in real arithmetic "
    "(proved); the inverse law and the floating-point clause are checked on the stated bounded domain (the rounding "
    "defect found there was repaired: fix 334a102).", ["c08_insert_space"])
PLAN["C09"] = other(
    "Deductive: editTimestamps (both tier classes, textgrids) and appendTier proved equal to the property-derived specs "
    "(shift, drop, clip, OutOfBounds iff error mode and out of the old span, hull span); Textgrid.appendTextgrid proved "
    "equal to the spec from the property (A's entries followed by B's shifted by A's end, span [A.min, A.max + B.max], "
    "names per onlyMatchingNames, order A then B) for textgrids with 0..2 tiers each whose tiers share their "
    "textgrid's span (tier COUNT enumerated; names, spans and contents symbolic); the law 'shifting by +x then -x "
    "restores every entry when nothing was clipped' is proved for both tier classes as a lemma over the two "
    "editTimestamps contracts (REAL arithmetic: exactly; the rounding noise of floats is bounded-checked). "
    "Bounded: the same on grids, the +x/-x law on decimals.",
    "Shifting and concatenation of tiers and of textgrids (<= 2 tiers each) move every entry by exactly the stated "
    "amount, and shifting there and back restores every entry (proved for all inputs, REAL arithmetic); rounding "
    "noise of the round trip and larger textgrids on the stated bounded domain.",
    ["c09_shift_append"], "; the enumeration of the number of tiers per textgrid (0..2) is a bound")
PLAN["C11"]["bounded"] = ["c11_list_model"]
PLAN["C11"]["level"] = "other"
PLAN["C11"]["technique"] = MIXED
PLAN["C11"]["note"] = PLAN["C11"]["note"] + "; " + OTHER_NOTE
PLAN["C06"]["note"] = PLAN["C06"]["note"].replace("Textgrid.crop is covered through C12's contract when built",
    "Textgrid.crop is proved for textgrids with 0..2 tiers (tier count enumerated, everything else symbolic)")

NOT_CLAIMED = {}

U = "praatio/utilities/utils.py"
IT = "praatio/data_classes/interval_tier.py"
PT = "praatio/data_classes/point_tier.py"
GI = "praatio.utilities.utils.getIntervalsInInterval"
ITC = "praatio.data_classes.interval_tier.IntervalTier"
PTC = "praatio.data_classes.point_tier.PointTier"

CANARIES = [
    {"name": "gii-exclusion-strict", "props": ["C06", "C07", "C10", "C11"], "file": U, "target": GI,
     "old": "interval.end <= start or", "new": "interval.end < start or"},
    {"name": "gii-containment", "props": ["C06"], "file": U, "target": GI,
     "old": "if interval.start >= start and interval.end <= end:", "new": "if interval.start > start and interval.end <= end:"},
    {"name": "gii-truncate-right", "props": ["C06"], "file": U, "target": GI,
     "old": "matchedEntry = Interval(interval.start, end, interval.label)",
     "new": "matchedEntry = Interval(interval.start, interval.end, interval.label)"},
    {"name": "crop-rebase-amount", "props": ["C06"], "file": IT, "target": ITC + ".crop",
     "old": "Interval(start - timeDiff, end - timeDiff, label)", "new": "Interval(start - cropStart, end - timeDiff, label)",
     "config": ["mode=lax,rebaseToZero=True"]},
    {"name": "crop-span-from-source", "props": ["C06"], "file": IT, "target": ITC + ".crop",
     "old": "            maxT = cropEnd\n", "new": "            maxT = self.maxTimestamp\n",
     "config": ["mode=strict,rebaseToZero=False"]},
    {"name": "pointcrop-inclusive", "props": ["C06"], "file": PT, "target": PTC + ".crop",
     "old": "timestamp >= cropStart and timestamp <= cropEnd", "new": "timestamp >= cropStart and timestamp < cropEnd",
     "config": ["mode=lax,rebaseToZero=False"]},
    {"name": "edit-drop-boundary", "props": ["C09"], "file": IT, "target": ITC + ".editTimestamps",
     "old": "if newEnd <= 0:", "new": "if newEnd < 0:", "config": ["reportingMode=silence"]},
    {"name": "edit-clip", "props": ["C09"], "file": IT, "target": ITC + ".editTimestamps",
     "old": "            if newStart < 0:\n                newStart = 0\n", "new": "", "config": ["reportingMode=silence"]},
    {"name": "pedit-drop", "props": ["C09"], "file": PT, "target": PTC + ".editTimestamps",
     "old": "if newTimestamp < 0:", "new": "if newTimestamp <= 0:", "config": ["reportingMode=silence"]},
    {"name": "append-shift", "props": ["C09"], "file": "praatio/data_classes/textgrid_tier.py",
     "target": "praatio.data_classes.textgrid_tier.TextgridTier.appendTier",
     "old": "        appendTier = tier.editTimestamps(\n            self.maxTimestamp,", "new": "        appendTier = tier.editTimestamps(\n            self.maxTimestamp - self.minTimestamp,"},
    {"name": "appendtg-shift", "props": ["C09"], "file": "praatio/data_classes/textgrid.py",
     "target": "praatio.data_classes.textgrid.Textgrid.appendTextgrid",
     "old": "appendTier = appendTier.editTimestamps(self.maxTimestamp)",
     "new": "appendTier = appendTier.editTimestamps(tg.maxTimestamp)", "config": ["ka=1,kb=1,onlyMatchingNames=True"]},
    {"name": "appendtg-policy", "props": ["C09", "C12"], "file": "praatio/data_classes/textgrid.py",
     "target": "praatio.data_classes.textgrid.Textgrid.appendTextgrid",
     "old": "if onlyMatchingNames is False:", "new": "if onlyMatchingNames is True:",
     "config": ["ka=1,kb=1,onlyMatchingNames=True", "ka=1,kb=1,onlyMatchingNames=False"]},
    {"name": "intersection-touches-receiver", "props": ["C10", "C05", "C13"], "file": IT,
     "target": ITC + ".intersection",
     "old": "        retTier = self.new(newName, retEntryList)\n\n        return retTier\n\n    def mergeLabels(",
     "new": "        retTier = self.new(newName, retEntryList)\n        self.minTimestamp = retTier.minTimestamp\n\n        return retTier\n\n    def mergeLabels("},
    {"name": "shrink-touches-receiver", "props": ["C07", "C05"], "file": IT, "target": ITC + ".eraseRegion#shrink",
     "old": "            newMax = start + (newTier.maxTimestamp - end)\n",
     "new": "            newMax = start + (newTier.maxTimestamp - end)\n            self.maxTimestamp = newMax\n",
     "config": ["collisionMode=categorical,doShrink=True"]},
    {"name": "union-raw-append", "props": ["C10", "C05"], "file": "praatio/data_classes/textgrid_tier.py",
     "target": "praatio.data_classes.textgrid_tier.TextgridTier.union",
     "old": "        retTier.sort()\n\n        return retTier", "new": "        retTier._entries.reverse()\n\n        return retTier",
     "config": ["kind=interval"]},
    {"name": "space-boundary", "props": ["C08"], "file": IT, "target": ITC + ".insertSpace",
     "old": "            if interval.end <= start:\n                newEntryList.append(interval)\n            # Entry exists after",
     "new": "            if interval.end < start:\n                newEntryList.append(interval)\n            # Entry exists after",
     "config": ["collisionMode=stretch"]},
    {"name": "space-split-right", "props": ["C08"], "file": IT, "target": ITC + ".insertSpace",
     "old": "                            start + duration,\n                            interval.end + duration,",
     "new": "                            start + duration,\n                            interval.end + duration + duration,",
     "config": ["collisionMode=split"]},
    {"name": "pspace-boundary", "props": ["C08"], "file": PT, "target": PTC + ".insertSpace",
     "old": "if point.time <= start:", "new": "if point.time < start:"},
    {"name": "insert-span-elif", "props": ["C11", "C05"], "file": IT, "target": ITC + ".insertEntry",
     "old": "        if self._entries[-1][1] > self.maxTimestamp:", "new": "        elif self._entries[-1][1] > self.maxTimestamp:",
     "config": ["collisionMode=replace,collisionReportingMode=silence"]},
    {"name": "insert-merge-extent", "props": ["C11", "C10"], "file": IT, "target": ITC + ".insertEntry",
     "old": "max([tmpInterval.end for tmpInterval in matchList]),", "new": "matchList[-1].end,",
     "config": ["collisionMode=merge,collisionReportingMode=silence"]},
    {"name": "insert-no-sort", "props": ["C11", "C05"], "file": IT, "target": ITC + ".insertEntry",
     "old": "        self.sort()\n\n        if self._entries[0][0]", "new": "        if self._entries[0][0]",
     "config": ["collisionMode=error,collisionReportingMode=silence"]},
    {"name": "fill-gap-strict", "props": ["C04", "C02"], "file": "praatio/utilities/textgrid_io.py",
     "target": "praatio.utilities.textgrid_io._fillInBlanks",
     "old": "        if prevEnd < newStart:", "new": "        if prevEnd <= newStart:", "config": ["minTime=None,maxTime=None"]},
    {"name": "fill-no-tail", "props": ["C04", "C02"], "file": "praatio/utilities/textgrid_io.py",
     "target": "praatio.utilities.textgrid_io._fillInBlanks",
     "old": "        if float(newEntries[-1][1]) < float(maxTime):", "new": "        if float(newEntries[-1][1]) < float(maxTime) and False:",
     "config": ["minTime=None,maxTime=None"]},
    {"name": "addtier-dup-check", "props": ["C12", "C13"], "file": "praatio/data_classes/textgrid.py",
     "target": "praatio.data_classes.textgrid.Textgrid.addTier",
     "old": "        if tier.name in self.tierNames:\n            raise errors.TierNameExistsError(\"Tier name already in tier\")\n",
     "new": "", "config": ["k=1,tierIndex=None,reportingMode=silence,span=sym"]},
    {"name": "replacetier-no-restore", "props": ["C13", "C12"], "file": "praatio/data_classes/textgrid.py",
     "target": "praatio.data_classes.textgrid.Textgrid.replaceTier",
     "old": "            self.addTier(oldTier, tierIndex, constants.ErrorReportingMode.SILENCE)\n", "new": "            pass\n",
     "config": ["k=2,reportingMode=silence"]},
    {"name": "tgerase-span", "props": ["C12", "C07"], "file": "praatio/data_classes/textgrid.py",
     "target": "praatio.data_classes.textgrid.Textgrid.eraseRegion",
     "old": "            maxTimestamp = start + (maxTimestamp - end)", "new": "            maxTimestamp = maxTimestamp - end",
     "config": ["k=0,doShrink=True", "k=1,doShrink=True"]},
    {"name": "tgerase-mode", "props": ["C07", "C12"], "file": "praatio/data_classes/textgrid.py",
     "target": "praatio.data_classes.textgrid.Textgrid.eraseRegion",
     "old": "start, end, constants.EraseCollision.TRUNCATE, doShrink", "new": "start, end, constants.EraseCollision.CATEGORICAL, doShrink",
     "config": ["k=1,doShrink=False"]},
    {"name": "tiernew-keeps-narrow-span", "props": ["C13", "C05"], "file": "praatio/data_classes/textgrid_tier.py",
     "target": "praatio.data_classes.textgrid_tier.TextgridTier.new",
     "old": "        return type(self)(name, entries, minTimestamp, maxTimestamp)",
     "new": "        t = type(self)(name, entries, minTimestamp, maxTimestamp)\n        t.maxTimestamp = maxTimestamp\n        return t",
     "config": ["kind=interval,span=sym"]},
    {"name": "tgnew-shallow", "props": ["C13"], "file": "praatio/data_classes/textgrid.py",
     "target": "praatio.data_classes.textgrid.Textgrid.new",
     "old": "        return copy.deepcopy(self)", "new": "        return copy.copy(self)", "config": ["k=1"]},
    {"name": "mergetiers-order", "props": ["C12", "C10"], "file": "praatio/data_classes/textgrid.py",
     "target": "praatio.data_classes.textgrid.Textgrid.mergeTiers",
     "old": "        for tierName in tierNames:\n            tier = self.getTier(tierName)\n            if isinstance(tier, interval_tier.IntervalTier):",
     "new": "        for tierName in sorted(tierNames):\n            tier = self.getTier(tierName)\n            if isinstance(tier, interval_tier.IntervalTier):",
     "config": ["kinds=II,selection=reversed", "kinds=II,selection=all"]},
    {"name": "tgcrop-span", "props": ["C12", "C06"], "file": "praatio/data_classes/textgrid.py",
     "target": "praatio.data_classes.textgrid.Textgrid.crop",
     "old": "            maxT = cropEnd - cropStart\n        else:\n            minT = cropStart\n            maxT = cropEnd\n        newTG",
     "new": "            maxT = cropEnd\n        else:\n            minT = cropStart\n            maxT = cropEnd\n        newTG",
     "config": ["k=1,mode=strict,rebaseToZero=True"]},
    {"name": "pinsert-merge-order", "props": ["C11", "C10"], "file": PT, "target": PTC + ".insertEntry",
     "old": "\"-\".join([oldPoint.label, newPoint.label])", "new": "\"-\".join([newPoint.label, oldPoint.label])",
     "config": ["collisionMode=merge,collisionReportingMode=silence"]},
    {"name": "median-window", "props": ["C20"], "file": "praatio/utilities/my_math.py",
     "target": "praatio.utilities.my_math.medianFilter",
     "old": "            for y in range(1, offset + 1):  # 1-based", "new": "            for y in range(1, offset):  # 1-based",
     "config": ["window=4,useEdgePadding=True"]},
    {"name": "erase-truncate-right", "props": ["C07"], "file": IT, "target": ITC + ".eraseRegion",
     "old": "newEntry = Interval(end, matchList[-1].end, matchList[-1].label)", "new": "newEntry = Interval(end, matchList[0].end, matchList[-1].label)",
     "config": ["collisionMode=truncate,doShrink=False"]},
    # (an earlier canary changed `point.time < start` into `<=` here; that rewrite is equivalent - points at exactly
    # `start` were deleted just before - and the engine now proves so, which made the canary "survive")
    {"name": "perase-shift-origin", "props": ["C07"], "file": PT, "target": PTC + ".eraseRegion",
     "old": "newEntries.append(Point(start + (point.time - end), point.label))",
     "new": "newEntries.append(Point(point.time - end, point.label))",
     "config": ["collisionMode=truncate,doShrink=True"]},
    {"name": "index-byte-rounding", "props": ["C16", "C17", "C18"], "file": "praatio/audio.py",
     "target": "praatio.audio.Wav._getIndexAtTime",
     "old": "return round(startTime * self.frameRate) * self.sampleWidth", "new": "return round(startTime * self.frameRate * self.sampleWidth)",
     "config": ["rate=8000,width=2"]},
    {"name": "wav-insert-drops-byte", "props": ["C16"], "file": "praatio/audio.py", "target": "praatio.audio.Wav.insert",
     "old": "self.frames = self.frames[:i] + frames + self.frames[i:]",
     "new": "self.frames = self.frames[:i] + frames + self.frames[i + 1:]", "config": ["rate=8000,width=2"]},
    {"name": "wav-delete-extra-sample", "props": ["C16"], "file": "praatio/audio.py",
     "target": "praatio.audio.Wav.deleteSegment",
     "old": "        self.frames = self.frames[:i] + self.frames[j:]",
     "new": "        self.frames = self.frames[:i] + self.frames[j + self.sampleWidth:]", "config": ["rate=8000,width=2"]},
    {"name": "numtostr-round", "props": ["C01", "C02", "C03"], "file": "praatio/utilities/my_math.py",
     "target": "spec.harness.num_roundtrip",
     "old": "if isclose(inputNum, int(inputNum)):", "new": "if isclose(inputNum, round(inputNum)):"},
    {"name": "modify-values-time", "props": ["C19"], "file": "praatio/data_classes/klattgrid.py",
     "target": "praatio.data_classes.klattgrid.KlattPointTier.modifyValues",
     "old": "(timestamp, modFunc(float(value)))", "new": "(modFunc(timestamp), modFunc(float(value)))"},
    {"name": "lte-tolerance", "props": ["C14"], "file": "praatio/utilities/my_math.py",
     "target": "praatio.utilities.my_math.lessThanOrEqual",
     "old": "    return isclose(a, b) or a < b", "new": "    return isclose(a, b, 1e-3) or a < b"},
    {"name": "idejitter-touches-receiver", "props": ["C14", "C05"], "file": IT, "target": ITC + ".dejitter",
     "old": "            newEntries.append((start, stop, label))\n\n        return self.new(entries=newEntries)",
     "new": "            newEntries.append((start, stop, label))\n\n        self.maxTimestamp = maxDifference\n        return self.new(entries=newEntries)"},
    {"name": "pdejitter-farthest", "props": ["C14"], "file": PT, "target": PTC + ".dejitter",
     "old": "timeCompare = min(referenceTimestamps", "new": "timeCompare = max(referenceTimestamps"},
    {"name": "pdejitter-strict", "props": ["C14"], "file": PT, "target": PTC + ".dejitter",
     "old": "if my_math.lessThanOrEqual(abs(time - timeCompare), maxDifference)",
     "new": "if abs(time - timeCompare) < maxDifference"},
    {"name": "validate-touching", "props": ["C15"], "file": IT, "target": ITC + ".validate",
     "old": "if previousInterval and previousInterval.end > interval.start:",
     "new": "if previousInterval and previousInterval.end >= interval.start:", "config": ["reportingMode=silence"]},
    {"name": "pvalidate-overshoot", "props": ["C15"], "file": PT, "target": PTC + ".validate",
     "old": "            if utils.checkIsOvershoot(point.time, self.maxTimestamp, errorReporter):\n                isValid = False",
     "new": "            if utils.checkIsOvershoot(point.time, self.maxTimestamp, errorReporter):\n                pass",
     "config": ["reportingMode=silence"]},
    {"name": "tgvalidate-span", "props": ["C15"], "file": "praatio/data_classes/textgrid.py",
     "target": "praatio.data_classes.textgrid.Textgrid.validate",
     "old": "if self.maxTimestamp != tier.maxTimestamp:", "new": "if self.maxTimestamp < tier.maxTimestamp:",
     "config": ["k=1,reportingMode=silence"]},
    {"name": "timestamps-no-dedup", "props": ["C15"], "file": IT, "target": ITC + ".timestamps",
     "old": "uniqueTimestamps = list(set(tmpTimestamps))", "new": "uniqueTimestamps = list(tmpTimestamps)"},
    {"name": "find-substr-swapped", "props": ["C15"], "file": "praatio/data_classes/textgrid_tier.py",
     "target": "praatio.data_classes.textgrid_tier.TextgridTier.find",
     "old": "if matchLabel in entry.label:", "new": "if entry.label in matchLabel:"},
    {"name": "nonentries-keep-empty", "props": ["C15"], "file": IT,
     "target": ITC + ".getNonEntries",
     "old": "if interval.start < interval.end", "new": "if interval.start <= interval.end"},
    {"name": "values-in-interval", "props": ["C15"], "file": U, "target": "praatio.utilities.utils.getValuesInInterval",
     "old": "if start <= time and end >= time:", "new": "if start <= time and end > time:"},
    {"name": "crossing-nearer-sample", "props": ["C18"], "file": "praatio/audio.py",
     "target": "praatio.audio._getZeroThresholdCrossing",
     "old": "if abs(samples[zeroI]) > abs(samples[zeroI + 1])", "new": "if abs(samples[zeroI]) >= abs(samples[zeroI + 1])"},
    {"name": "find-reverse-off-by-one", "props": ["C18"], "file": U, "target": "praatio.audio._getNearestZero",
     "old": "index = len(list) - list[::-1].index(value) - 1", "new": "index = len(list) - list[::-1].index(value)",
     "config": ["reverse=True"]},
    {"name": "getinterval-clamp", "props": ["C18"], "file": U, "target": "praatio.utilities.utils.getInterval",
     "old": "    elif endTime > max:\n        endTime = max", "new": "    elif endTime > max:\n        endTime = endTime",
     "config": ["reverse=False"]},
    {"name": "remove-blanks", "props": ["C03"], "file": "praatio/utilities/textgrid_io.py",
     "target": "praatio.utilities.textgrid_io._removeBlanks",
     "old": "        return entry[-1] != \"\"", "new": "        return entry[0] != \"\""},
    {"name": "ctor-no-sort", "props": ["C05"], "file": IT, "target": ITC + ".__init__",
     "old": "    processedEntries.sort()\n    return processedEntries", "new": "    return processedEntries"},
    {"name": "json-upconvert-span", "props": ["C01", "C03"], "file": "praatio/utilities/textgrid_io.py",
     "target": "spec.harness.json_down_up",
     "old": "\"xmax\": tgAsDict[\"end\"],\n                \"entries\"", "new": "\"xmax\": tgAsDict[\"start\"],\n                \"entries\"",
     "config": ["k=2"]},
    {"name": "prep-override-max", "props": ["C04", "C01"], "file": "praatio/utilities/textgrid_io.py",
     "target": "praatio.utilities.textgrid_io._prepTgForSaving",
     "old": "        tg[\"xmax\"] = maxTimestamp", "new": "        tg[\"xmax\"] = minTimestamp",
     "config": ["k=1,blanks=False,minTimestamp=sym,maxTimestamp=sym"]},
    {"name": "prep-fill-wrong-bound", "props": ["C04", "C02"], "file": "praatio/utilities/textgrid_io.py",
     "target": "praatio.utilities.textgrid_io._prepTgForSaving#fill",
     "old": "_fillInBlanks(tier, \"\", minTimestamp, maxTimestamp)", "new": "_fillInBlanks(tier, \"\", minTimestamp, tier[\"xmax\"])",
     "config": ["k=1,minTimestamp=sym,maxTimestamp=sym"]},
    {"name": "tgdict-tier-span", "props": ["C01", "C03"], "file": "praatio/data_classes/textgrid.py",
     "target": "spec.harness.tg_dict_roundtrip",
     "old": "\"xmin\": tier.minTimestamp,", "new": "\"xmin\": tg.minTimestamp,",
     "config": ["k=2,reportingMode=silence"]},
    {"name": "pitch-variance-sample", "props": ["C20"], "file": "praatio/pitch_and_intensity.py",
     "target": "praatio.pitch_and_intensity.getPitchMeasures",
     "old": "for val in f0Values]) / counts", "new": "for val in f0Values]) / (counts - 1)",
     "config": ["filterZeroFlag=False,window=None"]},
    {"name": "pitch-jump-strict", "props": ["C20"], "file": "praatio/pitch_and_intensity.py",
     "target": "praatio.pitch_and_intensity.detectPitchErrors",
     "old": "(lastPitch >= ceilingCutoff)", "new": "(lastPitch > ceilingCutoff)"},
    {"name": "invert-keep-touching", "props": ["C15", "C17"], "file": "praatio/utilities/utils.py",
     "target": "praatio.utilities.utils.invertIntervalList",
     "old": "invList = [interval for interval in invList if interval[0] != interval[1]]", "new": "invList = list(invList)",
     "config": ["minValue=None,maxValue=None"]},
    {"name": "invert-tail-sentinel", "props": ["C17", "C15"], "file": "praatio/utilities/utils.py",
     "target": "praatio.utilities.utils.invertIntervalList",
     "old": "inputList.append((maxValue, maxValue + 1))", "new": "inputList.append((maxValue + 1, maxValue + 2))",
     "config": ["minValue=None,maxValue=sym"]},
    {"name": "keepdelete-labels-swapped", "props": ["C17"], "file": "praatio/audio.py",
     "target": "praatio.audio._computeKeepDeleteIntervals",
     "old": "        (start, end, _DELETE) for start, end in computedDeleteIntervals", "new": "        (start, end, _KEEP) for start, end in computedDeleteIntervals",
     "config": ["keep=None,delete=sym"]},
    {"name": "modify-subtiers-twice", "props": ["C19"], "file": "praatio/data_classes/klattgrid.py",
     "target": "praatio.data_classes.klattgrid.KlattContainerTier.modifySubtiers",
     "old": "            subpointTier.modifyValues(modFunc)", "new": "            subpointTier.modifyValues(modFunc)\n            subpointTier.modifyValues(modFunc)",
     "config": ["n_addressed=2,n_other=2,tierName=oral"]},
    {"name": "short-writer-size", "props": ["C02", "C01"], "file": "praatio/utilities/textgrid_io.py",
     "target": "praatio.utilities.textgrid_io._tgToShortTextForm",
     "old": "            len(tier[\"entries\"]),\n        )", "new": "            len(tier[\"entries\"]) + 1,\n        )",
     "config": ["k=1"]},
    {"name": "long-writer-mark-unescaped", "props": ["C02", "C01"], "file": "praatio/utilities/textgrid_io.py",
     "target": "praatio.utilities.textgrid_io._tgToLongTextForm",
     "old": "'mark = \"%s\" \\n' % utils.escapeQuotes(label)", "new": "'mark = \"%s\" \\n' % label",
     "config": ["k=2"]},
    {"name": "klatt-writer-value", "props": ["C19"], "file": "praatio/data_classes/klattgrid.py",
     "target": "praatio.data_classes.klattgrid.KlattSubPointTier.getAsText",
     "old": "outputList.append(\"        value = %s\" % repr(entry[1]))", "new": "outputList.append(\"        value = %s\" % repr(entry[0]))"},
    {"name": "emitter-wrong-format", "props": ["C02", "C04"], "file": "praatio/utilities/textgrid_io.py",
     "target": "praatio.utilities.textgrid_io.getTextgridAsStr",
     "old": "        outputTxt = _tgToShortTextForm(tg)\n    elif format == TextgridFormats.JSON", "new": "        outputTxt = _tgToLongTextForm(tg)\n    elif format == TextgridFormats.JSON",
     "config": ["k=1,format=short_textgrid,override=sym"]},
]
