"""Text grammar of the two TextGrid text formats, written from Praat's "TextGrid file formats" manual page (C02):
header, span, `<exists>`, declared number of tiers, then per tier its class, name, span, declared number of items and
the items in order; every number is printed by the number writer, every name / label between double quotes with inner
quotes doubled.  Spec-language subset only (expressions, comprehensions, "".join)."""
from praatio.utilities import my_math
from praatio.utilities import utils
from praatio.utilities import errors


def num(x):
    return my_math.numToStr(x)


def quoted(s):
    return '"' + utils.escapeQuotes(s) + '"'


# ---- short form: one value per line, no keys


def short_entry(e):
    if len(e) == 3:
        return num(e[0]) + "\n" + num(e[1]) + "\n" + quoted(e[2]) + "\n"
    return num(e[0]) + "\n" + quoted(e[1]) + "\n"


def short_tier(t):
    return ('"' + t["class"] + '"\n' + quoted(t["name"]) + "\n" + num(t["xmin"]) + "\n" + num(t["xmax"]) + "\n"
            + str(len(t["entries"])) + "\n" + "".join([short_entry(e) for e in t["entries"]]))


def short_textgrid(tg):
    return ('File type = "ooTextFile"\nObject class = "TextGrid"\n\n' + num(tg["xmin"]) + "\n" + num(tg["xmax"]) + "\n"
            + "<exists>\n" + str(len(tg["tiers"])) + "\n" + "".join([short_tier(t) for t in tg["tiers"]]))


# ---- long form: `key = value` lines, items numbered from 1

T1 = "    "
T2 = T1 + T1
T3 = T2 + T1


def long_interval(k, e):
    return (T2 + "intervals [" + str(k + 1) + "]:\n" + T3 + "xmin = " + num(e[0]) + " \n" + T3 + "xmax = " + num(e[1])
            + " \n" + T3 + "text = " + quoted(e[2]) + " \n")


def long_point(k, e):
    return (T2 + "points [" + str(k + 1) + "]:\n" + T3 + "number = " + num(e[0]) + " \n" + T3 + "mark = " + quoted(e[1])
            + " \n")


def long_tier(i, t):
    head = (T1 + "item [" + str(i + 1) + "]:\n" + T2 + 'class = "' + t["class"] + '" \n' + T2 + "name = " + quoted(t["name"])
            + " \n" + T2 + "xmin = " + num(t["xmin"]) + " \n" + T2 + "xmax = " + num(t["xmax"]) + " \n")
    es = t["entries"]
    if t["class"] == "IntervalTier":
        return (head + T2 + "intervals: size = " + str(len(es)) + " \n"
                + "".join([long_interval(k, e) for k, e in enumerate(es)]))
    return head + T2 + "points: size = " + str(len(es)) + " \n" + "".join([long_point(k, e) for k, e in enumerate(es)])


def long_textgrid(tg):
    ts = tg["tiers"]
    return ('File type = "ooTextFile"\nObject class = "TextGrid"\n\n' + "xmin = " + num(tg["xmin"]) + " \n" + "xmax = "
            + num(tg["xmax"]) + " \n" + "tiers? <exists> \n" + "size = " + str(len(ts)) + " \n" + "item []: \n"
            + "".join([long_tier(i, ts[i]) for i in range(len(ts))]))


# ---- KlattGrid point tiers (C19): header lines, declared number of points, then three lines per point, numbered from 1;
# every number printed with repr (all digits)


def toIntOrFloat(v):
    if float(v) == float(int(v)):
        return int(v)
    return float(v)


def klatt_subpoint_tier(self):
    self.minTimestamp = toIntOrFloat(self.minTimestamp)
    lines = ([self.name + ":", "    xmin = " + repr(self.minTimestamp), "    xmax = " + repr(self.maxTimestamp),
              "    points: size = " + str(len(self.entries))]
             + [x for i, e in enumerate(self.entries)
                for x in ["    points [" + str(i + 1) + "]:", "        number = " + repr(e[0]), "        value = " + repr(e[1])]])
    return "\n".join(lines) + "\n"


NO_SIZE_LINE = ["phonation", "vocalTract", "coupling", "frication"]


def klatt_point_tier(self):
    self.minTimestamp = toIntOrFloat(self.minTimestamp)
    head = [self.name + "? <exists> ", "xmin = " + repr(self.minTimestamp), "xmax = " + repr(self.maxTimestamp)]
    size = [] if self.name in NO_SIZE_LINE else ["points: size= " + str(len(self.entries))]
    lines = (head + size
             + [x for i, e in enumerate(self.entries)
                for x in ["points [" + str(i + 1) + "]:", "    number = " + repr(e[0]), "    value = " + repr(e[1])]])
    return "\n".join(lines) + "\n"


# ---- getTextgridAsStr (C02): the text formats are rendered from the dictionary that _prepTgForSaving hands over


def textgrid_as_str(tg, format, includeBlankSpaces, minTimestamp=None, maxTimestamp=None, minimumIntervalLength=None):
    """blank filling off: entries verbatim in time order, a span override becomes the file's span; the requested
    format's grammar is applied to that dictionary; an unknown format is rejected before anything is changed"""
    if format not in ("short_textgrid", "long_textgrid", "json", "textgrid_json"):
        raise errors.WrongOption("format", format, ("short_textgrid", "long_textgrid", "json", "textgrid_json"))
    for t in tg["tiers"]:
        t["entries"] = sorted(t["entries"])
    if minTimestamp is not None:
        tg["xmin"] = minTimestamp
    if maxTimestamp is not None:
        tg["xmax"] = maxTimestamp
    if format == "long_textgrid":
        return long_textgrid(tg)
    return short_textgrid(tg)
