"""Sidecar contracts for the tier classes (interval_tier.py, point_tier.py, textgrid_tier.py)."""
from pyvc.contracts import contract

IT = "praatio.data_classes.interval_tier.IntervalTier"
PT = "praatio.data_classes.point_tier.PointTier"

OPT = [None, "sym"]


def opt_real(S, name, v):
    return None if v is None else S.real(name)


def wf_interval_tier(S, name, domain=True):
    """a well-formed IntervalTier as symbolic input (the class invariant of C05 as `requires`)"""
    lo, hi = S.real(name + ".min"), S.real(name + ".max")
    env = {"lo": lo, "hi": hi}
    ents = S.list(name + ".entries", "Interval",
                  all="valid(e) and lo <= e.start and e.end <= hi and strip(e.label) == e.label",
                  pair="disjoint_ordered(a, b)", env=env)
    S.assume("0 <= lo and lo <= hi and hi <= 1e15", env)
    return S.obj(IT, name=S.str(name + ".name"), _entries=ents, minTimestamp=lo, maxTimestamp=hi,
                 errorReporter=S.I.get_function("praatio.utilities.utils.reportWarning"))


def wf_point_tier(S, name):
    lo, hi = S.real(name + ".min"), S.real(name + ".max")
    env = {"lo": lo, "hi": hi}
    ents = S.list(name + ".entries", "Point",
                  all="lo <= e.time and e.time <= hi and strip(e.label) == e.label",
                  pair="a.time < b.time or (a.time == b.time and a.label <= b.label)", env=env)
    S.assume("0 <= lo and lo <= hi and hi <= 1e15", env)
    return S.obj(PT, name=S.str(name + ".name"), _entries=ents, minTimestamp=lo, maxTimestamp=hi,
                 errorReporter=S.I.get_function("praatio.utilities.utils.reportWarning"))


def wf_interval_clauses(r):
    return [("valid", "forall(%s.entries, valid)" % r),
            ("in-span", "forall(%s.entries, lambda e: %s.minTimestamp <= e.start and e.end <= %s.maxTimestamp)" % (r, r, r)),
            ("stripped", "forall(%s.entries, lambda e: strip(e.label) == e.label)" % r),
            ("disjoint", "pairwise(%s.entries, disjoint_ordered)" % r),
            ("sorted", "is_sorted(%s.entries)" % r)]


contract(
    IT + ".__init__",
    serves=["C05", "C06", "C07", "C08", "C09", "C10", "C11", "C14"],
    configs={"minT": OPT, "maxT": OPT},
    inputs=lambda S, cfg: dict(
        self=S.obj(IT), name=S.str("name"),
        entries=S.list("entries", "tuple3"),
        minT=opt_real(S, "minT", cfg["minT"]), maxT=opt_real(S, "maxT", cfg["maxT"])),
    spec="spec.tiers.IntervalTier_init",
    ensures=wf_interval_clauses("self"),
)

contract(
    PT + ".__init__",
    serves=["C05", "C06", "C07", "C08", "C09", "C10", "C11", "C14"],
    configs={"minT": OPT, "maxT": OPT},
    inputs=lambda S, cfg: dict(
        self=S.obj(PT), name=S.str("name"),
        entries=S.list("entries", "tuple2"),
        minT=opt_real(S, "minT", cfg["minT"]), maxT=opt_real(S, "maxT", cfg["maxT"])),
    spec="spec.tiers.PointTier_init",
    ensures=[("in-span", "forall(self.entries, lambda p: self.minTimestamp <= p.time and p.time <= self.maxTimestamp)"),
             ("stripped", "forall(self.entries, lambda p: strip(p.label) == p.label)"),
             ("sorted", "is_sorted(self.entries)")],
)

CROP_CFG = {"mode": ["strict", "lax", "truncated", "bogus"], "rebaseToZero": [True, False]}
WINDOW = ["0 <= cropStart", "cropEnd <= 1e15"]

contract(
    IT + ".crop",
    serves=["C06", "C05", "C12", "C13", "C17"],
    configs=CROP_CFG,
    inputs=lambda S, cfg: dict(self=wf_interval_tier(S, "self"), cropStart=S.real("cropStart"),
                               cropEnd=S.real("cropEnd"), mode=cfg["mode"], rebaseToZero=cfg["rebaseToZero"]),
    requires=WINDOW,
    spec="spec.tiers.IntervalTier_crop",
    ensures=wf_interval_clauses("result") + [
        ("name", "result.name == self.name"),
        ("span-lo", "result.minTimestamp <= (0 if rebaseToZero else cropStart)"),
        ("span-exact", "mode == 'lax' or (result.minTimestamp == (0 if rebaseToZero else cropStart)"
                       " and result.maxTimestamp == (cropEnd - cropStart if rebaseToZero else cropEnd))"),
    ],
    frame=["self"],
)

contract(
    PT + ".crop",
    serves=["C06", "C05", "C12", "C13", "C07"],
    configs={"mode": ["strict", "lax", "truncated"], "rebaseToZero": [True, False]},
    inputs=lambda S, cfg: dict(self=wf_point_tier(S, "self"), cropStart=S.real("cropStart"),
                               cropEnd=S.real("cropEnd"), mode=cfg["mode"], rebaseToZero=cfg["rebaseToZero"]),
    requires=WINDOW,
    spec="spec.tiers.PointTier_crop",
    ensures=[("span", "result.minTimestamp == (0 if rebaseToZero else cropStart)"
                      " and result.maxTimestamp == (cropEnd - cropStart if rebaseToZero else cropEnd)"),
             ("name", "result.name == self.name")],
    frame=["self"],
)

REPORT_CFG = {"reportingMode": ["silence", "warning", "error", "bogus"]}
OFFSET = ["-1e15 <= offset", "offset <= 1e15"]

contract(
    IT + ".editTimestamps",
    serves=["C09", "C05", "C13"],
    configs=REPORT_CFG,
    inputs=lambda S, cfg: dict(self=wf_interval_tier(S, "self"), offset=S.real("offset"),
                               reportingMode=cfg["reportingMode"]),
    requires=OFFSET,
    spec="spec.tiers.IntervalTier_editTimestamps",
    ensures=wf_interval_clauses("result") + [
        ("never-shrinks", "result.minTimestamp <= self.minTimestamp and result.maxTimestamp >= self.maxTimestamp"),
        ("name", "result.name == self.name")],
    frame=["self"],
)

contract(
    PT + ".editTimestamps",
    serves=["C09", "C05", "C13"],
    configs=REPORT_CFG,
    inputs=lambda S, cfg: dict(self=wf_point_tier(S, "self"), offset=S.real("offset"),
                               reportingMode=cfg["reportingMode"]),
    requires=OFFSET,
    spec="spec.tiers.PointTier_editTimestamps",
    ensures=[("never-shrinks", "result.minTimestamp <= self.minTimestamp and result.maxTimestamp >= self.maxTimestamp"),
             ("in-span", "forall(result.entries, lambda p: result.minTimestamp <= p.time and p.time <= result.maxTimestamp)"),
             ("sorted", "is_sorted(result.entries)")],
    frame=["self"],
)

contract(
    IT + ".insertSpace",
    serves=["C08", "C05", "C12", "C13"],
    configs={"collisionMode": ["stretch", "split", "no_change", "error", "bogus"]},
    inputs=lambda S, cfg: dict(self=wf_interval_tier(S, "self"), start=S.real("start"), duration=S.real("duration"),
                               collisionMode=cfg["collisionMode"]),
    requires=["0 <= start", "start <= 1e15", "0 < duration", "duration <= 1e15"],
    spec="spec.tiers.IntervalTier_insertSpace",
    ensures=wf_interval_clauses("result") + [
        ("span", "result.minTimestamp == self.minTimestamp and result.maxTimestamp == self.maxTimestamp + duration"),
        ("name", "result.name == self.name")],
    frame=["self"],
)

contract(
    PT + ".insertSpace",
    serves=["C08", "C05", "C12", "C13"],
    configs={"_collisionMode": ["error", "stretch"]},
    inputs=lambda S, cfg: dict(self=wf_point_tier(S, "self"), start=S.real("start"), duration=S.real("duration"),
                               _collisionMode=cfg["_collisionMode"]),
    requires=["0 <= start", "start <= 1e15", "0 < duration", "duration <= 1e15"],
    spec="spec.tiers.PointTier_insertSpace",
    ensures=[("span", "result.minTimestamp == self.minTimestamp and result.maxTimestamp == self.maxTimestamp + duration"),
             ("in-span", "forall(result.entries, lambda p: result.minTimestamp <= p.time and p.time <= result.maxTimestamp)"),
             ("sorted", "is_sorted(result.entries)")],
    frame=["self"],
)


TT = "praatio.data_classes.textgrid_tier.TextgridTier"


def tier_of(S, name, kind):
    return wf_interval_tier(S, name) if kind == "interval" else wf_point_tier(S, name)


contract(
    TT + ".appendTier",
    serves=["C09", "C05", "C13"],
    configs={"kinds": ["interval+interval", "point+point", "interval+point", "point+interval"]},
    inputs=lambda S, cfg: dict(self=tier_of(S, "self", cfg["kinds"].split("+")[0]),
                               tier=tier_of(S, "tier", cfg["kinds"].split("+")[1])),
    spec="spec.tiers.TextgridTier_appendTier",
    ensures=[("span", "result.minTimestamp == self.minTimestamp and "
                      "result.maxTimestamp == self.maxTimestamp + tier.maxTimestamp"),
             ("name", "result.name == self.name"),
             ("in-span", "forall(result.entries, lambda e: result.minTimestamp <= e[0] and e[-2] <= result.maxTimestamp)"),
             ("sorted", "is_sorted(result.entries)")],
    frame=["self", "tier"],
)


def distinct_interval_tier(S, name):
    """wf tier whose entries are pairwise distinguishable by Interval.__eq__ (1e-9 relative tolerance):
    deleteEntry searches by ==, so 'removes exactly the given entry' needs it.  The region of near-identical
    slivers is outside this precondition and is a recorded known finding.  The flag is a `requires`: it is
    consumed by the R-ERASE loop rule (pyvc/loops.py) as the no-duplicates side condition."""
    t = wf_interval_tier(S, name)
    S.mark_distinct(S.attr(t, "_entries"))
    return t


contract(
    IT + ".deleteEntry",
    serves=["C11", "C13", "C07"],
    inputs=lambda S, cfg: dict(self=distinct_interval_tier(S, "self"),
                               entry=S.nt("praatio.utilities.constants.Interval",
                                          [S.real("entry.start"), S.real("entry.end"), S.str("entry.label")])),
    spec="spec.tiers.TextgridTier_deleteEntry",
    ensures=[("well-formed", "well_formed(self)")],
)

INSERT_CFG = {"collisionMode": ["replace", "merge", "error", "bogus"], "collisionReportingMode": ["silence", "warning"]}


def new_interval(S, name="entry"):
    return S.nt("praatio.utilities.constants.Interval",
                [S.real(name + ".start"), S.real(name + ".end"), S.str(name + ".label")])


contract(
    IT + ".insertEntry",
    serves=["C11", "C05", "C13", "C10", "C07"],
    configs=INSERT_CFG,
    inputs=lambda S, cfg: dict(self=distinct_interval_tier(S, "self"), entry=new_interval(S),
                               collisionMode=cfg["collisionMode"],
                               collisionReportingMode=cfg["collisionReportingMode"]),
    requires=["0 <= entry.start", "entry.end <= 1e15"],
    spec="spec.tiers.IntervalTier_insertEntry", spec_first=True, engine_opts={"sorted_forward": True},
    ensures=wf_interval_clauses("self"),
)


def distinct_point_tier(S, name):
    t = wf_point_tier(S, name)
    S.mark_distinct(S.attr(t, "_entries"))
    return t


contract(
    PT + ".deleteEntry",
    serves=["C11", "C13", "C07"],
    inputs=lambda S, cfg: dict(self=distinct_point_tier(S, "self"),
                               entry=S.nt("praatio.utilities.constants.Point",
                                          [S.real("entry.time"), S.str("entry.label")])),
    spec="spec.tiers.TextgridTier_deleteEntry",
    ensures=[("well-formed", "well_formed(self)")],
)

REGION = ["0 <= start", "self.minTimestamp <= start", "end <= self.maxTimestamp"]

contract(
    IT + ".eraseRegion",
    serves=["C07", "C05", "C10", "C13"],
    # doShrink=True (shift + re-joining of a straddler through pop/pop/insert) was attempted against
    # spec.tiers.IntervalTier_eraseRegion and abandoned: 5 obligations stayed undischarged at > 100k ground facts
    # per query; the shrink step is decided by the bounded check c07_erase instead
    configs={"collisionMode": ["truncate", "categorical", "error", "bogus"], "doShrink": [False]},
    inputs=lambda S, cfg: dict(self=distinct_interval_tier(S, "self"), start=S.real("start"), end=S.real("end"),
                               collisionMode=cfg["collisionMode"], doShrink=cfg["doShrink"]),
    requires=REGION,
    spec="spec.tiers.IntervalTier_eraseRegion", spec_first=True, engine_opts={"sorted_forward": True},
    ensures=wf_interval_clauses("result") + [
        ("span", "result.minTimestamp == self.minTimestamp and result.maxTimestamp == "
                 "(start + (self.maxTimestamp - end) if doShrink else self.maxTimestamp)"),
        ("nothing-inside", "doShrink or forall(result.entries, lambda e: not overlaps(e, start, end))")],
    frame=["self"],
)

contract(
    PT + ".eraseRegion",
    serves=["C07", "C05", "C13"],
    configs={"collisionMode": ["truncate", "error"], "doShrink": [True, False]},
    inputs=lambda S, cfg: dict(self=distinct_point_tier(S, "self"), start=S.real("start"), end=S.real("end"),
                               collisionMode=cfg["collisionMode"], doShrink=cfg["doShrink"]),
    requires=REGION,
    spec="spec.tiers.PointTier_eraseRegion",
    ensures=[("nothing-inside", "forall(result.entries, lambda p: not (start <= p.time and p.time <= end)) "
                                "or doShrink"),
             ("span", "result.minTimestamp == self.minTimestamp and result.maxTimestamp == "
                      "(self.maxTimestamp - (end - start) if doShrink else self.maxTimestamp)"),
             ("sorted", "is_sorted(result.entries)")],
    frame=["self"],
)


def strict_point_tier(S, name):
    """wf point tier with pairwise distinct times (so that 'the colliding entries' is a single point and
    deleteEntry's search by == finds exactly it); tiers with several points at one time are outside this contract"""
    lo, hi = S.real(name + ".min"), S.real(name + ".max")
    env = {"lo": lo, "hi": hi}
    ents = S.list(name + ".entries", "Point",
                  all="lo <= e.time and e.time <= hi and strip(e.label) == e.label",
                  pair="a.time < b.time and not (a == b)", env=env)
    S.mark_distinct(ents)
    S.assume("0 <= lo and lo <= hi and hi <= 1e15", env)
    return S.obj(PT, name=S.str(name + ".name"), _entries=ents, minTimestamp=lo, maxTimestamp=hi,
                 errorReporter=S.I.get_function("praatio.utilities.utils.reportWarning"))


contract(
    PT + ".insertEntry",
    serves=["C11", "C05", "C13", "C10"],
    configs=INSERT_CFG,
    inputs=lambda S, cfg: dict(self=strict_point_tier(S, "self"),
                               entry=S.nt("praatio.utilities.constants.Point",
                                          [S.real("entry.time"), S.str("entry.label")]),
                               collisionMode=cfg["collisionMode"],
                               collisionReportingMode=cfg["collisionReportingMode"]),
    requires=["0 <= entry.time", "entry.time <= 1e15"],
    spec="spec.tiers.PointTier_insertEntry", spec_first=True, engine_opts={"sorted_forward": True},
    ensures=[("in-span", "forall(self.entries, lambda p: self.minTimestamp <= p.time and p.time <= self.maxTimestamp)"),
             ("stripped", "forall(self.entries, lambda p: strip(p.label) == p.label)"),
             ("sorted", "is_sorted(self.entries)")],
)


# ---- union / difference: the class invariant carried through the loop (R-INV, pyvc/folds.py).  What is proved is
# that the result is a well-formed tier for all operands (C05's invariant argument, C10's "result is a tier"); the
# labelled-time algebra of C10 is decided by the bounded check c10_setops.
TT = "praatio.data_classes.textgrid_tier.TextgridTier"


def cls_name(obj):
    return obj.cls.name if hasattr(obj, "cls") else type(obj).__name__


def inv_tier(S, tag, cur):
    """an arbitrary well-formed tier of the class of the carried one (entries pairwise distinguishable, as R-ERASE
    needs for the delete loops inside eraseRegion / insertEntry)"""
    return distinct_interval_tier(S, tag) if cls_name(cur) == "IntervalTier" else strict_point_tier(S, tag)


POINT_WF = [("in-span", "forall(%s.entries, lambda p: %s.minTimestamp <= p.time and p.time <= %s.maxTimestamp)"),
            ("stripped", "forall(%s.entries, lambda p: strip(p.label) == p.label)"),
            ("sorted", "is_sorted(%s.entries)"),
            # what PointTier.insertEntry's contract assumes of its receiver: no two points at one time
            ("distinct-times", "adjacent(%s.entries, lambda a, b: a.time < b.time)")]


def wf_clauses(r, span="not-shrunk"):
    """the loop invariant of union / difference: well-formed, still named like the receiver, span not shrunk (union
    may widen it) / unchanged (difference)"""
    keeps = [("name-kept", "%s.name == self.name" % r),
             ("span-between-receiver-and-hull",
              "%s.minTimestamp <= self.minTimestamp and self.maxTimestamp <= %s.maxTimestamp and "
              "min(self.minTimestamp, tier.minTimestamp) <= %s.minTimestamp and "
              "%s.maxTimestamp <= max(self.maxTimestamp, tier.maxTimestamp)" % (r, r, r, r))
             if span == "not-shrunk" else
             ("span-kept", "%s.minTimestamp == self.minTimestamp and %s.maxTimestamp == self.maxTimestamp" % (r, r))]
    return lambda cur: (wf_interval_clauses(r) if cls_name(cur) == "IntervalTier"
                        else [(l, t.replace("%s", r)) for l, t in POINT_WF]) + keeps


def two_tiers(S, cfg):
    if cfg["kind"] == "interval":
        return dict(self=distinct_interval_tier(S, "self"), tier=distinct_interval_tier(S, "tier"))
    return dict(self=strict_point_tier(S, "self"), tier=distinct_point_tier(S, "tier"))


INV = {"loop#1": {"invariant": {"var": "retTier", "builder": inv_tier, "clauses": wf_clauses("retTier")}}}
INV_KEEP = {"loop#1": {"invariant": {"var": "retTier", "builder": inv_tier, "clauses": wf_clauses("retTier", "kept")}}}

contract(TT + ".union", serves=["C05", "C10", "C13"], spec_module="spec.tiers",
         configs={"kind": ["interval", "point"]}, inputs=two_tiers, loops=INV, frame=["self", "tier"],
         ensures=[("well-formed", "well_formed(result)"), ("name-kept", "result.name == self.name"),
                  ("span-between-receiver-and-hull",
                   "result.minTimestamp <= self.minTimestamp and self.maxTimestamp <= result.maxTimestamp and "
                   "min(self.minTimestamp, tier.minTimestamp) <= result.minTimestamp and "
                   "result.maxTimestamp <= max(self.maxTimestamp, tier.maxTimestamp)")])

contract(IT + ".difference", serves=["C05", "C10", "C13"], spec_module="spec.tiers",
         configs={"kind": ["interval"]}, inputs=two_tiers, loops=INV_KEEP, frame=["self", "tier"],
         ensures=[("well-formed", "well_formed(result)"), ("name-kept", "result.name == self.name"),
                  ("span-kept", "result.minTimestamp == self.minTimestamp and result.maxTimestamp == self.maxTimestamp")])


# ---- TextgridTier.new(): an independent copy; a requested span is widened to the entries, never kept narrower
def new_inputs(S, cfg):
    d = dict(self=wf_interval_tier(S, "self") if cfg["kind"] == "interval" else wf_point_tier(S, "self"))
    d["name"] = None
    d["entries"] = None
    d["minTimestamp"] = S.real("minTimestamp") if cfg["span"] == "sym" else None
    d["maxTimestamp"] = S.real("maxTimestamp") if cfg["span"] == "sym" else None
    return d


contract(TT + ".new", serves=["C13", "C05"], spec_module="spec.tiers",
         configs={"kind": ["interval", "point"], "span": ["default", "sym"]},
         inputs=new_inputs, frame=["self"],
         requires=["minTimestamp is None or (0 <= minTimestamp and minTimestamp <= maxTimestamp and maxTimestamp <= 1e15)"],
         ensures=[("same-entries", "result.entries == self.entries and result.name == self.name"),
                  ("independent", "result is not self and result._entries is not self._entries"),
                  # a requested span that is narrower than the entries is widened, never kept
                  ("well-formed", "well_formed(result)")])


# ---- intersection / mergeLabels: the accumulated entry list is summarised as an arbitrary list (R-HAVOC); what is
# proved is what holds whatever the loop collected: the result went through the validating constructor, so it is a
# well-formed tier or the call raises TextgridStateError and nothing else; the operands are not mutated.  The
# labelled-time content is decided by c10_setops.

for fn in ("intersection", "mergeLabels"):
    contract(IT + "." + fn, serves=["C05", "C10", "C13"], spec_module="spec.tiers",
             inputs=lambda S, cfg: dict(self=wf_interval_tier(S, "self"), tier=wf_interval_tier(S, "tier")),
             loops={"loop#1": {"havoc": {"retEntryList": "tuple3"}}},
             frame=["self", "tier"], may_raise=["TextgridStateError"],
             ensures=[("well-formed", "well_formed(result)")])


# ---- eraseRegion with shrinking: a second contract on the same function (variant "shrink").  The refinement against
# the property's spec was abandoned (see the main contract above); what is proved here is the class-invariant clause:
# the shifted entries are summarised as an arbitrary list (R-HAVOC), the re-joining loop runs through R-FIND, and the
# result goes through the validating constructor - a well-formed tier, or TextgridStateError / CollisionError.

contract(IT + ".eraseRegion", variant="shrink", serves=["C05", "C07", "C13"], spec_module="spec.tiers",
         configs={"collisionMode": ["truncate", "categorical", "error"], "doShrink": [True]},
         inputs=lambda S, cfg: dict(self=distinct_interval_tier(S, "self"), start=S.real("start"), end=S.real("end"),
                                    collisionMode=cfg["collisionMode"], doShrink=cfg["doShrink"]),
         requires=REGION + ["start < end"],
         loops={"loop#2": {"havoc": {"newEntryList": "Interval"}}},
         frame=["self"], may_raise=["TextgridStateError", "CollisionError"],
         ensures=[("well-formed", "well_formed(result)")])
