"""Operations on (abstract) lists: methods, indexing, min/max, sort, structural equality."""
import ast

import z3

from . import core
from .core import (Unsupported, Fraction, AList, LTerm, Atom, Conc, FM, FMPath, Concat, Drop1, Reverse, Sorted,
                   is_z3, to_z3, as_real, REAL, INT, STR, BOOL, TRUE)
from .values import *  # noqa
from . import builtins_model as bm


# ----------------------------------------------------------------------- copying


def deepcopy(I, v, memo):
    if isinstance(v, AList):
        if id(v) in memo:
            return memo[id(v)]
        items = I.items_of(v)
        if items is not None:
            nb = I.new_list([], v.is_tuple)
            memo[id(v)] = nb
            nb.term = core.mk_conc(I, [deepcopy(I, x, memo) for x in items])
        else:
            nb = I.new_alist(v.term, v.is_tuple)  # elements are immutable
            memo[id(v)] = nb
        return nb
    if isinstance(v, SObj):
        if id(v) in memo:
            return memo[id(v)]
        o = SObj(v.cls)
        o.owner = id(I.ctx)
        memo[id(v)] = o
        for k, x in v.attrs.items():
            o.attrs[k] = deepcopy(I, x, memo)
        return o
    if isinstance(v, bm.SDict):
        if id(v) in memo:
            return memo[id(v)]
        d = bm.SDict()
        d.owner = id(I.ctx)
        memo[id(v)] = d
        d.pairs = [(k, deepcopy(I, x, memo)) for k, x in v.pairs]
        return d
    if isinstance(v, dict):
        if id(v) in memo:
            return memo[id(v)]
        d = type(v)()
        d.owner = id(I.ctx)
        memo[id(v)] = d
        for k, x in v.items():
            d[k] = deepcopy(I, x, memo)
        return d
    if isinstance(v, tuple):
        return tuple(deepcopy(I, x, memo) for x in v)
    return v


def shallowcopy(I, v):
    if isinstance(v, AList):
        return I.new_alist(v.term, v.is_tuple)
    if isinstance(v, dict):
        d = type(v)(v)
        d.owner = id(I.ctx)
        return d
    if isinstance(v, SObj):
        o = SObj(v.cls)
        o.owner = id(I.ctx)
        o.attrs = dict(v.attrs)
        return o
    return v


# ----------------------------------------------------------------------- indexing / slicing


def abstract_getitem(I, box, idx):
    t = box.term
    n = bm.list_len(I, box)
    k = bm.norm_index(I, idx, n)
    items = I.items_of(box)
    if items is not None:
        # concrete list, symbolic index
        out = None
        for j in range(len(items) - 1, -1, -1):
            out = items[j] if out is None else bm.ite(I, to_z3(k) == j, items[j], out)
            if out is None:
                raise Unsupported("symbolic index into a heterogeneous list")
        return out
    m = t.new_member(TRUE, k)
    return m.elem


def slice_value(I, obj, sl):
    lo, hi, st = sl.start, sl.stop, sl.step
    if isinstance(obj, str):
        if all(x is None or isinstance(x, int) for x in (lo, hi, st)):
            return obj[lo:hi:st]
        raise Unsupported("symbolic string slice")
    if isinstance(obj, bytes):
        if all(x is None or isinstance(x, int) for x in (lo, hi, st)):
            return obj[lo:hi:st]
        raise Unsupported("symbolic bytes slice")
    if isinstance(obj, (tuple, NT)):
        items = list(obj) if isinstance(obj, tuple) else list(obj.vals)
        if all(x is None or isinstance(x, int) for x in (lo, hi, st)):
            return tuple(items[lo:hi:st])
        raise Unsupported("symbolic tuple slice")
    if isinstance(obj, AList):
        items = I.items_of(obj)
        if items is not None and all(x is None or isinstance(x, int) for x in (lo, hi, st)):
            return I.new_list(items[lo:hi:st], obj.is_tuple)
        t = obj.term
        if st in (None, 1) and hi is None and lo in (None, 0):
            return I.new_alist(t, obj.is_tuple)
        if st in (None, 1) and hi is None and lo == 1:
            return I.new_alist(core.mk_unary(I, Drop1, t), obj.is_tuple)
        if st == -1 and lo is None and hi is None:
            return I.new_alist(core.mk_unary(I, Reverse, t), obj.is_tuple)
        if st in (None, 1) and all(x is None or isinstance(x, int) or (is_z3(x) and x.sort() == z3.IntSort())
                                   for x in (lo, hi)):
            return I.new_alist(core.mk_slice(I, t, lo, hi), obj.is_tuple)
        raise Unsupported("slice [%s:%s:%s] of an abstract list" % (lo, hi, st))
    if hasattr(obj, "slice_value"):
        return obj.slice_value(I, sl)
    raise Unsupported("slice of %r" % (obj,))


def dict_get_symbolic(I, d, k):
    raise Unsupported("symbolic dict key")


# ----------------------------------------------------------------------- membership


def elem_equal_py(I, a, b):
    """python == between two values as z3 Bool / bool (uses repo __eq__ for namedtuples)"""
    r = bm.equals(I, a, b)
    return r


def member_of_items(I, items, x):
    acc = []
    for it in items:
        r = elem_equal_py(I, it, x)
        if r is True:
            return True
        if r is False:
            continue
        acc.append(to_z3(r))
    if not acc:
        return False
    return bm.simp_bool(z3.Or(acc))


def exists_in(I, term, pred, note):
    """fresh Bool b with: b -> witness index satisfying pred ; not b -> all elements fail pred"""
    ctx = I.ctx
    b = ctx.fresh_bool("ex")
    w = ctx.fresh_int("w")
    m = term.new_member(b, w)
    rng = z3.And(w >= 0, w < term.length())

    def at_witness():
        ctx.pure_depth += 1
        try:
            return to_z3(pred(m.elem, w))
        finally:
            ctx.pure_depth -= 1
    try:
        pw = at_witness()
    except Unsupported:
        # the predicate indexes other lists: evaluate it with the witness assumed in range
        pw = ctx.eval_under(rng, at_witness)
    ctx.assume(z3.Implies(b, pw))

    def neg(elem, idx):
        c2 = I.ctx

        def ev():
            c2.pure_depth += 1
            try:
                return z3.Not(to_z3(pred(elem, idx)))
            finally:
                c2.pure_depth -= 1
        try:
            return ev()
        except Unsupported:
            return c2.eval_under(z3.And(idx >= 0, idx < term.length()), ev)
    term.all_facts.append((z3.Not(b), neg, "not-" + note))
    return b, m


def abstract_contains(I, box, x):
    b, m = exists_in(I, box.term, lambda e, i: elem_equal_py(I, e, x), "in")
    return b


def abstract_index(I, box, x):
    """list.index(x): first index whose element == x; ValueError if none"""
    t = box.term
    b, m = exists_in(I, t, lambda e, i: elem_equal_py(I, e, x), "index")
    if not I.ctx.decide(b, "list.index finds"):
        I.raise_exc(VALUE_ERR, "x not in list")
    k = m.idx

    def before(elem, idx):
        I.ctx.pure_depth += 1
        try:
            return z3.Implies(idx < k, z3.Not(to_z3(elem_equal_py(I, elem, x))))
        finally:
            I.ctx.pure_depth -= 1
    t.all_facts.append((TRUE, before, "first-index"))
    return k


# ----------------------------------------------------------------------- removal


class RemoveAt(LTerm):
    """inner with the element at index k removed"""

    def __init__(self, interp, inner, k):
        super().__init__(interp, inner.etype)
        self.inner = inner
        self.k = to_z3(k)

    def length(self):
        return self.inner.length() - 1

    def define_member(self, m):
        src = z3.If(m.idx < self.k, m.idx, m.idx + 1)
        im = self.inner.new_member(m.cond, src)
        self.ctx.assume(z3.Implies(m.cond, self.interp.elem_eq(m.elem, im.elem)))

    def describe(self):
        return "%s-[k]" % self.inner.describe()


class InsertAt(LTerm):
    """inner with x inserted before index k (0 <= k <= len)"""

    def __init__(self, interp, inner, k, x):
        super().__init__(interp, inner.etype or interp.elem_type_of(x))
        self.inner = inner
        self.k = to_z3(k)
        self.x = interp.coerce_elem(x, self.etype)

    def length(self):
        return self.inner.length() + 1

    def define_member(self, m):
        c_in = z3.And(m.cond, m.idx != self.k)
        src = z3.If(m.idx < self.k, m.idx, m.idx - 1)
        im = self.inner.new_member(c_in, src)
        self.ctx.assume(z3.Implies(c_in, self.interp.elem_eq(m.elem, im.elem)))
        self.ctx.assume(z3.Implies(z3.And(m.cond, m.idx == self.k), self.interp.elem_eq(m.elem, self.x)))

    def describe(self):
        return "%s+[k]" % self.inner.describe()


# ----------------------------------------------------------------------- list methods


def list_method(I, box, name):
    from .loops import Recorder

    def mk(fn):
        return BoundMethod(box, Builtin("list." + name, fn))

    if name == "append":
        return mk(lambda I, a, k: bm.list_append(I, a[0], a[1]))
    if name == "extend":
        return mk(lambda I, a, k: bm.list_extend(I, a[0], a[1]))
    if name == "sort":
        def f(I, a, k):
            if k:
                raise Unsupported("sort with key/reverse")
            I.check_mutable(a[0])
            sort_in_place(I, a[0])
        return mk(f)
    if name == "index":
        def f(I, a, k):
            b, x = a[0], a[1]
            items = I.items_of(b)
            if items is not None:
                for i, it in enumerate(items):
                    r = elem_equal_py(I, it, x)
                    if r is True or (r is not False and I.ctx.decide(to_z3(r), "list.index==")):
                        return i
                I.raise_exc(VALUE_ERR, "x not in list")
            return abstract_index(I, b, x)
        return mk(f)
    if name == "pop":
        def f(I, a, k):
            b = a[0]
            I.check_mutable(b)
            n = bm.list_len(I, b)
            idx = a[1] if len(a) > 1 else -1
            items = I.items_of(b)
            if items is not None and isinstance(idx, int):
                if idx < -len(items) or idx >= len(items):
                    I.raise_exc(INDEX_ERR, "pop index out of range")
                new = list(items)
                v = new.pop(idx)
                b.term = core.mk_conc(I, new)
                return v
            kx = bm.norm_index(I, idx, n)
            if items is not None:
                raise Unsupported("pop at symbolic index from a concrete list")
            v = b.term.new_member(TRUE, kx).elem
            b.term = RemoveAt(I, b.term, kx)
            return v
        return mk(f)
    if name == "insert":
        def f(I, a, k):
            b, idx, x = a
            I.check_mutable(b)
            items = I.items_of(b)
            if items is not None and isinstance(idx, int):
                new = list(items)
                new.insert(idx, x)
                b.term = core.mk_conc(I, new)
                return None
            if isinstance(idx, int) and idx == 0:
                b.term = core.mk_concat(I, [core.mk_conc(I, [x]), b.term], bm.etype_of_term(I, b.term))
                return None
            if items is not None and is_z3(idx):
                # known list, symbolic position: python clamps the index; fork on the resulting position
                n = len(items)
                zi = to_z3(idx)
                pos = z3.If(zi < 0, z3.If(n + zi < 0, 0, n + zi), z3.If(zi > n, n, zi))
                for k in range(n + 1):
                    if k == n or I.ctx.decide(pos == k, "insert position"):
                        new = list(items)
                        new.insert(k, x)
                        b.term = core.mk_conc(I, new)
                        return None
            if is_z3(idx) or isinstance(idx, int):
                n = b.term.length()
                zi = to_z3(idx)
                # python clamps the insertion index
                pos = z3.If(zi < 0, z3.If(n + zi < 0, 0, n + zi), z3.If(zi > n, n, zi))
                b.term = InsertAt(I, b.term, z3.simplify(pos), x)
                return None
            raise Unsupported("insert at %r" % (idx,))
        return mk(f)
    if name == "remove":
        def f(I, a, k):
            b, x = a
            I.check_mutable(b)
            i = I.call(list_method(I, b, "index"), [x], {})
            I.call(list_method(I, b, "pop"), [i], {})
        return mk(f)
    if name == "count":
        def f(I, a, k):
            items = I.items_of(a[0])
            if items is None:
                raise Unsupported("count on abstract list")
            c = 0
            for it in items:
                r = elem_equal_py(I, it, a[1])
                c = bm.arith(I, "+", c, z3.If(to_z3(r), 1, 0)) if is_z3(r) else c + (1 if r else 0)
            return c
        return mk(f)
    if name == "copy":
        return mk(lambda I, a, k: I.new_alist(a[0].term))
    if name == "reverse":
        def f(I, a, k):
            b = a[0]
            I.check_mutable(b)
            items = I.items_of(b)
            if items is not None:
                b.term = core.mk_conc(I, list(reversed(items)))
            else:
                b.term = core.mk_unary(I, Reverse, b.term)
        return mk(f)
    return None


def recorder_method(I, rec, name):
    def mk(fn):
        return BoundMethod(rec, Builtin("acc." + name, fn))

    if name == "append":
        return mk(lambda I, a, k: a[0].outs.append(a[1]))
    if name == "extend":
        def f(I, a, k):
            items = I.try_iter_concrete(a[1])
            if items is None:
                if getattr(a[0], "tolerate_abstract", False):
                    a[0].outs.append(a[1])  # R-HAVOC ignores what is appended
                    return None
                raise Unsupported("extend of an accumulator with an abstract list inside an abstracted loop")
            a[0].outs.extend(items)
        return mk(f)
    raise Unsupported("accumulator '%s' used as a value inside the loop (needs a fold rule)" % rec.name)


# ----------------------------------------------------------------------- sort


def prove_sorted(I, term):
    """True iff term is provably sorted already (python's stable sort is then the identity)"""
    ctx = I.ctx
    if term.etype is None:
        return False
    cached = getattr(term, "_sorted_proved", None)
    if cached is not None:
        return cached
    with ctx.scoped():
        i1, i2 = ctx.fresh_int("s1"), ctx.fresh_int("s2")
        m1 = term.any_member(i1)
        m2 = term.any_member(i2)
        le = bm.elem_lex_le(I)(m1.elem, m2.elem)
        r = ctx.entails(z3.Implies(z3.And(m1.cond, m2.cond, i1 < i2), le))
    if r:
        term._sorted_proved = True
        s = ctx.hc.get(("sorted", id(term)))
        if s is not None and not any((a is s and b is term) for a, b in ctx.links):
            # a Sorted(term) built earlier on this path is this very list
            ctx.links.append((s, term))
    return r


def sort_in_place(I, box):
    items = I.items_of(box)
    if items is not None:
        if len(items) <= 1:
            return
        if not all(I.is_elem(x) for x in items):
            raise Unsupported("sorting non-element values")
        # insertion sort with path forks only where the order is not determined
        out = []
        for x in items:
            pos = len(out)
            while pos > 0:
                c = bm.scalar_or_seq_lt(I, x, out[pos - 1], True)
                if c is True or (c is not False and I.ctx.decide(to_z3(c), "sort<")):
                    pos -= 1
                else:
                    break
            out.insert(pos, x)
        box.term = core.mk_conc(I, out)
        return
    t = box.term
    if isinstance(t, Sorted):
        return
    if prove_sorted(I, t):
        return
    box.term = core.mk_sorted(I, t, bm.elem_lex_le(I))


def add_adjacent_fact(I, term, cond, fn, tag):
    """record  forall k. fn(T[k], T[k+1])  (when cond holds) and apply the chain rule:
    if fn is transitive on elements satisfying T's facts, it holds for every i < j (Lean: chain_pairwise)."""
    ctx = I.ctx
    term.adj_facts.append((cond, fn, tag))
    with ctx.scoped():
        i, j, k = ctx.fresh_int("c1"), ctx.fresh_int("c2"), ctx.fresh_int("c3")
        a = term.any_member(i)
        b = term.any_member(j)
        c = term.any_member(k)
        I.ctx.pure_depth += 1
        try:
            goal = z3.Implies(z3.And(cond, a.cond, b.cond, c.cond, i < j, j < k, to_z3(fn(a.elem, b.elem)),
                                     to_z3(fn(b.elem, c.elem))),
                              to_z3(fn(a.elem, c.elem)))
        finally:
            I.ctx.pure_depth -= 1
        ok = ctx.entails(goal)
    if ok:
        term.pair_facts.append((cond, fn, tag + "+chain"))
        return True
    return False


def dedup_term(I, term, ordered=True):
    """list(set(xs)) / sorted(set(xs)): the distinct elements (order unspecified; callers sort)"""
    return core.mk_unary(I, core.Dedup, term)


# ----------------------------------------------------------------------- min / max / sum / any / all / join


def abstract_minmax(I, v, is_min, key):
    if not isinstance(v, AList):
        raise Unsupported("min/max of %r" % (v,))
    t = v.term
    ctx = I.ctx
    n = t.length()
    if ctx.decide(n == 0, "min/max of empty"):
        I.raise_exc(VALUE_ERR, "min()/max() arg is an empty sequence")
    lj = getattr(ctx, "_loop_j", None)
    sk = None
    if lj is not None:
        # inside an abstracted loop body the position of the extremal element is a function of the iteration:
        # w = W(j) for a fresh function W (iteration skolem, see core.Ctx.sk_install)
        if getattr(ctx.parent, "_loop_j", None) is not None:
            raise Unsupported("min/max inside a nested abstracted loop")
        I.sk_counter = getattr(I, "sk_counter", 0) + 1
        sk = z3.Function("argm!%d" % I.sk_counter, z3.IntSort(), z3.IntSort())
        w = sk(lj)
    else:
        w = ctx.fresh_int("mm")
    m = t.new_member(TRUE, w)
    res = m.elem

    def keyof(e):
        return I.call(key, [e], {}) if key is not None else e

    ctx.pure_depth += 1
    try:
        kr = keyof(res)
    finally:
        ctx.pure_depth -= 1

    def bound(elem, idx):
        I.ctx.pure_depth += 1
        try:
            ke = keyof(elem)
            c = bm.scalar_or_seq_lt(I, kr, ke, False) if is_min else bm.scalar_or_seq_lt(I, ke, kr, False)
            # python returns the first extremal element
            cs = bm.scalar_or_seq_lt(I, kr, ke, True) if is_min else bm.scalar_or_seq_lt(I, ke, kr, True)
            return z3.And(to_z3(c), z3.Implies(idx < w, to_z3(cs)))
        finally:
            I.ctx.pure_depth -= 1
    t.all_facts.append((TRUE, bound, "minmax"))
    if sk is not None:
        e_ph = ctx.fresh_elem(t.etype, "ph")
        i_ph = ctx.fresh_int("phi")
        tmpl = bound(e_ph, i_ph)
        I.skolems[sk.name()] = dict(W=sk, j=lj, binds=list(getattr(ctx, "_loop_binds", [])), term=t, tmpl=tmpl,
                                    e_ph=[to_z3(x) for x in I.elem_parts(e_ph)], i_ph=i_ph)
    return res


def abstract_sum(I, v):
    """sum(abstract list of numbers): an uninterpreted function of the list identity (list terms are hash-consed and
    pointwise-equal flatMaps unified, so the real body's and the spec's sum over the same list are one constant);
    the only fact given is sum([]) == 0"""
    if not isinstance(v, AList) or v.term.etype is None or v.term.etype.kind != "scalar":
        raise Unsupported("sum of an abstract list")
    t = v.term
    if t.etype.sort == INT:
        c = z3.Int("sum!" + t.uid)
    elif t.etype.sort == REAL:
        c = z3.Real("sum!" + t.uid)
    else:
        raise Unsupported("sum of an abstract list of non-numbers")
    I.ctx.assume(z3.Implies(t.length() == 0, c == 0))
    return c


def abstract_anyall(I, v, is_any):
    if not isinstance(v, AList):
        raise Unsupported("any/all of %r" % (v,))
    t = v.term
    if is_any:
        b, m = exists_in(I, t, lambda e, i: e if z3.is_bool(to_z3(e)) else to_z3(e) != 0, "any")
        return b
    b, m = exists_in(I, t, lambda e, i: z3.Not(to_z3(e)), "all")
    return z3.Not(b)


def abstract_join(I, sep, seq):
    """sep.join(abstract list of strings): an uninterpreted function of (sep, list identity)."""
    if not isinstance(seq, AList):
        raise Unsupported("join of %r" % (seq,))
    r = JoinVal.make(I, sep, seq.term)
    # A4: joining stripped strings with a non-blank separator gives a stripped string
    if isinstance(sep, str) and sep.strip() == sep and sep != "":
        b, m = exists_in(I, seq.term, lambda e, i: I.strip_fn(to_z3(e)) != to_z3(e), "join-unstripped")
        I.ctx.assume(z3.Implies(z3.Not(b), I.strip_fn(r) == r))
    return r


class JoinVal:
    @staticmethod
    def make(I, sep, term):
        f = z3.Function("join!" + term.uid, STR, STR)
        v = f(to_z3(sep))
        term.__dict__.setdefault("_joins", {})[to_z3(sep).sexpr()] = v
        return v


def stat_fn(I, fn, seq):
    """statistics.median/mean/stdev... of a list of KNOWN length with symbolic values: an uninterpreted
    function of the values in order (A6); abstract lists are not supported"""
    items = I.try_iter_concrete(seq)
    if items is None:
        raise Unsupported("statistics.%s of an abstract list" % fn)
    if not items:
        from .values import STATS_ERR
        I.raise_exc(STATS_ERR, "no data")
    if all(isinstance(x, (int, Fraction)) and not isinstance(x, bool) for x in items):
        import statistics
        return Fraction(getattr(statistics, fn)([Fraction(x) for x in items]))
    f = z3.Function("stat.%s.%d" % (fn, len(items)), *([REAL] * len(items) + [REAL]))
    return f(*[as_real(x) for x in items])


# ----------------------------------------------------------------------- structural equality (proof rule)


class Seg:
    def __init__(self, kind, **kw):
        self.kind = kind
        self.__dict__.update(kw)


def fuse(I, fm):
    """FM(FM(A, P1), P2) -> FM(A, P12) when P2 looks only at the element (not at neighbours / the index)."""
    inner = fm.src
    if not isinstance(inner, FM):
        return fm
    inner = fuse(I, inner)
    from .loops import free_names, value_exprs
    j2 = fm.jvar
    j1 = inner.jvar
    consts = [c for c, _ in fm.binds]
    if len(consts) != len(I.elem_parts(inner.at(j2))):
        return fm
    new_paths = []

    def pairs_for(out):
        return list(zip(consts, [to_z3(p) for p in I.elem_parts(I.coerce_elem(out, inner.etype))]))

    for p1 in inner.paths:
        combos = [[]]
        for o in p1.outs:
            pairs = pairs_for(o)
            nxt = []
            for c in combos:
                for p2 in fm.paths:
                    g = z3.substitute(p2.guard, *pairs)
                    outs = [I.elem_map(x, lambda e: z3.substitute(e, *pairs)) for x in p2.outs]
                    nxt.append(c + [(g, outs)])
            combos = nxt
        for c in combos:
            g = z3.And([p1.guard] + [x[0] for x in c]) if c else p1.guard
            outs = [o for x in c for o in x[1]]
            new_paths.append(FMPath(z3.simplify(g), outs))
    exprs = [p.guard for p in new_paths] + [e for p in new_paths for o in p.outs for e in value_exprs(I, o)]
    names = free_names(exprs)
    if j2.decl().name() in names or any(c.decl().name() in names for c in consts):
        return fm
    new_paths = [p for p in new_paths if not z3.is_false(p.guard)]
    return core.mk_fm(I, inner.src, j1, new_paths, fm.etype, inner.binds)


def segments(I, term):
    if isinstance(term, Concat):
        out = []
        for p in term.parts:
            out.extend(segments(I, p))
        return out
    if isinstance(term, Conc):
        return [Seg("conc", items=term.items, term=term)] if term.items else []
    if isinstance(term, Sorted) and prove_sorted(I, term.inner):
        # facts learned since the sort make the input provably sorted: the stable sort was the identity
        return segments(I, term.inner)
    if isinstance(term, FM):
        f = fuse(I, term)
        if isinstance(f, FM) and not f.is_map and is_identity_filter(I, f):
            # lemma: a filter all of whose elements pass is the list itself
            return segments(I, f.src)
        if isinstance(f, FM) and isinstance(f.src, Concat) and index_free(I, f):
            # flatMap distributes over concatenation
            out = []
            for p in f.src.parts:
                if p.etype is None and isinstance(p, Conc) and not p.items:
                    continue
                pb = list(zip([c for c, _ in f.binds], [to_z3(x) for x in I.elem_parts(p.at(f.jvar))]))
                out.extend(segments(I, core.mk_fm(I, p, f.jvar, f.paths, f.etype, pb)))
            return out
        if isinstance(f, FM) and isinstance(f.src, Conc) and index_free(I, f) and f.src.items:
            r = expand_over_items(I, f)
            if r is not None:
                return r
        return [Seg("fm", fm=f, term=f)]
    return [Seg("opaque", term=term)]


def is_identity_filter(I, f):
    ctx = I.ctx
    if f.src.etype is None or not f.binds or repr(f.src.etype) != repr(f.etype):
        return False
    with ctx.scoped():
        j = ctx.fresh_int("idj")
        gm = f.src.any_member(j)
        goals = [f.count(j) == 1]
        o = f.out_k(j, 0)
        if o is None:
            return False
        goals.append(I.elem_eq(o, gm.elem))
        return ctx.entails(z3.Implies(gm.cond, z3.And(goals)), quick=True)


def index_free(I, f):
    from .loops import free_names, value_exprs
    exprs = [p.guard for p in f.paths] + [e for p in f.paths for o in p.outs for e in value_exprs(I, o)]
    return f.jvar.decl().name() not in free_names(exprs) and len(f.binds) > 0


def expand_over_items(I, f):
    """FM over a list of known items: decide each guard on the path (no fork: only if entailed)"""
    ctx = I.ctx
    consts = [c for c, _ in f.binds]
    items = []
    for it in f.src.items:
        parts = [to_z3(x) for x in I.elem_parts(I.coerce_elem(it, f.src.etype))]
        pairs = list(zip(consts, parts))
        chosen = None
        for p in f.paths:
            g = z3.substitute(p.guard, *pairs)
            if ctx.entails(g):
                chosen = p
                break
        if chosen is None:
            return None
        items.extend(I.elem_map(o, lambda e: z3.substitute(e, *pairs)) for o in chosen.outs)
    return [Seg("conc", items=items, term=None)] if items else []


def merge_conc(segs):
    out = []
    for s in segs:
        if s.kind == "conc" and out and out[-1].kind == "conc":
            out[-1] = Seg("conc", items=out[-1].items + s.items, term=None)
        else:
            out.append(s)
    return out


def same_term(I, t1, t2):
    """(ok, why): prove that the two list terms denote equal lists on the current path."""
    if t1 is t2:
        return True, None
    with I.ctx.scoped():
        refresh_empty(I, t1, set())
        refresh_empty(I, t2, set())
        ok, why = same_term_inner(I, t1, t2)
        if not ok and isinstance(why, tuple) and why[1] is not None:
            # keep a counter-model while the scope's witnesses are still alive
            model, status = I.registry_model(why[1]) if hasattr(I, "registry_model") else (None, None)
            why = (why[0], why[1], model, status)
    return ok, why


def refresh_empty(I, term, seen):
    """lemma: a filter none of whose elements can pass is the empty list (facts learned later on the path may
    have made a filter built earlier degenerate)"""
    if id(term) in seen:
        return
    seen.add(id(term))
    ctx = I.ctx
    for ch in ([term.inner] if hasattr(term, "inner") else []) + list(getattr(term, "parts", [])) + \
            ([term.src] if hasattr(term, "src") else []):
        if isinstance(ch, LTerm):
            refresh_empty(I, ch, seen)
    if isinstance(term, FM) and not term.is_map and not getattr(term, "_empty_known", False):
        with ctx.scoped():
            j = ctx.fresh_int("ej")
            gm = term.src.any_member(j)
            empty = ctx.entails(z3.Implies(gm.cond, term.count(j) == 0), quick=True)
        if empty:
            term._empty_known = True
            ctx.assume(term.length() == 0)


import os as _os
PEEL = not _os.environ.get("NOPEEL")
UNDECIDED_GUARDS = []


def peel_index(I, f, last):
    """flatMap over range(n) with n >= 1 on the path, split at its first (last) index:
    FM(range(n)) = body(0) ++ FM(j -> body(j + 1), range(n - 1))   resp.   FM(range(n - 1)) ++ body(n - 1)
    (lemma flatMap_range_succ / flatMap_range_succ_last, lean/Lifting.lean).  The peeled index must take a path whose
    guard is entailed (no fork); returns (items, rest) or None."""
    from .loops import IndexSpace
    ctx = I.ctx
    src = f.src
    if not isinstance(src, IndexSpace) or f.binds:
        return None
    if not ctx.entails(src.n >= 1):
        return None
    at = z3.simplify(src.n - 1) if last else z3.IntVal(0)
    exprs = []
    for p in f.paths:
        exprs.append(f.inst(p.guard, at))
    ctx.touch(exprs, TRUE)
    chosen = None
    for p in f.paths:
        if ctx.entails(f.inst(p.guard, at)):
            chosen = p
            break
    if chosen is None:
        # no guard is entailed: the caller may split the proof over the (exclusive, exhaustive) guards of this index
        UNDECIDED_GUARDS.append([f.inst(p.guard, at) for p in f.paths])
        return None
    items = [f.inst_elem(o, at) for o in chosen.outs]
    for it in items:
        ctx.touch([to_z3(x) for x in I.elem_parts(it) if is_z3(x)], TRUE)
    if last:
        rest_paths = f.paths
        rest_src = IndexSpace(I, z3.simplify(src.n - 1), src.start)
    else:
        sh = (f.jvar, f.jvar + 1)
        rest_paths = [FMPath(z3.substitute(p.guard, sh), [I.elem_map(o, lambda e: z3.substitute(e, sh)) for o in p.outs],
                             p.note) for p in f.paths]
        rest_src = IndexSpace(I, z3.simplify(src.n - 1), src.start + 1)
    rest = core.mk_fm(I, rest_src, f.jvar, rest_paths, f.etype, ())
    return items, rest


def peel_silent_ends(I, f1, f2, depth=0):
    """two range-flatMaps whose ranges differ in length by one or two: the longer one is the shorter one plus end
    indices that provably emit nothing (e.g. the pair formed with an inserted sentinel that the filter drops)"""
    from .loops import IndexSpace
    ctx = I.ctx
    if not (isinstance(f1.src, IndexSpace) and isinstance(f2.src, IndexSpace)) or depth > 2:
        return False
    if ctx.entails(f1.src.n == f2.src.n):
        return same_fm(I, f1, f2)[0]
    for lg, sh, flip in ((f1, f2, False), (f2, f1, True)):
        if not ctx.entails(z3.And(lg.src.n > sh.src.n, lg.src.n <= sh.src.n + 2, sh.src.n >= 0)):
            continue
        for last in (False, True):
            r = peel_index(I, lg, last)
            if r is None or r[0] or not isinstance(r[1], FM):
                continue
            rest = fuse(I, r[1])
            if peel_silent_ends(I, rest, sh, depth + 1):
                return True
    return False


def peel_align(I, s1, s2):
    """make two segment lists comparable by peeling end indices off a range-flatMap that faces a segment of known
    items on the other side (the loop over range(len(xs) - 1) of a list that got a head / tail element inserted)"""
    s1, s2 = list(s1), list(s2)
    for _ in range(4):
        changed = False
        for last in (False, True):
            k = -1 if last else 0
            if not s1 or not s2:
                break
            a, b = s1[k], s2[k]
            for x, y, sy in ((a, b, s2), (b, a, s1)):
                if x.kind == "conc" and y.kind == "fm":
                    r = peel_index(I, y.fm, last)
                    if r is None:
                        continue
                    items, rest = r
                    new = segments(I, rest)
                    if items:
                        cs = Seg("conc", items=items, term=None)
                        new = new + [cs] if last else [cs] + new
                    if last:
                        sy[-1:] = new
                    else:
                        sy[0:1] = new
                    changed = True
                    break
            if changed:
                break
        if not changed:
            break
    return merge_conc(s1), merge_conc(s2)


def same_term_inner(I, t1, t2, depth=0):
    if t1 is t2:
        return True, None
    s1 = merge_conc(segments(I, t1))
    s2 = merge_conc(segments(I, t2))
    if PEEL and [x.kind for x in s1] != [x.kind for x in s2]:
        del UNDECIDED_GUARDS[:]
        s1, s2 = peel_align(I, s1, s2)
        if [x.kind for x in s1] != [x.kind for x in s2] and UNDECIDED_GUARDS and depth < 3:
            # proof by cases over the paths the peeled end index can take
            ctx = I.ctx
            for g in list(UNDECIDED_GUARDS[0]):
                with ctx.scoped():
                    ctx.assume(g)
                    if ctx.entails(z3.BoolVal(False)):
                        continue
                    ok, why = same_term_inner(I, t1, t2, depth + 1)
                    if not ok:
                        return ok, why
            return True, None
    if len(s1) != len(s2):
        ok, why = same_by_extensionality(I, t1, t2)
        return ok, why
    for a, b in zip(s1, s2):
        if a.kind != b.kind:
            return same_by_extensionality(I, t1, t2)
        if a.kind == "conc":
            if len(a.items) != len(b.items):
                return False, "lists of different length (%d vs %d)" % (len(a.items), len(b.items))
            for x, y in zip(a.items, b.items):
                ok, why = I.same_value(x, y)
                if not ok:
                    return ok, why
        elif a.kind == "fm":
            ok, why = same_fm(I, a.fm, b.fm)
            if not ok and PEEL and peel_silent_ends(I, a.fm, b.fm):
                ok = True
            if not ok:
                return ok, why
        else:
            if a.term is not b.term:
                if isinstance(a.term, Atom) and isinstance(b.term, Atom) and a.term.name == b.term.name:
                    continue
                if isinstance(a.term, Sorted) and isinstance(b.term, Sorted):
                    ok, why = same_term(I, a.term.inner, b.term.inner)
                    if ok:
                        continue
                    if same_up_to_segment_order(I, a.term.inner, b.term.inner):
                        continue
                return same_by_extensionality(I, t1, t2)
    return True, None


def same_up_to_segment_order(I, t1, t2):
    """sorted(xs ++ ys) == sorted(ys ++ xs) (lemma sort_perm_append, lean/Lifting.lean): the segments of the two
    concatenations are matched one to one in any order"""
    s1 = merge_conc(segments(I, t1))
    s2 = list(merge_conc(segments(I, t2)))
    if len(s1) != len(s2) or len(s1) < 2 or len(s1) > 4:
        return False
    for a in s1:
        hit = None
        for k, b in enumerate(s2):
            if a.kind != b.kind:
                continue
            if a.kind == "conc":
                if len(a.items) != len(b.items):
                    continue
                if all(I.same_value(x, y)[0] for x, y in zip(a.items, b.items)):
                    hit = k
                    break
            elif a.kind == "fm":
                if same_fm(I, a.fm, b.fm)[0]:
                    hit = k
                    break
            elif a.term is b.term or (isinstance(a.term, Atom) and isinstance(b.term, Atom)
                                      and a.term.name == b.term.name):
                hit = k
                break
        if hit is None:
            return False
        s2.pop(hit)
    return True


def src_same(a, b):
    if a is b:
        return True
    if isinstance(a, Atom) and isinstance(b, Atom) and a.name == b.name:
        return True
    from .loops import IndexSpace, PairSpace
    if isinstance(a, IndexSpace) and isinstance(b, IndexSpace):
        return z3.simplify(a.n == b.n) is not None and a.n.eq(b.n) and a.start == b.start
    if isinstance(a, PairSpace) and isinstance(b, PairSpace):
        return a.source.kind == b.source.kind and src_same(a.source.term, b.source.term) and \
            (a.source.term2 is None or src_same(a.source.term2, b.source.term2))
    return False


def same_fm(I, f1, f2):
    """congruence rule for flatMap: equal sources and pointwise equal bodies"""
    ctx = I.ctx
    aligned = src_same(f1.src, f2.src)
    if not aligned:
        # index-aligned sources (e.g. enumerate(xs) against range(len(xs))): concat_j body1(j) = concat_j body2(j)
        # when both index spaces have the same length and the bodies agree at every index (lemma flatMap_congr_idx)
        if not ctx.entails(f1.src.length() == f2.src.length()):
            return same_by_extensionality(I, f1, f2)
    j = ctx.fresh_int("jj")
    gm = f1.src.any_member(j)
    inrange = gm.cond
    if f2.src is not f1.src:
        f2.src.any_member(j)
        if aligned and f1.src.etype is not None:
            ctx.assume(z3.Implies(inrange, I.elem_eq(f1.src.at(j), f2.src.at(j))))
    c1, c2 = f1.count(j), f2.count(j)
    goals = [c1 == c2]
    n = max(f1.maxouts, f2.maxouts)
    for k in range(n):
        def out_k(f, k):
            cur = None
            for p in f.paths:
                if len(p.outs) > k:
                    o = I.coerce_elem(f.inst_elem(p.outs[k], j), f1.etype)
                    g = f.inst(p.guard, j)
                    cur = o if cur is None else bm.ite(I, g, o, cur)
            return cur
        o1, o2 = out_k(f1, k), out_k(f2, k)
        if o1 is None or o2 is None:
            continue
        goals.append(z3.Implies(c1 > k, I.elem_eq(o1, o2)))
    goal = z3.Implies(inrange, z3.And(goals))
    if I.engine_opts.get("touch"):
        # the list elements the two bodies mention at index j become indices of interest (pair / adjacency facts of
        # the underlying lists are instantiated for them)
        ctx.touch(goals, inrange)
    if ctx.entails(goal, patient=True):
        return True, None
    return False, ("per-element bodies differ", goal)


def strictly_sorted(I, term):
    ctx = I.ctx
    if term.etype is None:
        return False
    with ctx.scoped():
        i1, i2 = ctx.fresh_int("q1"), ctx.fresh_int("q2")
        m1 = term.any_member(i1)
        m2 = term.any_member(i2)
        lt = to_z3(bm.lex_lt(I, I.elem_parts(m1.elem), I.elem_parts(m2.elem), True))
        return ctx.entails(z3.Implies(z3.And(m1.cond, m2.cond, i1 < i2), lt))


def subset_of(I, a, b):
    """every element of list a occurs in list b (the witnesses are the images, in b, of the sources of an
    arbitrary element of a)"""
    ctx = I.ctx
    with ctx.scoped():
        i = ctx.fresh_int("sub")
        m = a.any_member(i)
        b.all_facts.append((TRUE, (lambda e, ix: TRUE), "probe"))
        ctx.ground()
        alts = [z3.And(bm_.cond, I.elem_eq(m.elem, bm_.elem)) for bm_ in b.members if bm_.elem is not None]
        if not alts:
            return ctx.entails(z3.Not(m.cond))
        return ctx.entails(z3.Implies(m.cond, z3.Or(alts)))


def same_by_sorted_sets(I, t1, t2):
    """lemma sorted_ext (lean/Lifting.lean): two strictly sorted lists with the same elements are equal"""
    if t1.etype is None or t2.etype is None:
        return False
    if not (strictly_sorted(I, t1) and strictly_sorted(I, t2)):
        return False
    return subset_of(I, t1, t2) and subset_of(I, t2, t1)


def same_sorted_perm(I, t1, t2):
    """sorted(X) == Y when Y is sorted and consists of the segments of X in some order (lemma sorted_perm_eq)"""
    for x, y in ((t1, t2), (t2, t1)):
        if isinstance(x, Sorted) and not isinstance(y, Sorted):
            if same_up_to_segment_order(I, x.inner, y) and prove_sorted(I, y):
                return True
    return False


def same_by_extensionality(I, t1, t2):
    """equal length and equal elements at an arbitrary index"""
    if same_sorted_perm(I, t1, t2):
        return True, None
    if same_by_sorted_sets(I, t1, t2):
        return True, None
    ctx = I.ctx
    if ctx.entails(z3.And(t1.length() == 0, t2.length() == 0)):
        return True, None
    for x, y in ((t1, t2), (t2, t1)):
        if isinstance(x, Conc) and not x.items:
            # an empty list literal against an abstract list: equal iff the latter is empty on this path
            goal = y.length() == 0
            if ctx.entails(goal, patient=True):
                return True, None
            return False, ("lists differ (one is empty)", goal)
    if t1.etype is None or t2.etype is None:
        return None, "cannot compare lists of non-element values"
    i = ctx.fresh_int("ext")
    m1 = t1.any_member(i)
    m2 = t2.any_member(i)
    goal = z3.And(t1.length() == t2.length(), z3.Implies(m1.cond, I.elem_eq(m1.elem, m2.elem)))
    if ctx.entails(goal, patient=True):
        return True, None
    return False, ("lists differ (extensionality)", goal)


def list_equal_value(I, a, b):
    """python == between two lists as a value"""
    ia, ib = I.items_of(a), I.items_of(b)
    if ia is not None and ib is not None:
        if len(ia) != len(ib):
            return False
        acc = []
        for x, y in zip(ia, ib):
            r = bm.equals(I, x, y)
            if r is False:
                return False
            if r is not True:
                acc.append(to_z3(r))
        return bm.simp_bool(z3.And(acc)) if acc else True
    ok, why = same_term(I, a.term, b.term)
    if ok:
        return True
    raise Unsupported("value equality of abstract lists that are not provably equal")
