"""Specification functions for the queries of C15, written from the property statement.

Only the spec-language subset may be used here: expressions, if/return, comprehensions."""
from praatio.utilities.constants import Interval, Point
from praatio.utilities import errors
from spec.prims import forall, exists, pairwise, adjacent, strip, is_sorted, subset
from spec.tiers import valid, disjoint_ordered, in_span_i, in_span_p


def find(self, matchLabel, substrMatchFlag=False, usingRE=False):
    """exactly the indices of the entries whose label equals / contains the query"""
    es = self._entries
    if substrMatchFlag:
        return [i for i in range(len(es)) if matchLabel in es[i].label]
    return [i for i in range(len(es)) if es[i].label == matchLabel]


def gaps(es):
    """the positive-length stretches between consecutive entries"""
    return [Interval(es[i].end, es[i + 1].start, "") for i in range(len(es) - 1) if es[i].end < es[i + 1].start]


def getNonEntries(self):
    """the unlabelled stretches of [0, maxTimestamp], in time order (tier with at least one entry)"""
    es = self._entries
    head = [Interval(0, es[0].start, "")] if es[0].start > 0 else []
    tail = [Interval(es[-1].end, self.maxTimestamp, "")] if es[-1].end < self.maxTimestamp else []
    return head + gaps(es) + tail


# ---- validate(): "returns False exactly when ... an out-of-span / out-of-order entry exists" (non-raising modes)

REPORTING_MODES = ("silence", "warning", "error")


def IntervalTier_validate(self, reportingMode):
    if reportingMode not in REPORTING_MODES:
        raise errors.WrongOption("reportingMode", reportingMode, REPORTING_MODES)
    es = self.entries
    return (forall(es, lambda e: e.start < e.end and self.minTimestamp <= e.start and e.end <= self.maxTimestamp)
            and adjacent(es, lambda a, b: a.end <= b.start))


def PointTier_validate(self, reportingMode):
    if reportingMode not in REPORTING_MODES:
        raise errors.WrongOption("reportingMode", reportingMode, REPORTING_MODES)
    ps = self.entries
    return (forall(ps, lambda p: self.minTimestamp <= p.time and p.time <= self.maxTimestamp)
            and adjacent(ps, lambda a, b: a.time <= b.time))


# ---- timestamps: "the sorted set of all boundary times"


def interval_boundaries(self):
    return [t for e in self._entries for t in [e.start, e.end]]


def point_times(self):
    return [p.time for p in self._entries]


# ---- invertIntervalList: "complement of an interval list within bounds" (C15; the keep/delete partition of C17)


def pair_gaps(es):
    """the positive-length stretches between consecutive intervals"""
    return [(es[i][1], es[i + 1][0]) for i in range(len(es) - 1) if es[i][1] < es[i + 1][0]]


def complement(es, minValue=None, maxValue=None):
    """the stretches of [minValue, maxValue] not covered by the (sorted, disjoint, valid) intervals, in order; an
    absent bound means no stretch on that side"""
    if len(es) == 0:
        return [(minValue, maxValue)]
    head = [(minValue, es[0][0])] if minValue is not None and minValue < es[0][0] else []
    tail = [(es[-1][1], maxValue)] if maxValue is not None and es[-1][1] < maxValue else []
    return head + pair_gaps(es) + tail


def invertIntervalList(inputList, minValue=None, maxValue=None):
    """an interval of non-positive length is rejected; otherwise the complement within the bounds"""
    if exists(inputList, lambda iv: iv[0] >= iv[1]):
        raise errors.ArgumentError("")
    return complement(inputList, minValue, maxValue)


# ---- C17: the keep / delete partition of a recording


def computeKeepDeleteIntervals(start, stop, keepIntervals=None, deleteIntervals=None):
    """the given stretches labelled as given and their complement within [start, stop] labelled the other way, in
    time order; both lists at once are rejected; neither list: everything is kept"""
    if keepIntervals and deleteIntervals:
        raise errors.ArgumentError("")
    if not keepIntervals and not deleteIntervals:
        return [(start, stop, "keep")]
    if deleteIntervals:
        dels = [(iv[0], iv[1]) for iv in deleteIntervals]
        keeps = complement(dels, start, stop)
    else:
        keeps = [(iv[0], iv[1]) for iv in keepIntervals]
        dels = complement(keeps, start, stop)
    return sorted([(s, e, "keep") for s, e in keeps] + [(s, e, "delete") for s, e in dels])
